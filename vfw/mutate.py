"""Sensitivity helper:  python -m vfw.mutate <ID> <relative file> <old text> <new text> [--tier quick]

Copies /repo/openmdao to a scratch directory outside /repo and /verif, replaces exactly one
occurrence of <old text> by <new text>, runs the check against the copy (VFW_REPO) and removes
the copy.  Replay files written by the mutated run are deleted again.  Prints DETECTED / MISSED.
"""
import os
import shutil
import subprocess
import sys
import tempfile

from vfw import core


def main():
    args = sys.argv[1:]
    tier = 'quick'
    if '--tier' in args:
        i = args.index('--tier')
        tier = args[i + 1]
        del args[i:i + 2]
    count = 1
    if '--count' in args:
        i = args.index('--count')
        count = int(args[i + 1])
        del args[i:i + 2]
    pid, rel, old, new = args
    old = old.encode().decode('unicode_escape')
    new = new.encode().decode('unicode_escape')
    tmp = tempfile.mkdtemp(prefix='om_mut_')
    try:
        subprocess.check_call(['rsync', '-a', '--exclude', '__pycache__', '--exclude', 'docs', '--exclude', '*_out',
                               '/repo/openmdao', tmp + '/'])
        path = os.path.join(tmp, rel)
        with open(path) as f:
            s = f.read()
        n = s.count(old)
        if n != count:
            print(f"MUTATION-ERROR: {n} occurrences of old text in {rel} (expected {count})")
            return 3
        with open(path, 'w') as f:
            f.write(s.replace(old, new))
        rdir = os.path.join(core.VERIF_DIR, 'replays', pid)
        before = set(os.listdir(rdir)) if os.path.isdir(rdir) else set()
        ev = os.path.join(core.VERIF_DIR, 'evidence', pid + '.json')
        evsave = open(ev).read() if os.path.exists(ev) else None
        env = dict(os.environ, VFW_REPO=tmp, VFW_REPLAY_DIR=os.path.join(tmp, '_replays'), VFW_EVIDENCE_DIR=os.path.join(tmp, '_evidence'))
        p = subprocess.run([sys.executable, '-m', 'vfw.run', pid, '--tier', tier], cwd=core.VERIF_DIR, env=env,
                           capture_output=True, text=True)
        out = p.stdout + p.stderr
        lines = [l for l in out.splitlines() if 'VIOLATION' in l or 'signature=' in l or 'HARNESS' in l or l.startswith(pid)]
        print('\n'.join(lines[:12]))
        print('DETECTED' if p.returncode == 1 else ('HARNESS-ERROR rc=2' if p.returncode == 2 else 'MISSED'))
        return 0
    finally:
        shutil.rmtree(tmp, ignore_errors=True)


if __name__ == '__main__':
    sys.exit(main())
