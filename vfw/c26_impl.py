"""C26: judges for the implicit stock components (BalanceComp, LinearSystemComp) and for SplineComp."""
import warnings
from collections import OrderedDict

import numpy as np

from vfw.c26_lib import (Fam, Inp, RTOL, build_problem, component_partials, dec, fail_exc, judge_explicit, q, worst)
from vfw.c26_fams import _inp, arr_or_scalar, eq_formula


# ------------------------------------------------------------------------------------------------------------
# BalanceComp:  R = (mult * lhs - rhs) / f_norm(rhs)
# ------------------------------------------------------------------------------------------------------------

def bal_shape(b):
    return tuple(b['shape']) if b['shape'] is not None else (1,)


def bal_units(b):
    """Requested units of (lhs, rhs, mult): <side>_kwargs['units'] wins over eq_units; mult has no units by default."""
    lk, rk, mk = b.get('lhs_kw') or {}, b.get('rhs_kw') or {}, b.get('mult_kw') or {}
    return (lk.get('units', b['eq_units']), rk.get('units', b['eq_units']), mk.get('units', None))


def known_bal_ctor_rhs_kwargs(case):
    """BalanceComp(name, ..., lhs_kwargs=... and/or rhs_kwargs=...) through the constructor (which forwards
    rhs_kwargs=lhs_kwargs)."""
    b = case['bals'][0]
    return bool(b.get('ctor')) and (b.get('rhs_kw') is not None or b.get('lhs_kw') is not None)


def known_bal_shared_kwargs(case):
    """The same dict object passed as <side>_kwargs to two add_balance calls."""
    return any(b.get('share_lhs_kw') for b in case['bals'][1:]) and case['bals'][0].get('lhs_kw') is not None


def known_bal_ndim2_mixed(b, rhs):
    """normalize=True, state of rank >= 2, and a first-axis slab of rhs holding both |rhs| < 2 and |rhs| > 2 entries."""
    if not b['normalize'] or rhs.ndim < 2:
        return False
    flat = np.abs(rhs.reshape(rhs.shape[0], -1))
    return bool(np.any(np.any(flat < 2.0, axis=1) & np.any(flat > 2.0, axis=1)))


def _bal_names(b):
    nm = b['name']
    return (b.get('lhs_name') or f"lhs:{nm}", b.get('rhs_name') or f"rhs:{nm}", b.get('mult_name') or f"mult:{nm}")


def make_balance(case):
    import openmdao.api as om
    c = None
    first_lhs_kw = None
    for i, b in enumerate(case['bals']):
        shape = bal_shape(b)
        kw = {}
        if b['eq_units']:
            kw['eq_units'] = b['eq_units']
        for k in ('lhs_name', 'rhs_name', 'mult_name'):
            if b.get(k):
                kw[k] = b[k]
        if b['rhs_val'] is not None:
            kw['rhs_val'] = arr_or_scalar(b['rhs_val'], shape)
        if b['use_mult']:
            kw['use_mult'] = True
            if b.get('mult_val') is not None:
                kw['mult_val'] = arr_or_scalar(b['mult_val'], shape)
        if not b['normalize']:
            kw['normalize'] = False
        sz = b['sizing']
        if sz == 'shape':
            kw['shape'] = shape
        elif sz == 'val':
            kw['val'] = np.full(shape, 0.75)
        elif sz == 'scalar_val':
            kw['val'] = 0.75
        # 'rhs_val': the array rhs_val sizes the state ; 'scalar': nothing
        if b.get('units'):
            kw['units'] = b['units']
        for side in ('lhs', 'rhs', 'mult'):
            d = b.get(side + '_kw')
            if d is not None:
                kw[side + '_kwargs'] = {k: (q(v_) if k == 'val' else v_) for k, v_ in d.items()}
        if i == 0:
            first_lhs_kw = kw.get('lhs_kwargs')
        elif b.get('share_lhs_kw') and first_lhs_kw is not None:
            kw['lhs_kwargs'] = first_lhs_kw                     # the caller re-uses one dict object
        if i == 0 and b.get('ctor'):
            c = om.BalanceComp(b['name'], **kw)
        else:
            if c is None:
                c = om.BalanceComp()
            c.add_balance(b['name'], **kw)
    return c


def judge_bal(case, res):
    import openmdao.api as om
    bals = case['bals']
    kn_ctor = known_bal_ctor_rhs_kwargs(case)
    kn_share = known_bal_shared_kwargs(case)
    inputs = OrderedDict()
    info = []
    # a balance that re-uses the first balance's lhs_kwargs dict asks for what that dict says
    eff = []
    for i, b in enumerate(bals):
        if i > 0 and b.get('share_lhs_kw') and bals[0].get('lhs_kw') is not None:
            shared = bals[0]['lhs_kw']
            if shared.get('units') is not None and b.get('eq_units') not in (None, shared['units']):
                res.discard = 'shared lhs_kwargs ask for units that conflict with eq_units of the second balance'
                return
            if 'val' in shared and bal_shape(b) != bal_shape(bals[0]):
                res.discard = 'shared lhs_kwargs carry a value of another shape'
                return
            b = dict(b, lhs_kw=dict(shared))
        eff.append(b)
    bals = eff
    for b in bals:
        shape = bal_shape(b)
        ln, rn, mn = _bal_names(b)
        lu, ru, mu = bal_units(b)
        rk = b.get('rhs_kw') or {}
        rdef = q(rk['val']) if 'val' in rk else (arr_or_scalar(b['rhs_val'], shape) if b['rhs_val'] is not None else 0.0)
        mdef = arr_or_scalar(b['mult_val'], shape) if b.get('mult_val') is not None else 1.0
        inputs[ln] = L = _inp(case, ln, shape, lu, default=1.0)
        inputs[rn] = R = _inp(case, rn, shape, ru, default=rdef)
        M = None
        if b['use_mult']:
            inputs[mn] = M = _inp(case, mn, shape, mu, default=mdef)
        info.append((b, shape, (ln, rn, mn), (lu, ru, mu), L, R, M))

    def construct_prefix():
        if kn_ctor and bals[0].get('lhs_kw') is not None:
            return 'bal-ctor-rhs_kwargs-replaced-by-lhs_kwargs'
        if kn_share:
            return 'bal-kwargs-dict-reused-across-add_balance'
        return None

    # ---- A: residuals + declared partials of the isolated component -------------------------------------
    try:
        with warnings.catch_warnings():
            warnings.simplefilter('ignore')
            comp = make_balance(case)
    except Exception as e:
        fail_exc(res, 'bal', construct_prefix(), e, 'construction')
        return
    try:
        with warnings.catch_warnings():
            warnings.simplefilter('ignore')
            p, wrt = build_problem(comp, inputs, 'fwd')
            p.final_setup()
            meta = p.model.get_io_metadata(iotypes=('input', 'output'), metadata_keys=('units', 'shape'))
    except Exception as e:
        fail_exc(res, 'bal', construct_prefix(), e, 'setup')
        return
    # declared units / shapes as requested by the options
    for b, shape, nms, uns, L, R, M in info:
        for nm, u in zip(nms, uns):
            if nm == nms[2] and not b['use_mult']:
                continue
            m = meta.get('c.' + nm)
            if m is None:
                res.fail('bal:input-missing', f"input {nm} not created")
                return
            if m['units'] != u:
                pre = 'bal-ctor-rhs_kwargs-ignored' if (kn_ctor and nm == nms[1]) else 'bal'
                res.fail(f"{pre}:input-units", f"input {nm}: units {m['units']!r}, options ask for {u!r}")
                return
            if tuple(m['shape']) != shape:
                res.fail('bal:input-shape', f"input {nm}: shape {m['shape']} expected {shape}")
                return
        if tuple(meta['c.' + b['name']]['shape']) != shape:
            res.fail('bal:state-shape', f"state {b['name']}: shape {meta['c.' + b['name']]['shape']} expected {shape}")
            return
    try:
        with warnings.catch_warnings():
            warnings.simplefilter('ignore')
            for b, shape, nms, uns, L, R, M in info:
                p.set_val('c.' + b['name'], dec(case['state'][b['name']]).reshape(shape))
            p.run_model()
            p.model.run_apply_nonlinear()
            resid = {b['name']: np.array(p.model.get_val('c.' + b['name'], kind='residual'), dtype=float)
                     for b, *_ in info}
            state_after = {b['name']: np.array(p.get_val('c.' + b['name']), dtype=float) for b, *_ in info}
            Jc = component_partials(p)
    except Exception as e:
        fail_exc(res, 'bal', None, e, 'run/apply_nonlinear/check_partials')
        return
    forms = {}
    for b, shape, nms, uns, L, R, M in info:
        mv = M.val if M is not None else np.ones(shape)
        mm = M.mag if M is not None else np.ones(shape)
        if kn_ctor and bals[0] is b and R.enc is None and 'val' in (b.get('rhs_kw') or {}):
            pre_v = 'bal-ctor-rhs_kwargs-ignored'
        else:
            pre_v = 'bal'
        val, (dl, dr, dm), sv, (sl, sr, sm) = eq_formula(L.val, R.val, mv, b['normalize'], L.mag, R.mag, mm)
        forms[b['name']] = (val, (dl, dr, dm), sv, (sl, sr, sm), mv)
        msg = worst(resid[b['name']], val, sv)
        if msg:
            res.fail(f"{pre_v}:residual", f"residual of {b['name']}: {msg}")
            if pre_v != 'bal':
                return
        x0 = dec(case['state'][b['name']]).reshape(shape)
        if not np.array_equal(state_after[b['name']], x0):
            res.fail('bal:state-changed-by-run', f"{b['name']}: {state_after[b['name']].tolist()} was {x0.tolist()}")
        pre = 'bal-normalize-rank2-mixed-rhs' if known_bal_ndim2_mixed(b, R.val) else 'bal'
        pairs = [(nms[0], dl, sl), (nms[1], dr, sr)] + ([(nms[2], dm, sm)] if M is not None else [])
        for nm, d, s in pairs:
            got = Jc.get((b['name'], nm))
            if got is None:
                res.fail('bal:partial-not-declared', f"({b['name']}, {nm})")
                continue
            msg = worst(got, np.diag(d.ravel()), np.diag(s.ravel()))
            if msg:
                res.fail(f"{pre}:partials", f"dR_{b['name']} / d {nm}: {msg}")
        got = Jc.get((b['name'], b['name']))
        if got is not None and np.any(got != 0.0):
            res.fail('bal:partials', f"dR/dstate must be zero, got {got.tolist()}")

    # ---- B: totals of the state through a feedback  lhs = state + q  (fwd and rev, DirectSolver) -----------
    if not case.get('fb'):
        return
    for b, shape, nms, uns, L, R, M in info:
        mv = forms[b['name']][4]
        if np.any(mv == 0.0):
            return              # dR/dstate singular: totals undefined
    for mode in ('fwd', 'rev'):
        try:
            with warnings.catch_warnings():
                warnings.simplefilter('ignore')
                comp = make_balance(case)
                # lhs is produced by the feedback component; its IndepVarComp source now feeds q (same units as lhs)
                fb_inputs = OrderedDict()
                for b, shape, nms, uns, L, R, M in info:
                    for nm in nms[1:]:
                        if nm in inputs:
                            fb_inputs[nm] = inputs[nm]
                p = om.Problem(reports=False)
                iv = p.model.add_subsystem('iv', om.IndepVarComp())
                wrt = {}
                for i, (nm, d) in enumerate(fb_inputs.items()):
                    if d.enc is not None:
                        iv.add_output(f"v{i}", val=d.src.copy(), units=d.su)
                        wrt[nm] = f"iv.v{i}"
                    else:
                        wrt[nm] = f"c.{nm}"
                qv = {}
                for j, (b, shape, nms, uns, L, R, M) in enumerate(info):
                    x0 = dec(case['state'][b['name']]).reshape(shape)
                    qv[b['name']] = L.val - x0                       # so that lhs keeps the value used in part A
                    iv.add_output(f"q{j}", val=qv[b['name']], units=uns[0])
                    ex = om.ExecComp('lhs = x + qq', has_diag_partials=True,
                                     lhs={'shape': shape, 'units': uns[0]}, x={'shape': shape, 'units': b.get('units')},
                                     qq={'shape': shape, 'units': uns[0]})
                    p.model.add_subsystem(f"f{j}", ex)
                p.model.add_subsystem('c', comp)
                for i, (nm, d) in enumerate(fb_inputs.items()):
                    if d.enc is not None:
                        p.model.connect(f"iv.v{i}", f"c.{nm}")
                for j, (b, shape, nms, uns, L, R, M) in enumerate(info):
                    p.model.connect(f"iv.q{j}", f"f{j}.qq")
                    p.model.connect(f"c.{b['name']}", f"f{j}.x")
                    p.model.connect(f"f{j}.lhs", f"c.{nms[0]}")
                p.model.linear_solver = om.DirectSolver()
                p.setup(mode=mode)
                for b, shape, nms, uns, L, R, M in info:
                    p.set_val('c.' + b['name'], dec(case['state'][b['name']]).reshape(shape))
                p.run_model()
                ofs = ['c.' + b['name'] for b, *_ in info]
                wrts = [wrt[nm] for nm in fb_inputs] + [f"iv.q{j}" for j in range(len(info))]
                J = p.compute_totals(of=ofs, wrt=wrts)
        except Exception as e:
            fail_exc(res, 'bal', None, e, f"feedback model ({mode})")
            return
        for j, (b, shape, nms, uns, L, R, M) in enumerate(info):
            mv = forms[b['name']][4]
            mm = M.mag if M is not None else np.ones(shape)
            x0 = dec(case['state'][b['name']]).reshape(shape)
            # the model forms lhs = x0 + (lhs - x0): its rounding error is relative to |x0| + |q|
            val, (dl, dr, dm), sv, (sl, sr, sm) = eq_formula(x0 + qv[b['name']], R.val, mv, b['normalize'],
                                                             np.abs(x0) + np.abs(qv[b['name']]), R.mag, mm)
            pre = 'bal-normalize-rank2-mixed-rhs' if known_bal_ndim2_mixed(b, R.val) else 'bal'
            fx = 1.0                                               # ExecComp adds the numbers as they are
            F = dl * fx                                            # dR/dstate through lhs = x*fx + q
            exp_q = -dl / F
            exp_r = -dr / F
            s_r = sr / np.abs(F)
            checks = [(f"iv.q{j}", 'q', exp_q, np.abs(exp_q), 1.0), (wrt[nms[1]], nms[1], exp_r, s_r, R.f)]
            if M is not None:
                checks.append((wrt[nms[2]], nms[2], -dm / F, sm / np.abs(F), M.f))
            for key, nm, e, s, f in checks:
                got = np.asarray(J['c.' + b['name'], key], dtype=float)
                msg = worst(got, np.diag(e.ravel()) * f, np.diag(np.asarray(s).ravel()) * abs(f) * 4.0)
                if msg:
                    res.fail(f"{pre}:feedback-totals-{mode}", f"d {b['name']} / d {nm}: {msg}")


# ------------------------------------------------------------------------------------------------------------
# LinearSystemComp:  R = A x - b ;  solve_nonlinear: x = A^-1 b
# ------------------------------------------------------------------------------------------------------------

def judge_linsys(case, res):
    import openmdao.api as om
    n, v, vecA = case['size'], case['vec'], bool(case['vecA'])
    nA = v if (vecA and v > 1) else 1
    xshape = (v, n) if v > 1 else (n,)
    Ashape = (nA, n, n) if nA > 1 else (n, n)
    inputs = OrderedDict()
    inputs['A'] = IA = Inp(Ashape, enc=case['A'])
    inputs['b'] = Ib = Inp(xshape, enc=case['b'])
    A3 = IA.val.reshape(nA, n, n)
    Afull = np.stack([A3[k if nA > 1 else 0] for k in range(v)])        # (v, n, n)
    b2 = Ib.val.reshape(v, n)
    x0 = dec(case['x0']).reshape(v, n)
    with np.errstate(all='ignore'):
        conds = [np.linalg.cond(Afull[k]) for k in range(v)]
    cond = max(conds)
    if not np.isfinite(cond) or cond > 1e6:
        res.discard = 'ill-conditioned A'
        return
    xs = np.stack([np.linalg.solve(Afull[k], b2[k]) for k in range(v)])
    Ainv = np.stack([np.linalg.inv(Afull[k]) for k in range(v)])

    def make():
        kw = {'size': n}
        if v != 1 or case.get('explicit_vec'):
            kw['vec_size'] = v
        if vecA:
            kw['vectorize_A'] = True
        return om.LinearSystemComp(**kw)

    ctol = RTOL * cond
    for mode in ('fwd', 'rev'):
        try:
            with warnings.catch_warnings():
                warnings.simplefilter('ignore')
                p, wrt = build_problem(make(), inputs, mode)
                p.final_setup()
                if mode == 'fwd':
                    p.set_val('c.x', x0.reshape(xshape))
                    p.model.run_apply_nonlinear()
                    R = np.array(p.model.get_val('c.x', kind='residual'), dtype=float)
                p.run_model()
                x = np.array(p.get_val('c.x'), dtype=float)
                J = p.compute_totals(of=['c.x'], wrt=[wrt['A'], wrt['b']])
                if mode == 'fwd':
                    Jc = component_partials(p)
                    p.model.run_apply_nonlinear()
                    Rsol = np.array(p.model.get_val('c.x', kind='residual'), dtype=float)
        except Exception as e:
            fail_exc(res, 'linsys', None, e, f"setup/run ({mode})")
            return
        if mode == 'fwd':
            Rexp = np.einsum('kij,kj->ki', Afull, x0) - b2
            Rs = np.einsum('kij,kj->ki', np.abs(Afull), np.abs(x0)) + np.abs(b2)
            msg = worst(R, Rexp.reshape(xshape), Rs.reshape(xshape))
            if msg:
                res.fail('linsys:residual', f"R(x0): {msg}")
            msg = worst(Rsol, np.zeros(xshape), (np.einsum('kij,kj->ki', np.abs(Afull), np.abs(xs)) + np.abs(b2)).reshape(xshape),
                        tol=1e-12 * cond + 1e-13)
            if msg:
                res.fail('linsys:residual-at-solution', msg)
        xscale = np.max(np.abs(xs), axis=1, keepdims=True) * np.ones((v, n))
        msg = worst(x, xs.reshape(xshape), xscale.reshape(xshape), tol=ctol)
        if msg:
            res.fail(f"linsys:solve_nonlinear", f"x ({mode}): {msg}")
        # dx/db = A^-1 (block diagonal) ; dx_k,i / dA_k,j,l = -Ainv_k[i, j] x_k[l]
        Jb = np.zeros((v * n, v * n))
        JA = np.zeros((v * n, nA * n * n))
        for k in range(v):
            Jb[k * n:(k + 1) * n, k * n:(k + 1) * n] = Ainv[k]
            ka = k if nA > 1 else 0
            blk = -np.einsum('ij,l->ijl', Ainv[k], xs[k]).reshape(n, n * n)
            JA[k * n:(k + 1) * n, ka * n * n:(ka + 1) * n * n] += blk
        sb = np.max(np.abs(Ainv))
        sA = sb * max(np.max(np.abs(xs)), 1e-300)
        for key, Je, s in ((wrt['b'], Jb, sb), (wrt['A'], JA, sA)):
            msg = worst(np.asarray(J['c.x', key], dtype=float), Je, s, tol=ctol * 10)
            if msg:
                res.fail(f"linsys:solve_linear-totals-{mode}", f"dx/d{key}: {msg}")
        if mode == 'fwd':
            # declared partials of the residual at the solution
            JxA = np.zeros((v * n, nA * n * n))
            Jxx = np.zeros((v * n, v * n))
            for k in range(v):
                ka = k if nA > 1 else 0
                for i in range(n):
                    JxA[k * n + i, ka * n * n + i * n: ka * n * n + (i + 1) * n] = x.reshape(v, n)[k]
                Jxx[k * n:(k + 1) * n, k * n:(k + 1) * n] = Afull[k]
            for key, Je in ((('x', 'A'), JxA), (('x', 'b'), -np.eye(v * n)), (('x', 'x'), Jxx)):
                got = Jc.get(key)
                if got is None:
                    res.fail('linsys:partial-not-declared', str(key))
                    continue
                msg = worst(got, Je, np.abs(Je))
                if msg:
                    res.fail('linsys:partials', f"dR/d{key[1]}: {msg}")
    return cond


# ------------------------------------------------------------------------------------------------------------
# SplineComp
# ------------------------------------------------------------------------------------------------------------

LINEAR_IN_VALUES = ('slinear', 'lagrange2', 'lagrange3', 'cubic', 'bsplines', 'scipy_cubic', 'scipy_slinear',
                    'scipy_quintic')
MIN_CP = {'slinear': 2, 'lagrange2': 3, 'lagrange3': 4, 'cubic': 4, 'akima': 5, 'scipy_slinear': 2, 'scipy_cubic': 4,
          'scipy_quintic': 6, 'bsplines': 4}


def spline_grid(case):
    if case['x_cp'] is not None:
        return np.array(case['x_cp'], dtype=float) / 4.0
    return np.linspace(0.0, 1.0, case['num_cp'])


def known_spline_xinterp_list(case):
    """x_interp_val given as a python list (a documented type)."""
    return case['xik'] == 'list'


def known_spline_ycp_list(case):
    """y_cp_val given as a python list (a documented type)."""
    return any(s.get('ycpk') == 'list' for s in case['splines'])


def known_spline_bsplines_square(case):
    """bsplines with as many interpolation points as vec_size (> 1 here): spline_gradient() tells the per-point akima
    derivative array from the shared sparse bspline matrix by `shape[0] == vec_size`."""
    return case['method'] == 'bsplines' and len(case['x_interp']) == case['vec']


def ref_interp(case, grid, xi, rows):
    """openmdao's own InterpND (table mode; spline mode for bsplines) for each row of control-point values."""
    from openmdao.components.interp_util.interp import InterpND
    opts = dict(case.get('opts') or {})
    out = []
    for row in rows:
        if case['method'] == 'bsplines':
            it = InterpND(method='bsplines', num_cp=len(row), x_interp=xi.copy(), **opts)
            out.append(np.asarray(it.evaluate_spline(np.asarray(row, dtype=float)), dtype=float).ravel())
        else:
            it = InterpND(method=case['method'], points=grid.copy(), values=np.asarray(row, dtype=float).copy(),
                          extrapolate=True, **opts)
            out.append(np.asarray(it.interpolate(xi.copy()), dtype=float).ravel())
    return np.array(out)


def own_slinear(grid, y, xi):
    """Piecewise-linear interpolation with linear extrapolation from the end segments."""
    k = np.clip(np.searchsorted(grid, xi, side='right') - 1, 0, len(grid) - 2)
    t = (xi - grid[k]) / (grid[k + 1] - grid[k])
    return y[..., k] * (1.0 - t) + y[..., k + 1] * t


def own_bspline(ncp, order, xi, y):
    from scipy.interpolate import BSpline
    knots = np.concatenate([np.zeros(order - 1), np.linspace(0.0, 1.0, ncp - order + 2), np.ones(order - 1)])
    t = (xi - xi[0]) / (xi[-1] - xi[0])
    return np.array([BSpline(knots, np.asarray(r, dtype=float), order - 1, extrapolate=True)(t) for r in y])


def judge_spline(case, res):
    import openmdao.api as om
    method = case['method']
    v = case['vec']
    grid = spline_grid(case)
    ncp = len(grid)
    xi = np.array(case['x_interp'], dtype=float) / 8.0
    ni = len(xi)
    splines = case['splines']
    kn_x = known_spline_xinterp_list(case)
    kn_y = known_spline_ycp_list(case)

    def make():
        kw = {'method': method, 'x_interp_val': xi.tolist() if case['xik'] == 'list' else xi.copy()}
        if v != 1:
            kw['vec_size'] = v
        if case['x_cp'] is not None:
            kw['x_cp_val'] = grid.tolist() if case.get('xck') == 'list' else grid.copy()
        else:
            kw['num_cp'] = case['num_cp']
        if case.get('opts'):
            kw['interp_options'] = dict(case['opts'])
        c = om.SplineComp(**kw)
        for s in splines:
            skw = {}
            if s.get('ycp') is not None:
                yv = dec(s['ycp'])
                yv = yv.reshape(v, ncp) if s.get('ycp2d', True) else yv
                skw['y_cp_val'] = yv.tolist() if s.get('ycpk') == 'list' else yv
            if s['units']:
                skw['y_units'] = s['units']
            c.add_spline(y_cp_name=s['cp'], y_interp_name=s['out'], **skw)
        return c

    inputs = OrderedDict()
    for s in splines:
        dflt = dec(s['ycp']).reshape(v, ncp) if s.get('ycp') is not None else 1.0
        inputs[s['cp']] = _inp(case, s['cp'], (v, ncp), s['units'], default=dflt)
    # reference values (differential oracle) and reference Jacobians
    outputs = OrderedDict()
    partials = {}
    extra = {}
    for s in splines:
        Y = inputs[s['cp']]
        ymag = np.max(Y.mag, axis=1, keepdims=True) * np.ones((v, ni))
        span = (max(grid[-1], xi.max()) - min(grid[0], xi.min())) / np.min(np.diff(grid))
        amp = 1.0 + span ** {'slinear': 1, 'scipy_slinear': 1, 'lagrange2': 2}.get(method, 3)   # extrapolation growth
        try:
            ref = ref_interp(case, grid, xi, Y.val)
        except Exception as e:
            res.discard = f"reference InterpND raised {type(e).__name__}"
            return
        outputs[s['out']] = (ref, ymag * amp * 100.0)
        Jm = np.zeros((v * ni, v * ncp))
        Sm = np.zeros((v * ni, v * ncp))
        if method in LINEAR_IN_VALUES:
            B = ref_interp(case, grid, xi, np.eye(ncp)).T                 # (ni, ncp): response to unit control points
            for k in range(v):
                Jm[k * ni:(k + 1) * ni, k * ncp:(k + 1) * ncp] = B
                Sm[k * ni:(k + 1) * ni, k * ncp:(k + 1) * ncp] = 100.0 * amp
            partials[s['out'], s['cp']] = (Jm, Sm)
        else:
            # akima is not linear in the values: central differences of the reference with a convergence gate
            ok = True
            # akima's weights are |differences of consecutive slopes|: where two consecutive slopes are equal (collinear
            # control points, e.g. all zeros) the interpolant is not differentiable in the values (it is positively
            # homogeneous there, not linear), so no Jacobian exists to compare with
            for k in range(v):
                sl = np.diff(np.asarray(Y.val[k], dtype=float)) / np.diff(np.asarray(grid, dtype=float))
                if sl.size >= 2 and np.any(np.abs(np.diff(sl)) <= 1e-9 * max(1.0, float(np.max(np.abs(sl))))):
                    ok = False
            for k in range(v):
                for j in range(ncp):
                    cols = []
                    for h in (1e-4, 5e-5):
                        hh = h * max(float(np.max(Y.mag[k])), 1e-3)
                        yp, ym = Y.val[k].copy(), Y.val[k].copy()
                        yp[j] += hh
                        ym[j] -= hh
                        cols.append((ref_interp(case, grid, xi, [yp])[0] - ref_interp(case, grid, xi, [ym])[0]) / (2 * hh))
                    if np.max(np.abs(cols[0] - cols[1])) > 1e-6 * amp:
                        ok = False
                    # kink gate: akima's weights are absolute values of slope differences, so at (nearly) collinear
                    # control values the interpolant has a kink in the values; a central difference is then the mean of
                    # two different one-sided derivatives and says nothing about the partial the component may return
                    hh = 5e-5 * max(float(np.max(Y.mag[k])), 1e-3)
                    y0_ = ref_interp(case, grid, xi, [Y.val[k].copy()])[0]
                    yp, ym = Y.val[k].copy(), Y.val[k].copy()
                    yp[j] += hh
                    ym[j] -= hh
                    fwd = (ref_interp(case, grid, xi, [yp])[0] - y0_) / hh
                    bwd = (y0_ - ref_interp(case, grid, xi, [ym])[0]) / hh
                    if np.max(np.abs(fwd - bwd)) > 1e-3 * max(1.0, float(np.max(np.abs(cols[1])))):
                        ok = False
                    Jm[k * ni:(k + 1) * ni, k * ncp + j] = cols[1]
            extra[s['out']] = ('fd', Jm, ok)
            partials[s['out'], s['cp']] = (Jm, _block_scale(v, ni, ncp, amp), 1e-5 if ok else None)
        extra.setdefault(s['out'], ('lin', None, True))

    def known(clause, of=None, wrt=None):
        if clause == 'construct' or clause == 'run':
            if kn_y:
                return 'spline-y_cp_val-given-as-list'
            if kn_x:
                return 'spline-x_interp_val-given-as-list'
            if clause == 'run' and known_spline_bsplines_square(case):
                return 'spline-bsplines-n_interp-equals-vec_size'
        return None

    fam = Fam('spline', make, inputs, outputs, partials, known)
    # SplineComp builds its variables in setup(): a construction problem shows up in the run stage
    got = judge_explicit(fam, res)
    if got is None:
        return
    for mode, (vals, J, p) in got.items():
        wrt_of = {}
        for s in splines:
            Y = inputs[s['cp']]
            y = vals[s['out']]
            if y.shape != (v, ni):
                continue
            ymag = np.max(Y.mag, axis=1, keepdims=True)
            # absolute: interpolating methods reproduce the control points at the nodes
            if method != 'bsplines':
                for kk, x in enumerate(xi):
                    hit = np.nonzero(grid == x)[0]
                    if hit.size:
                        msg = worst(y[:, kk], Y.val[:, hit[0]], ymag[:, 0] * 10.0)
                        if msg:
                            res.fail('spline:node-value', f"{s['out']} at x={x} ({mode}): {msg}")
            if method in ('slinear', 'scipy_slinear'):
                exp = own_slinear(grid, Y.val, xi)
                inside = (xi >= grid[0]) & (xi <= grid[-1])
                span = (max(grid[-1], xi.max()) - min(grid[0], xi.min())) / np.min(np.diff(grid))
                msg = worst(y, exp, ymag * (1.0 + span) * 10.0)
                if msg:
                    res.fail('spline:slinear-vs-own-piecewise-linear', f"{s['out']} ({mode}): {msg}")
                if np.any(inside):
                    npi = np.array([np.interp(xi[inside], grid, row) for row in Y.val])
                    msg = worst(y[:, inside], npi, ymag * 10.0)
                    if msg:
                        res.fail('spline:slinear-vs-np.interp', f"{s['out']} ({mode}): {msg}")
            if method == 'bsplines':
                order = (case.get('opts') or {}).get('order', 4)
                exp = own_bspline(ncp, order, xi, Y.val)
                msg = worst(y, exp, ymag * 100.0)
                if msg:
                    res.fail('spline:bsplines-vs-scipy-BSpline', f"{s['out']} ({mode}): {msg}")
    return extra


def _block_scale(v, ni, ncp, amp):
    S = np.zeros((v * ni, v * ncp))
    for k in range(v):
        S[k * ni:(k + 1) * ni, k * ncp:(k + 1) * ncp] = 100.0 * amp
    return S


def _src_name(inputs, name):
    for i, nm in enumerate(inputs):
        if nm == name:
            return f"iv.v{i}"
    return None
