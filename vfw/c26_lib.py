"""Helpers for property C26 (stock math components): value encoding, an independent unit table, the generic
"isolated explicit component fed by IndepVarComps" judge (values + compute_totals in fwd and rev) and comparison helpers.

Nothing in here draws random numbers; everything is a pure function of the JSON case.
"""
import os
import warnings

import numpy as np

from vfw import core

RTOL = 1e-10

# ------------------------------------------------------------------------------------------------------------
# independent unit table:  value_SI = (value + offset) * factor   (checked once by hand against the unit library)
# ------------------------------------------------------------------------------------------------------------
UNIT = {
    'm': ('len', 1.0, 0.0), 'cm': ('len', 0.01, 0.0), 'mm': ('len', 0.001, 0.0), 'km': ('len', 1000.0, 0.0),
    'ft': ('len', 0.3048, 0.0), 'inch': ('len', 0.0254, 0.0),
    's': ('time', 1.0, 0.0), 'ms': ('time', 0.001, 0.0), 'min': ('time', 60.0, 0.0), 'h': ('time', 3600.0, 0.0),
    'kg': ('mass', 1.0, 0.0), 'g': ('mass', 0.001, 0.0), 'lbm': ('mass', 0.45359237, 0.0),
    'N': ('force', 1.0, 0.0), 'kN': ('force', 1000.0, 0.0),
    'degK': ('temp', 1.0, 0.0), 'degC': ('temp', 1.0, 273.15), 'degF': ('temp', 5.0 / 9.0, 459.67),
    'degR': ('temp', 5.0 / 9.0, 0.0),
    'rad': ('angle', 1.0, 0.0), 'deg': ('angle', np.pi / 180.0, 0.0),
}
FAMILIES = {}
for _u, (_f, _a, _b) in UNIT.items():
    FAMILIES.setdefault(_f, []).append(_u)
# labels for product outputs: never converted by the harness, only declared
LABEL_UNITS = [None, 'N*m', 'm**2', 'J', 'm/s', 'kg*m', 'N/m', '1/s', 'm']


def conv(su, tu):
    """(f, add) with  value_in_tu = value_in_su * f + add."""
    if su == tu or su is None or tu is None:
        return 1.0, 0.0
    fam_s, fs, os_ = UNIT[su]
    fam_t, ft, ot = UNIT[tu]
    assert fam_s == fam_t, (su, tu)
    return fs / ft, os_ * fs / ft - ot


def dec(enc):
    """Integer-coded array: value = n / (4 * 10**e)."""
    return np.array(enc['n'], dtype=float) / (4.0 * 10 ** int(enc['e']))


def q(n):
    """Integer-coded scalar in quarters."""
    return n / 4.0


def seq(vals, kind):
    if kind == 'tuple':
        return tuple(vals)
    if kind == 'array':
        return np.array(vals, dtype=float)
    return list(vals)


class Inp(object):
    """One component input: documented shape, component-side units, and either an IndepVarComp source (enc, su) or
    the component's own default value (in component units)."""

    def __init__(self, shape, cu=None, enc=None, su=None, default=None):
        self.shape = tuple(shape)
        self.size = int(np.prod(self.shape)) if self.shape else 1
        self.cu = cu
        self.enc = enc
        self.su = su if enc is not None else None
        if enc is not None:
            src = dec(enc)
            assert src.size == self.size, (src.size, self.shape)
            f, add = conv(self.su, cu)
            self.src = src.reshape(self.shape)
            self.f = f
            self.val = self.src * f + add
            self.mag = np.abs(self.src) * abs(f) + abs(add)      # magnitude bound used for tolerances
        else:
            self.src = None
            self.f = 1.0
            self.val = np.broadcast_to(np.asarray(default, dtype=float), self.shape).copy()
            self.mag = np.abs(self.val)

    @property
    def converted(self):
        return self.enc is not None and (self.f != 1.0 or self.su != self.cu)


def worst(got, exp, scale, tol=RTOL):
    """None when |got-exp| <= tol*scale everywhere, else a short description of the worst entry."""
    got = np.asarray(got, dtype=float)
    exp = np.asarray(exp, dtype=float)
    if got.shape != exp.shape:
        return f"shape {got.shape} expected {exp.shape}"
    if got.size == 0:
        return None
    scale = np.broadcast_to(np.asarray(scale, dtype=float), exp.shape)
    with np.errstate(all='ignore'):
        err = np.abs(got - exp)
        ok = err <= tol * scale
    if np.all(ok):
        return None
    bad = np.argwhere(~ok)
    k = tuple(bad[0])
    return (f"{len(bad)} of {got.size} entries differ; entry {k}: got {got[k]!r} expected {exp[k]!r} "
            f"(allowed {tol * scale[k]:.3e})")


def om_exception_sig(exc, prefix):
    """Signature of an exception raised inside openmdao; None when no openmdao frame is involved (harness bug)."""
    return core.repo_frame_signature(exc, prefix)


class Fam(object):
    """Everything the generic judge needs to know about one explicit component case."""

    def __init__(self, name, make, inputs, outputs, partials, known=None, nprob=None):
        self.name = name
        self.make = make                 # () -> fresh component
        self.inputs = inputs             # ordered dict name -> Inp
        self.outputs = outputs           # ordered dict name -> (expected array, scale array)
        self.partials = partials         # dict (of, wrt) -> (J dense [of.size, wrt.size], scale) in component units
        self.known = known or (lambda clause, of=None, wrt=None: None)


def build_problem(comp, inputs, mode, extra=None):
    """Problem with the component 'c' fed by IndepVarComp 'iv' (only for inputs that have a source)."""
    import openmdao.api as om
    p = om.Problem(reports=False)
    srcs = [(i, nm, d) for i, (nm, d) in enumerate(inputs.items()) if d.enc is not None]
    wrt = {}
    if srcs:
        iv = p.model.add_subsystem('iv', om.IndepVarComp())
        for i, nm, d in srcs:
            iv.add_output(f"v{i}", val=d.src.copy(), units=d.su)
    p.model.add_subsystem('c', comp)
    for i, (nm, d) in enumerate(inputs.items()):
        if d.enc is not None:
            p.model.connect(f"iv.v{i}", f"c.{nm}")
            wrt[nm] = f"iv.v{i}"
        else:
            wrt[nm] = f"c.{nm}"
    if extra is not None:
        extra(p)
    p.setup(mode=mode)
    return p, wrt


def fail_exc(res, fam_name, known_prefix, exc, stage):
    sig = om_exception_sig(exc, fam_name)
    if sig is None:
        raise exc
    if known_prefix:
        sig = f"{known_prefix}:{type(exc).__name__}"
    res.fail(sig, f"{stage}: {type(exc).__name__}: {exc}")


def judge_explicit(fam, res, modes=('fwd', 'rev'), post=None):
    """Values and totals of the isolated component.  Returns {mode: (got, J, problem)} or None after an exception."""
    out = {}
    of_names = list(fam.outputs)
    for mode in modes:
        try:
            with warnings.catch_warnings():
                warnings.simplefilter('ignore')
                comp = fam.make()
        except Exception as e:
            fail_exc(res, fam.name, fam.known('construct'), e, 'construction')
            return None
        try:
            with warnings.catch_warnings():
                warnings.simplefilter('ignore')
                p, wrt = build_problem(comp, fam.inputs, mode)
                p.run_model()
                got = {o: np.array(p.get_val('c.' + o), dtype=float) for o in of_names}
                J = p.compute_totals(of=['c.' + o for o in of_names], wrt=[wrt[n] for n in fam.inputs])
        except Exception as e:
            fail_exc(res, fam.name, fam.known('run'), e, f"setup/run/compute_totals ({mode})")
            return None
        out[mode] = (got, J, p)
        # values
        for o, (exp, scale) in fam.outputs.items():
            msg = worst(got[o], exp, scale)
            if msg:
                clause = 'shape' if msg.startswith('shape') else 'value'
                pre = fam.known(clause, of=o) or fam.name
                res.fail(f"{pre}:{clause}", f"output '{o}' ({mode}): {msg}")
        # totals
        allscale = [float(np.max(ent[1])) for ent in fam.partials.values() if np.size(ent[1])]
        zero_scale = max(allscale) if allscale else 1.0
        for o, (exp, _) in fam.outputs.items():
            for n, d in fam.inputs.items():
                Jg = np.asarray(J['c.' + o, wrt[n]], dtype=float)
                tol = RTOL
                if (o, n) in fam.partials:
                    ent = fam.partials[o, n]
                    Je, Js = ent[0], ent[1]
                    if len(ent) > 2:
                        tol = ent[2]
                        if tol is None:          # reference not available for this block (gate failed): not judged
                            continue
                    Je = np.asarray(Je, dtype=float) * d.f
                    Js = np.broadcast_to(np.asarray(Js, dtype=float), Je.shape) * abs(d.f)
                    # entries that are structurally zero get the scale of the largest entry of the block
                    Js = np.where(Js == 0.0, 0.0, Js)
                else:
                    Je = np.zeros((exp.size, d.size))
                    Js = np.full(Je.shape, zero_scale)
                msg = worst(Jg, Je, Js, tol=tol)
                if msg:
                    pre = fam.known('totals', of=o, wrt=n) or fam.name
                    res.fail(f"{pre}:totals-{mode}", f"d {o} / d {n} ({mode}): {msg}")
        if post is not None:
            post(mode, got, J, p, wrt)
    return out


class forced_check_partials(object):
    """OPENMDAO_CHECK_ALL_PARTIALS is the documented override of _no_check_partials (read at call time)."""

    def __enter__(self):
        self.old = os.environ.get('OPENMDAO_CHECK_ALL_PARTIALS')
        os.environ['OPENMDAO_CHECK_ALL_PARTIALS'] = '1'

    def __exit__(self, *a):
        if self.old is None:
            os.environ.pop('OPENMDAO_CHECK_ALL_PARTIALS', None)
        else:
            os.environ['OPENMDAO_CHECK_ALL_PARTIALS'] = self.old


def component_partials(p, comp_name='c'):
    """{(of, wrt): dense J} of the component's own analytic partials (J_fwd of check_partials)."""
    with forced_check_partials():
        with warnings.catch_warnings():
            warnings.simplefilter('ignore')
            data = p.check_partials(out_stream=None, includes=[comp_name], method='fd')
    return {k: np.asarray(v['J_fwd'], dtype=float) for k, v in data[comp_name].items()}
