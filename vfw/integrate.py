"""python -m vfw.integrate CXX [sig_substring=commit ...] : move staged findings of a property into known_findings.json.
Entries whose signature contains a given substring are recorded as fixed by that commit; the rest stay findings."""
import json, os, sys
from vfw import core
pid = sys.argv[1]
fixes = dict(a.split('=') for a in sys.argv[2:])
staged = os.path.join(core.VERIF_DIR, 'findings', pid + '.known.json')
k = json.load(open(core.KNOWN_FINDINGS_FILE))
if os.path.exists(staged):
    for e in json.load(open(staged))['entries']:
        for sub, commit in fixes.items():
            if sub in e['signature'] or sub == '*':
                e['status'] = 'fixed'
                e['commit'] = commit
                e['what'] = f"fixed: property={pid} {commit} {e['what']}"
        k['entries'] = [x for x in k['entries'] if not (x['property'] == pid and x['signature'] == e['signature'])]
        k['entries'].append(e)
    os.remove(staged)
json.dump(k, open(core.KNOWN_FINDINGS_FILE, 'w'), indent=1)
ready = os.path.join(core.VERIF_DIR, 'vfw', 'ready.txt')
r = set(open(ready).read().split()); r.add(pid)
open(ready, 'w').write(' '.join(sorted(r)) + '\n')
print('integrated', pid)
