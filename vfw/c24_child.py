"""Child worker for C24: evaluates model specs with relevance enabled or disabled (env read at import time).

Protocol: one JSON request per line on stdin -> one JSON reply per line on stdout.
"""
import json
import sys
import warnings


def main():
    warnings.simplefilter('ignore')
    import numpy as np
    import openmdao.api as om
    from vfw.gen_model import build_problem
    from vfw import core
    warnings.simplefilter('ignore')
    out = sys.stdout
    sys.stdout = sys.stderr     # anything OpenMDAO prints must not corrupt the protocol
    for line in sys.stdin:
        line = line.strip()
        if not line:
            continue
        req = json.loads(line)
        rep = {'ok': True}
        try:
            spec = req['spec']
            rep['modes'] = {}
            for mode in req.get('modes', ['fwd', 'rev']):
                p, groups = build_problem(spec, mode=mode)
                p.final_setup()
                p.run_model()
                vals = {}
                for c in spec['comps']:
                    for v in c['outputs']:
                        n = '.'.join(c['path'] + [c['name'], v['name']])
                        vals[n] = np.asarray(p.get_val(n)).ravel().tolist()
                Jd = p.compute_totals(return_format='flat_dict', driver_scaling=False)
                J = {f"{k[0]}|{k[1]}": np.asarray(v).tolist() for k, v in Jd.items()}
                J2 = None
                if req.get('of'):
                    J2 = np.asarray(p.compute_totals(of=req['of'], wrt=req['wrt'], return_format='array')).tolist()
                cons = {k: np.asarray(v).ravel().tolist() for k, v in p.driver.get_constraint_values(driver_scaling=False).items()}
                rep['modes'][mode] = {'vals': vals, 'J': J, 'J2': J2, 'cons': cons}
        except om.AnalysisError as e:
            rep = {'ok': False, 'analysis_error': True, 'error': str(e)[:300]}
        except Exception as e:
            rep = {'ok': False, 'analysis_error': False, 'error': f"{type(e).__name__}: {e}"[:500],
                   'sig': core.repo_frame_signature(e, 'child')}
        out.write(json.dumps(rep) + '\n')
        out.flush()


if __name__ == '__main__':
    main()
