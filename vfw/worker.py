"""Worker: python -m vfw.worker <ID> <unit.json> <out.json>  (fresh interpreter per unit)."""
import importlib
import json
import os
import sys
import traceback
import warnings


def main():
    prop_id, upath, opath = sys.argv[1:4]
    warnings.simplefilter('ignore')
    from vfw import core
    with open(upath) as f:
        unit = json.load(f)
    ctx = core.Ctx(prop_id, known_sigs=unit.get('known_sigs', ()))
    ctx.partial_path = opath + '.partial'
    try:
        mod = importlib.import_module(f"vfw.props.{prop_id.lower()}")
        if unit.get('kind') == '__replay__':
            for p in unit['paths']:
                with open(p) as f:
                    rec = json.load(f)
                core.safe_check(mod.check, rec['case'], ctx)
        else:
            mod.run_unit(unit, ctx)
    except Exception as e:
        ctx.harness_error(f"{type(e).__name__}: {e}\n" + traceback.format_exc()[-3000:])
    with open(opath, 'w') as f:
        f.write(core.dumps(ctx.dump()))
    sys.stdout.flush()
    os._exit(0)   # no lingering threads (jax, BLAS) may keep the worker alive


if __name__ == '__main__':
    main()
