"""Regenerate /verif/MANIFEST.json from the property modules that exist (python -m vfw.gen_manifest)."""
import importlib
import json
import os

from vfw import core

SETUP = ("/venv/bin/python -c \"import hypothesis, jsonschema\" 2>/dev/null || "
         "/venv/bin/pip install --no-index --find-links /opt/veriftools/wheels hypothesis jsonschema")

BASELINE_OFF = ("cd /repo && /venv/bin/python -m pytest -ra -q -p no:cacheprovider --timeout=900 "
                "--continue-on-collection-errors --junitxml=/tmp/verif_baseline.junit.xml")

NOT_BUILT_REASON = {}


def main():
    props = []
    with open(os.path.join(core.VERIF_DIR, 'properties.jsonl')) as f:
        for line in f:
            if line.strip():
                props.append(json.loads(line))
    checks = []
    na = []
    for p in props:
        pid = p['id']
        path = os.path.join(core.VERIF_DIR, 'vfw', 'props', pid.lower() + '.py')
        with open(os.path.join(core.VERIF_DIR, 'vfw', 'ready.txt')) as rf:
            ready = set(rf.read().split())
        if not os.path.exists(path) or pid not in ready:
            na.append({'property_id': pid,
                       'reason': NOT_BUILT_REASON.get(pid, 'check not built yet (planned in DESIGN.md section 4); '
                                                           'nothing is claimed for this property')})
            continue
        mod = importlib.import_module(f"vfw.props.{pid.lower()}")
        checks.append({
            'property_id': pid,
            'quick_cmd': f"/venv/bin/python -m vfw.run {pid} --tier quick",
            'thorough_cmd': f"/venv/bin/python -m vfw.run {pid} --tier thorough",
            'evidence_file': f"/verif/evidence/{pid}.json",
            'replay_cmd_template': f"/venv/bin/python -m vfw.run {pid} --replay {{path}}",
            'engine': 'vfw',
            'level_claimed': {
                'category': mod.LEVEL,
                'text': getattr(mod, 'LEVEL_TEXT', None) or (
                    "Generated-input search against an explicit oracle: " + mod.TECHNIQUE +
                    ". Holds on everything explored within the stated bound; says nothing beyond it."),
                'design_ref': f"DESIGN.md section 4, {pid}",
            },
            'level_note': getattr(mod, 'LEVEL_NOTE', None) or '; '.join(mod.ASSUMPTIONS),
            'technique': mod.TECHNIQUE,
        })
    man = {
        'version': 1,
        'setup_cmd': SETUP,
        'hooks': {
            'guard': 'OPENMDAO_VERIF',
            'enable': 'no hooks: OpenMDAO is pure Python and /venv holds an editable install of /repo, so every check '
                      'imports the current working tree in fresh worker processes; all observation points are harness-side '
                      '(spy subclasses, instance-level wrappers, sqlite3.connect factory in child processes)',
            'baseline_off_cmd': BASELINE_OFF,
            'source_commits': [],
            'add_only': True,
        },
        'engines': [{'name': 'vfw', 'path': '/verif/vfw',
                     'serves_properties': [c['property_id'] for c in checks],
                     'kind_free_text': 'Hypothesis (seeded, database=None) + itertools exhaustive enumeration over a '
                                       '16-process pool of fresh interpreters; collect-then-shrink; JSON replay files'}],
        'checks': checks,
        'not_applicable': na,
        'notes': 'Every check: cwd=/verif, honours VERIF_SEED and VERIF_TIER, rewrites its evidence file, exit 0/1/2 '
                 '(2 = harness error, never a VIOLATION). Known findings live in /verif/known_findings.json.',
    }
    with open(os.path.join(core.VERIF_DIR, 'MANIFEST.json'), 'w') as f:
        json.dump(man, f, indent=1)
        f.write('\n')
    try:
        import jsonschema
        with open('/root/.vp/MANIFEST.schema.json') as f:
            jsonschema.validate(man, json.load(f))
        print('MANIFEST valid;', len(checks), 'checks,', len(na), 'not_applicable')
    except FileNotFoundError:
        pass


if __name__ == '__main__':
    main()
