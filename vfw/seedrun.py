"""python -m vfw.seedrun <ID> <patch.diff> [--tier quick] : run a check against a scratch copy of /repo with a patch applied."""
import os, shutil, subprocess, sys, tempfile
from vfw import core

def main():
    args = sys.argv[1:]
    tier = 'quick'
    if '--tier' in args:
        i = args.index('--tier'); tier = args[i + 1]; del args[i:i + 2]
    pid, patch = args
    tmp = tempfile.mkdtemp(prefix='om_seed_')
    try:
        subprocess.check_call(['rsync', '-a', '--exclude', '__pycache__', '--exclude', 'docs', '--exclude', '*_out', '/repo/openmdao', tmp + '/'])
        subprocess.check_call(['git', 'init', '-q'], cwd=tmp)
        r = subprocess.run(['git', 'apply', '--whitespace=nowarn', os.path.abspath(patch)], cwd=tmp, capture_output=True, text=True)
        if r.returncode != 0:
            print('PATCH-ERROR', r.stderr[:500]); return 3
        rdir = os.path.join(core.VERIF_DIR, 'replays', pid)
        before = set(os.listdir(rdir)) if os.path.isdir(rdir) else set()
        ev = os.path.join(core.VERIF_DIR, 'evidence', pid + '.json')
        evsave = open(ev).read() if os.path.exists(ev) else None
        p = subprocess.run([sys.executable, '-m', 'vfw.run', pid, '--tier', tier], cwd=core.VERIF_DIR, env=dict(os.environ, VFW_REPO=tmp, VFW_REPLAY_DIR=os.path.join(tmp, '_replays'), VFW_EVIDENCE_DIR=os.path.join(tmp, '_evidence')), capture_output=True, text=True)
        out = p.stdout + p.stderr
        print('\n'.join([l[:220] for l in out.splitlines() if 'VIOLATION' in l or 'signature=' in l or 'HARNESS' in l or l.startswith(pid)][:10]))
        keep = os.environ.get('VFW_KEEP_REPLAYS')
        print('DETECTED' if p.returncode == 1 else ('HARNESS-ERROR rc=2' if p.returncode == 2 else 'MISSED'))
    finally:
        shutil.rmtree(tmp, ignore_errors=True)

if __name__ == '__main__':
    sys.exit(main())
