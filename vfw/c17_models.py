"""Small recorded-run generator shared by C17 / C19 (/ C18).

A *spec* is a JSON-able description of
  * a small OpenMDAO model: an optional IndepVarComp, 2-4 explicit components with closed-form math (linear + sine term)
    (some of them inside a plain group ``G``), an optional coupled pair inside group ``cyc`` under NonlinearBlockGS or
    Newton, a final scalar objective component, units on some variables, promoted names;
  * a driver (plain Driver / DOEDriver(ListGenerator) / ScipyOptimizeDriver(SLSQP));
  * ONE SqliteRecorder attached to a subset of {problem, driver, systems, nonlinear solvers} with recording options;
  * a run sequence (run_model / run_driver / record / set).

Optional spec fields (absent in older replay files, where they mean "feature not used"):
  * input ``'si'``: list of distinct source indices -- the input is a partial / reordered view of its source
    (``connect(..., src_indices=si)`` or ``promotes(..., src_indices=si)``);
  * input ``'alias'``: the input is promoted into its parent group under this name (rename).  With ``src['t'] == 'auto'`` the
    alias names an entry of ``spec['shared']``; with ``'implicit': True`` and ``src['t'] == 'ivc'`` the alias is the promoted name
    of an IndepVarComp output, i.e. the connection is made by promotion instead of ``connect``;
  * ``spec['shared']``: list of ``{'name', 'at' ('root'|'G'), 'units', 'val', 'size', 'dv'}``: several unconnected inputs promoted
    to one name whose ``_auto_ivc`` source is described by ``group.set_input_defaults(name, val=val, units=units)`` -- the units may
    differ from the units declared on every promoted input.

``build(spec)`` creates the problem, ``run_recorded(spec, fname)`` executes the run sequence while keeping a live snapshot
log: the ``record_iteration`` method of every requester with a recorder is wrapped at instance level and the model's
root vectors are copied at each call, in order.  ``reference(spec, dv)`` evaluates the model in plain NumPy.
"""
import numpy as np

Q = 4.0          # integer-coded coefficients are divided by Q

UNIT_PAIRS = [(None, None), (None, None), ('m', 'm'), ('m', 'cm'), ('s', 'ms'), ('kg', 'g'), ('cm', 'm')]
UNIT_FACTOR = {('m', 'm'): 1.0, ('m', 'cm'): 100.0, ('s', 'ms'): 1000.0, ('kg', 'g'): 1000.0, ('cm', 'm'): 0.01,
               (None, None): 1.0}
# units used by the promoted groups of unconnected inputs (set_input_defaults): value of one unit in the family's base unit
UNIT_FAMILIES = [['m', 'cm', 'mm'], ['s', 'ms', 'min'], ['kg', 'g']]
UNIT_BASE = {'m': 1.0, 'cm': 0.01, 'mm': 0.001, 's': 1.0, 'ms': 0.001, 'min': 60.0, 'kg': 1.0, 'g': 0.001}


def ufactor(su, tu):
    """x [su] = ufactor * x [tu] ... i.e. a value expressed in `su` is multiplied by this factor to express it in `tu`"""
    if (su, tu) in UNIT_FACTOR:
        return UNIT_FACTOR[(su, tu)]
    if su is None or tu is None or su == tu:
        return 1.0
    return UNIT_BASE[su] / UNIT_BASE[tu]


def shared_groups(spec):
    return spec.get('shared') or []


def shared_members(spec, sh):
    """[(abs input name, input dict)] of the inputs promoted to the shared name"""
    return [(a, v) for a, v in all_inputs(spec) if v.get('alias') == sh['name'] and v['src'] is not None and v['src']['t'] == 'auto']


def shared_of_input(spec, v):
    """the spec['shared'] entry an (unconnected) input belongs to, or None"""
    if v.get('alias') and v['src'] is not None and v['src']['t'] == 'auto':
        for sh in shared_groups(spec):
            if sh['name'] == v['alias']:
                return sh
    return None


def is_view(si, n):
    """src_indices that are not the identity over a source of size n"""
    return si is not None and list(si) != list(range(n))


# ------------------------------------------------------------------------------------------------------------
# names
# ------------------------------------------------------------------------------------------------------------

def comp_path(spec, k):
    c = spec['comps'][k]
    return ('G.' if c['grp'] else '') + c['name']


def _prom(path_in_parent, grp, gprom):
    """promoted name at root of a variable whose name inside its parent group `grp` is path_in_parent"""
    if not grp:
        return path_in_parent
    return path_in_parent if gprom else grp + '.' + path_in_parent


def var_names(spec):
    """Return dict abs_name -> {'io', 'prom' (root promoted name), 'sys' (abs path of the owning component), 'size', 'units'}."""
    out = {}
    if spec['ivc']:
        for d in spec['ivc']['outs']:
            out['ivc.' + d['n']] = {'io': 'output', 'prom': d['n'] if spec['ivc']['prom'] else 'ivc.' + d['n'], 'sys': 'ivc',
                                    'size': d['size'], 'units': d['units']}
    for k, c in enumerate(spec['comps']):
        path = comp_path(spec, k)
        for io, lst in (('input', c['ins']), ('output', c['outs'])):
            for v in lst:
                inner = v['n'] if c['prom'] else c['name'] + '.' + v['n']
                if io == 'input' and v.get('alias'):
                    inner = v['alias']
                out[path + '.' + v['n']] = {'io': io, 'prom': _prom(inner, c['grp'], spec['gprom']), 'sys': path,
                                            'size': v['size'], 'units': v['units']}
    cy = spec['cycle']
    if cy:
        for comp, io, n, units in (('d1', 'input', 'cu', cy['u_units']), ('d1', 'input', 'cy2', None), ('d1', 'output', 'cy1', cy['y1_units'][0]),
                                   ('d2', 'input', 'cy1', cy['y1_units'][1]), ('d2', 'output', 'cy2', None)):
            inner = n if cy['prom'] else comp + '.' + n
            out[f"cyc.{comp}.{n}"] = {'io': io, 'prom': _prom(inner, 'cyc', cy['gprom']), 'sys': 'cyc.' + comp, 'size': 1,
                                      'units': units}
    for v in spec['obj']['ins']:
        out['obj.' + v['n']] = {'io': 'input', 'prom': 'obj.' + v['n'], 'sys': 'obj', 'size': v['size'], 'units': v['units']}
    out['obj.f'] = {'io': 'output', 'prom': 'obj.f', 'sys': 'obj', 'size': 1, 'units': None}
    return out


def src_abs(spec, src):
    """absolute name of the output an input is connected to (None for an unconnected input)"""
    if src is None or src['t'] == 'auto':
        return None
    if src['t'] == 'ivc':
        return 'ivc.' + spec['ivc']['outs'][src['i']]['n']
    if src['t'] == 'out':
        return comp_path(spec, src['c']) + '.' + src['o']
    if src['t'] == 'cyc':
        return 'cyc.d2.cy2' if src['o'] == 'cy2' else 'cyc.d1.cy1'
    raise ValueError(src)


def all_inputs(spec):
    """[(abs input name, input dict)] in model order"""
    res = []
    for k, c in enumerate(spec['comps']):
        for v in c['ins']:
            res.append((comp_path(spec, k) + '.' + v['n'], v))
    if spec['cycle']:
        res.append(('cyc.d1.cu', spec['cycle']['u']))
    for v in spec['obj']['ins']:
        res.append(('obj.' + v['n'], v))
    return res


def system_paths(spec):
    """absolute pathnames of all systems ('' = root)"""
    paths = ['']
    if spec['ivc']:
        paths.append('ivc')
    if any(c['grp'] for c in spec['comps']):
        paths.append('G')
    paths += [comp_path(spec, k) for k in range(len(spec['comps']))]
    if spec['cycle']:
        paths += ['cyc', 'cyc.d1', 'cyc.d2']
    paths.append('obj')
    return paths


def group_paths(spec):
    g = ['']
    if any(c['grp'] for c in spec['comps']):
        g.append('G')
    if spec['cycle']:
        g.append('cyc')
    return g


def desvar_names(spec):
    """list of (name given to add_design_var, absolute source/input name, size)"""
    names = var_names(spec)
    res = []
    if spec['ivc']:
        for d in spec['ivc']['outs']:
            res.append((names['ivc.' + d['n']]['prom'], 'ivc.' + d['n'], d['size']))
    for absn, v in all_inputs(spec):
        if v.get('dv') and (v['src'] is None or v['src']['t'] == 'auto') and shared_of_input(spec, v) is None:
            res.append((names[absn]['prom'], absn, v['size']))
    for sh in shared_groups(spec):
        mem = shared_members(spec, sh)
        if sh.get('dv') and mem:
            # design variable = the promoted name (its value is the _auto_ivc source: sh['size'] entries in sh['units'])
            res.append((names[mem[0][0]]['prom'], mem[0][0], sh['size']))
    return res


# ------------------------------------------------------------------------------------------------------------
# components
# ------------------------------------------------------------------------------------------------------------

def _red(x, m):
    """reduce/broadcast an input of size n to an output of size m; returns (value(m), jac(m,n))"""
    n = x.size
    if n == m:
        return x.copy(), np.eye(m)
    if n == 1:
        return np.full(m, x[0]), np.ones((m, 1))
    return np.full(m, np.sum(x)), np.ones((m, n))


def comp_eval(c, invals):
    """closed-form outputs of a LinQuad component; invals: list of arrays in the INPUT's units"""
    outs = []
    for o in c['outs']:
        m = o['size']
        val = np.full(m, o['c'] / Q)
        for i, w in enumerate(o['w']):
            r, _ = _red(np.asarray(invals[i], dtype=float).ravel(), m)
            val = val + (w / Q) * r
        r0, _ = _red(np.asarray(invals[0], dtype=float).ravel(), m)
        val = val + (o['q'] / Q) * np.sin(r0)            # bounded nonlinearity: magnitudes stay moderate along the chain
        outs.append(val)
    return outs


def obj_eval(ob, invals):
    f = 0.0
    for v, x in zip(ob['ins'], invals):
        x = np.asarray(x, dtype=float).ravel()
        f = f + np.sum((x - v['t'] / Q) ** 2) * (v['s'] / Q)
    return np.array([f])


def make_linquad(c):
    import openmdao.api as om

    class LinQuad(om.ExplicitComponent):
        def setup(self):
            for v in c['ins']:
                self.add_input(v['n'], val=np.array(v['val'], dtype=float), units=v['units'])
            for o in c['outs']:
                self.add_output(o['n'], val=np.zeros(o['size']), units=o['units'])
            self.declare_partials('*', '*')

        def compute(self, inputs, outputs):
            vals = comp_eval(c, [inputs[v['n']] for v in c['ins']])
            for o, val in zip(c['outs'], vals):
                outputs[o['n']] = val

        def compute_partials(self, inputs, partials):
            for o in c['outs']:
                m = o['size']
                r0, _ = _red(np.asarray(inputs[c['ins'][0]['n']]).ravel(), m)
                for i, (v, w) in enumerate(zip(c['ins'], o['w'])):
                    _, J = _red(np.asarray(inputs[v['n']]).ravel(), m)
                    d = (w / Q) * J
                    if i == 0:
                        d = d + (o['q'] / Q) * np.cos(r0)[:, None] * J
                    partials[o['n'], v['n']] = d
    return LinQuad()


def make_obj(ob):
    import openmdao.api as om

    class Obj(om.ExplicitComponent):
        def setup(self):
            for v in ob['ins']:
                self.add_input(v['n'], val=np.array(v['val'], dtype=float), units=v['units'])
            self.add_output('f', val=0.0)
            self.declare_partials('*', '*')

        def compute(self, inputs, outputs):
            outputs['f'] = obj_eval(ob, [inputs[v['n']] for v in ob['ins']])

        def compute_partials(self, inputs, partials):
            for v in ob['ins']:
                x = np.asarray(inputs[v['n']]).ravel()
                partials['f', v['n']] = (2 * (x - v['t'] / Q) * (v['s'] / Q))[None, :]
    return Obj()


def cyc_coeffs(cy):
    f12 = UNIT_FACTOR[tuple(cy['y1_units'])]            # d2 sees cy1 multiplied by this factor
    return cy['k1'] / 8.0, cy['k2'] / 8.0, cy['q'] / 8.0, cy['s'] / Q, f12


def make_cycle_comps(cy):
    import openmdao.api as om
    k1, k2, q, s, f12 = cyc_coeffs(cy)
    usize = cy['u']['size']

    class D1(om.ExplicitComponent):
        def setup(self):
            self.add_input('cu', val=np.array(cy['u']['val'], dtype=float), units=cy['u_units'])
            self.add_input('cy2', val=1.0)
            self.add_output('cy1', val=1.0, units=cy['y1_units'][0])
            self.declare_partials('*', '*')

        def compute(self, inputs, outputs):
            outputs['cy1'] = k1 * inputs['cy2'] + s * np.sum(inputs['cu']) + 1.0

        def compute_partials(self, inputs, partials):
            partials['cy1', 'cy2'] = k1
            partials['cy1', 'cu'] = np.full((1, usize), s)

    class D2(om.ExplicitComponent):
        def setup(self):
            self.add_input('cy1', val=1.0, units=cy['y1_units'][1])
            self.add_output('cy2', val=1.0)
            self.declare_partials('*', '*')

        def compute(self, inputs, outputs):
            y = inputs['cy1'] / f12
            outputs['cy2'] = k2 * y + q * np.tanh(y)

        def compute_partials(self, inputs, partials):
            y = inputs['cy1'] / f12
            partials['cy2', 'cy1'] = (k2 + q * (1.0 - np.tanh(y) ** 2)) / f12
    return D1(), D2()


# ------------------------------------------------------------------------------------------------------------
# problem construction
# ------------------------------------------------------------------------------------------------------------

def build(spec, recorder_file=None):
    """Build (not set up) the problem. Returns (problem, handles) ; handles maps requester key -> object."""
    import openmdao.api as om
    p = om.Problem(reports=False)
    model = p.model
    names = var_names(spec)
    if spec['ivc']:
        ivc = om.IndepVarComp()
        for d in spec['ivc']['outs']:
            ivc.add_output(d['n'], val=np.array(d['val'], dtype=float), units=d['units'])
        model.add_subsystem('ivc', ivc, promotes=['*'] if spec['ivc']['prom'] else None)
    G = None
    for k, c in enumerate(spec['comps']):
        if c['grp']:
            if G is None:
                G = model.add_subsystem('G', om.Group(), promotes=['*'] if spec['gprom'] else None)
            parent = G
        else:
            parent = model
        ali = [v for v in c['ins'] if v.get('alias')]
        if not ali:
            parent.add_subsystem(c['name'], make_linquad(c), promotes=['*'] if c['prom'] else None)
        else:
            pin = [v['n'] for v in c['ins'] if not v.get('alias')] if c['prom'] else []
            pin += [(v['n'], v['alias']) for v in ali if not v.get('si')]
            parent.add_subsystem(c['name'], make_linquad(c), promotes_inputs=pin or None,
                                 promotes_outputs=['*'] if c['prom'] else None)
            for v in ali:
                if v.get('si'):
                    parent.promotes(c['name'], inputs=[(v['n'], v['alias'])], src_indices=list(v['si']))
    cy = spec['cycle']
    if cy:
        cyc = model.add_subsystem('cyc', om.Group(), promotes=['*'] if cy['gprom'] else None)
        d1, d2 = make_cycle_comps(cy)
        cyc.add_subsystem('d1', d1, promotes=['*'] if cy['prom'] else None)
        cyc.add_subsystem('d2', d2, promotes=['*'] if cy['prom'] else None)
        if not cy['prom']:
            cyc.connect('d1.cy1', 'd2.cy1')
            cyc.connect('d2.cy2', 'd1.cy2')
        if cy['solver'] == 'nlbgs':
            cyc.nonlinear_solver = om.NonlinearBlockGS(maxiter=cy.get('maxiter', 30), atol=1e-12, rtol=1e-12, iprint=-1)
        else:
            cyc.nonlinear_solver = om.NewtonSolver(solve_subsystems=False, maxiter=cy.get('maxiter', 30), atol=1e-12, rtol=1e-12,
                                                   iprint=-1)
        cyc.linear_solver = om.DirectSolver()
    model.add_subsystem('obj', make_obj(spec['obj']))
    for absn, v in all_inputs(spec):
        s = src_abs(spec, v['src'])
        if s is not None and not v.get('implicit'):
            if v.get('si'):
                model.connect(names[s]['prom'], names[absn]['prom'], src_indices=list(v['si']))
            else:
                model.connect(names[s]['prom'], names[absn]['prom'])
    for sh in shared_groups(spec):
        mem = shared_members(spec, sh)
        if not mem:
            continue
        kw = {'val': np.array(sh['val'], dtype=float)}
        if sh['units'] is not None:
            kw['units'] = sh['units']
        if sh['at'] == 'G':
            G.set_input_defaults(sh['name'], **kw)
        else:
            model.set_input_defaults(names[mem[0][0]]['prom'], **kw)

    # design variables / responses
    for (nm, _, size) in desvar_names(spec):
        model.add_design_var(nm, lower=-10.0, upper=10.0)
    model.add_objective('obj.f')
    for con in spec['cons']:
        model.add_constraint(names[con['abs']]['prom'], lower=con['lower'])

    # driver
    drv = spec['driver']
    if drv['t'] == 'doe':
        dvn = [nm for nm, _, _ in desvar_names(spec)]
        data = [[(nm, np.array(vals, dtype=float)) for nm, vals in zip(dvn, pt)] for pt in drv['points']]
        p.driver = om.DOEDriver(om.ListGenerator(data))
    elif drv['t'] == 'slsqp':
        p.driver = om.ScipyOptimizeDriver(optimizer='SLSQP', maxiter=drv['maxiter'], tol=1e-9, disp=False)
    handles = {'problem': p, 'driver': p.driver}

    def _sys(path):
        s = model
        for part in (path.split('.') if path else []):
            s = getattr(s, part)
        return s

    rec = None
    if recorder_file is not None:
        rec = om.SqliteRecorder(recorder_file, record_viewer_data=False)
    for r in spec['recorders']:
        kind, path = r['on'], r.get('path', '')
        if kind == 'problem':
            obj = p
        elif kind == 'driver':
            obj = p.driver
        elif kind == 'system':
            obj = _sys(path)
        else:
            obj = _sys(path).nonlinear_solver
        handles[key_of(r)] = obj
        for k, val in r['opts'].items():
            obj.recording_options[k] = val
        if rec is not None:
            obj.add_recorder(rec)
    handles['recorder'] = rec
    return p, handles


def key_of(r):
    if r['on'] in ('problem', 'driver'):
        return r['on']
    return r['on'] + ':' + r.get('path', '')


def source_name(r):
    """the name the reader uses for this source"""
    if r['on'] in ('problem', 'driver'):
        return r['on']
    root = 'root' + ('.' + r['path'] if r.get('path') else '')
    return root if r['on'] == 'system' else root + '.nonlinear_solver'


# ------------------------------------------------------------------------------------------------------------
# recorded run with live snapshot log
# ------------------------------------------------------------------------------------------------------------

class Offsets(object):
    """name -> (start, stop, shape) inside the flat root vector, found from the memory address of the variable views"""

    def __init__(self, vec):
        base = vec.asarray()
        b0 = base.__array_interface__['data'][0]
        self.map = {}
        for name in vec._abs_iter():
            view = vec._abs_get_val(name, flat=False)
            off = (view.__array_interface__['data'][0] - b0) // base.itemsize
            self.map[name] = (int(off), int(off + view.size), tuple(view.shape))

    def get(self, flat, name):
        a, b, shape = self.map[name]
        return flat[a:b].reshape(shape)


class relaxed_sqlite(object):
    """While active, connections opened through sqlite3.connect get PRAGMA synchronous=OFF and an in-memory rollback journal:
    the recorder's per-case commits then cost no fsync / journal file (durability is C18's subject, not C17/C19's)."""

    def __init__(self, active=True):
        self.active = active

    def __enter__(self):
        import sqlite3
        self._orig = sqlite3.connect
        if self.active:
            orig = self._orig

            def connect(*a, **k):
                con = orig(*a, **k)
                con.execute('PRAGMA synchronous=OFF')
                con.execute('PRAGMA journal_mode=MEMORY')
                return con
            sqlite3.connect = connect

    def __exit__(self, *exc):
        import sqlite3
        sqlite3.connect = self._orig


def run_recorded(spec, fname, p=None, handles=None, fast=True):
    """Execute spec['ops'] with the recorder writing to `fname`; returns (problem, log, info).

    log entries: {'key', 'source', 'name' (case name), 'stack', 'prefix', 'inputs', 'outputs', 'residuals' (flat copies of the
    root vectors), 'abs', 'rel', 'after_run' (True if recorded outside any run, i.e. by Problem.record)}
    """
    if p is None:
        p, handles = build(spec, fname)
    model = p.model
    p.setup()
    with relaxed_sqlite(fast):
        p.final_setup()
    log = []
    riter = p._metadata['recording_iter']

    def snap(key, source, name, **kw):
        e = {'key': key, 'source': source, 'name': name, 'stack': [[n, int(i)] for n, i in riter.stack], 'prefix': riter.prefix,
             'inputs': model._inputs.asarray().copy(), 'outputs': model._outputs.asarray().copy(),
             'residuals': model._residuals.asarray().copy(), 'abs': kw.get('abs'), 'rel': kw.get('rel'), 'op': cur['op']}
        log.append(e)

    def coord():
        pre = (riter.prefix + '_') if riter.prefix else ''
        return pre + 'rank0:' + '|'.join(f"{n}|{i}" for n, i in riter.stack)

    cur = {'op': -1}
    for r in spec['recorders']:
        key = key_of(r)
        obj = handles[key]
        src = source_name(r)
        if r['on'] == 'problem':
            orig = obj.record

            def record(case_name, _orig=orig, _key=key, _src=src):
                snap(_key, _src, case_name)
                return _orig(case_name)
            obj.record = record
        elif r['on'] == 'solver':
            orig = obj.record_iteration

            def record_iteration(_orig=orig, _key=key, _src=src, **kwargs):
                snap(_key, _src, coord(), **kwargs)
                return _orig(**kwargs)
            obj.record_iteration = record_iteration
        else:
            orig = obj.record_iteration

            def record_iteration(_orig=orig, _key=key, _src=src):
                snap(_key, _src, coord())
                return _orig()
            obj.record_iteration = record_iteration

    dvs = desvar_names(spec)
    fails = []
    for i, op in enumerate(spec['ops']):
        cur['op'] = i
        if op['op'] == 'set':
            nm, absn, size = dvs[op['dv'] % len(dvs)]
            p.set_val(nm, np.array((op['val'] * size)[:size], dtype=float))
        elif op['op'] == 'run_model':
            p.run_model(case_prefix=op.get('prefix'), reset_iter_counts=op.get('reset', True))
        elif op['op'] == 'run_driver':
            fails.append(p.run_driver(case_prefix=op.get('prefix'), reset_iter_counts=op.get('reset', True)))
        elif op['op'] == 'record':
            p.record(op['name'])
        elif op['op'] == 'recopts':
            r = spec['recorders'][op['rec']]
            obj = handles[key_of(r)]
            dflt = dict(DEFAULT_OPTS[r['on']])
            dflt.update(op['opts'])
            for k, val in dflt.items():       # the new option set replaces the old one completely
                obj.recording_options[k] = val
    info = {'out_off': Offsets(model._outputs), 'in_off': Offsets(model._inputs), 'res_off': Offsets(model._residuals),
            'fails': fails}
    return p, log, info


# ------------------------------------------------------------------------------------------------------------
# NumPy reference of the model
# ------------------------------------------------------------------------------------------------------------

def reference(spec, given):
    """Evaluate the model in NumPy.  `given`: abs name -> value for ivc outputs and unconnected inputs (input units);
    '@' + shared name -> value of the source of a spec['shared'] group (sh['size'] entries in sh['units']).
    An input reads the entries `si` of its source (all of them without `si`), converted from the source's to the input's units.
    Returns dict abs name -> value for every input and output (cycle solved to 1e-15 by fixed point iteration)."""
    vals = {}
    if spec['ivc']:
        for d in spec['ivc']['outs']:
            vals['ivc.' + d['n']] = np.asarray(given['ivc.' + d['n']], dtype=float).ravel()
    names = var_names(spec)

    def fetch(absn, v):
        s = src_abs(spec, v['src'])
        sh = shared_of_input(spec, v)
        if s is None and sh is not None and '@' + sh['name'] in given:
            src = np.asarray(given['@' + sh['name']], dtype=float).ravel()
            vals['@' + sh['name']] = src
            x = (src[list(v['si'])] if v.get('si') else src) * ufactor(sh['units'], v['units'])
        elif s is None:
            x = np.asarray(given[absn], dtype=float).ravel()
        else:
            f = ufactor(names[s]['units'], v['units'])
            x = (vals[s][list(v['si'])] if v.get('si') else vals[s]) * f
        vals[absn] = x
        return x

    for k, c in enumerate(spec['comps']):
        path = comp_path(spec, k)
        ins = [fetch(path + '.' + v['n'], v) for v in c['ins']]
        for o, val in zip(c['outs'], comp_eval(c, ins)):
            vals[path + '.' + o['n']] = val
    cy = spec['cycle']
    if cy:
        k1, k2, q, s, f12 = cyc_coeffs(cy)
        u = fetch('cyc.d1.cu', cy['u'])
        y1, y2 = 1.0, 1.0
        for _ in range(500):
            y1n = k1 * y2 + s * np.sum(u) + 1.0
            y2n = k2 * y1n + q * np.tanh(y1n)
            done = abs(y1n - y1) + abs(y2n - y2) < 1e-16 * (1 + abs(y1n))
            y1, y2 = y1n, y2n
            if done:
                break
        vals['cyc.d1.cy1'] = np.array([y1])
        vals['cyc.d2.cy1'] = np.array([y1 * f12])
        vals['cyc.d2.cy2'] = np.array([y2])
        vals['cyc.d1.cy2'] = np.array([y2])
    ins = [fetch('obj.' + v['n'], v) for v in spec['obj']['ins']]
    vals['obj.f'] = obj_eval(spec['obj'], ins)
    return vals


def given_from_snapshot(spec, conn, rinfo, e):
    """the `given` argument of reference() taken from the snapshot `e` of a recorded run: IndepVarComp outputs, the _auto_ivc
    source of every spec['shared'] group and the value of every other unconnected input"""
    given = {}
    if spec['ivc']:
        for d in spec['ivc']['outs']:
            given['ivc.' + d['n']] = rinfo['out_off'].get(e['outputs'], 'ivc.' + d['n'])
    for i, v in all_inputs(spec):
        o = conn.get(i, '')
        if not o.startswith('_auto_ivc.'):
            continue
        sh = shared_of_input(spec, v)
        if sh is not None:
            given['@' + sh['name']] = rinfo['out_off'].get(e['outputs'], o)
        else:
            given[i] = rinfo['in_off'].get(e['inputs'], i)
    return given


def feature_classes(spec):
    """class labels of the promoted-group / src_indices features a spec uses"""
    cls = []
    for sh in shared_groups(spec):
        mem = shared_members(spec, sh)
        if not mem:
            continue
        cls.append('gen:shared-auto-input')
        if len(mem) >= 2:
            cls.append('gen:shared-auto-input:2+members')
        if any(ufactor(sh['units'], v['units']) != 1.0 for _, v in mem):
            cls.append('gen:defaults-units-differ-from-inputs')
        if len({v['units'] for _, v in mem}) >= 2 and all(v['units'] != sh['units'] for _, v in mem):
            cls.append('gen:defaults-units-differ-from-inputs:three-units')
        if any(is_view(v.get('si'), sh['size']) for _, v in mem):
            cls.append('gen:src-indices:promoted-auto')
    names = var_names(spec)
    for a, v in all_inputs(spec):
        s = src_abs(spec, v['src'])
        if s is not None and is_view(v.get('si'), names[s]['size']):
            cls.append('gen:src-indices:promoted-ivc' if v.get('implicit') else 'gen:src-indices:connect')
            if ufactor(names[s]['units'], v['units']) != 1.0:
                cls.append('gen:src-indices:with-unit-conversion')
        elif s is not None and v.get('implicit'):
            cls.append('gen:implicit-ivc-promotion')
    if any(c.startswith('gen:src-indices') for c in cls):
        cls.append('gen:src-indices')
    return list(dict.fromkeys(cls))


# ------------------------------------------------------------------------------------------------------------
# Hypothesis strategy
# ------------------------------------------------------------------------------------------------------------

NICE = [0.0, 0.5, -0.75, 1.0, 1.5, -2.0, 2.5, 0.125, -1.25, 3.0]


def spec_strategy(max_recorders=4, drivers=('plain', 'doe', 'slsqp'), want_inputs_bias=False):
    from hypothesis import strategies as st

    @st.composite
    def spec_st(draw):
        nice = st.sampled_from(NICE)
        sizes = st.sampled_from([1, 1, 2, 3])

        def vals(n):
            return [draw(nice) for _ in range(n)]

        # ---- ivc
        ivc = None
        if draw(st.integers(0, 3)) > 0:
            outs = []
            for i in range(draw(st.integers(1, 2))):
                n = draw(st.sampled_from([1, 2, 3, 3]))
                outs.append({'n': f"x{i}", 'size': n, 'val': vals(n), 'units': draw(st.sampled_from([None, 'm', 's', 'kg', 'cm']))})
            ivc = {'outs': outs, 'prom': draw(st.booleans())}
        # ---- components
        ncomp = draw(st.integers(2, 4))
        g_lo = draw(st.integers(0, ncomp))
        g_hi = draw(st.integers(g_lo, ncomp))
        comps = []
        avail = []       # (src dict, units, size)
        if ivc:
            for i, d in enumerate(ivc['outs']):
                avail.append(({'t': 'ivc', 'i': i}, d['units'], d['size']))
        n_auto_dv = [0]

        def draw_si(n, odds=2):
            """None, or distinct source indices: a partial and/or reordered view of a source of size n"""
            if n < 2 or draw(st.integers(0, odds)) == 0:
                return None
            perm = list(draw(st.permutations(list(range(n)))))
            return perm[:draw(st.integers(1, n))]

        def connected(name, src, su, n, **extra):
            cands = [b for a, b in UNIT_PAIRS if a == su]
            u = draw(st.sampled_from(cands)) if cands else su
            si = draw_si(n, 1)
            v = {'n': name, 'size': len(si) if si else n, 'units': u, 'val': None, 'src': src}
            v['val'] = vals(v['size'])
            v.update(extra)
            if si:
                v['si'] = si
            return v

        def draw_input(name, allow_dv=True):
            kind = draw(st.integers(0, 3)) if avail else 0
            if kind == 0 or not avail:
                n = draw(sizes)
                u = draw(st.sampled_from([None, None, 'm', 'cm', 's', 'kg']))
                dv = allow_dv and draw(st.booleans())
                if not ivc and n_auto_dv[0] == 0 and allow_dv:
                    dv = True
                if dv:
                    n_auto_dv[0] += 1
                return {'n': name, 'size': n, 'units': u, 'val': vals(n), 'src': {'t': 'auto'}, 'dv': dv}
            src, su, n = draw(st.sampled_from(avail))
            return connected(name, src, su, n, dv=False)

        for k in range(ncomp):
            nin = draw(st.integers(1, 2))
            ins = [draw_input(f"{'ab'[i]}{k}") for i in range(nin)]
            outs = []
            for j in range(draw(st.integers(1, 2))):
                outs.append({'n': f"{'yz'[j]}{k}", 'size': draw(sizes), 'units': draw(st.sampled_from([None, None, 'm', 's', 'kg'])),
                             'c': draw(st.integers(-4, 4)), 'w': [draw(st.sampled_from([-3, -2, -1, 1, 2, 3])) for _ in range(nin)],
                             'q': draw(st.sampled_from([0, 0, 1, -1, 2]))})
            comps.append({'name': f"c{k}", 'grp': 'G' if g_lo <= k < g_hi else '', 'prom': draw(st.booleans()), 'ins': ins, 'outs': outs})
            for o in outs:
                avail.append(({'t': 'out', 'c': k, 'o': o['n']}, o['units'], o['size']))
        gprom = draw(st.booleans())
        # ---- cycle
        cycle = None
        if draw(st.integers(0, 2)) > 0:
            u = draw_input('cu')
            y1u = draw(st.sampled_from([(None, None), ('m', 'm'), ('m', 'cm')]))
            cycle = {'solver': draw(st.sampled_from(['nlbgs', 'newton'])), 'prom': draw(st.booleans()), 'gprom': draw(st.booleans()),
                     'k1': draw(st.sampled_from([-4, -2, 1, 2, 4])), 'k2': draw(st.sampled_from([-4, -2, 1, 2, 4])),
                     'q': draw(st.sampled_from([0, 1, -1])), 's': draw(st.sampled_from([1, 2, -1])), 'u': u, 'u_units': u['units'],
                     'y1_units': list(y1u)}
            avail.append(({'t': 'cyc', 'o': 'cy2'}, None, 1))
            avail.append(({'t': 'cyc', 'o': 'cy1'}, y1u[0], 1))
        # ---- objective component: fed by the last component (and the cycle)
        oins = []
        last = comps[-1]['outs'][0]
        must = [({'t': 'out', 'c': ncomp - 1, 'o': last['n']}, last['units'], last['size'])]
        if cycle:
            must.append(({'t': 'cyc', 'o': 'cy2'}, None, 1))
        for i, (src, su, n) in enumerate(must):
            oins.append(connected(f"o{i}", src, su, n, t=draw(st.integers(-4, 4)), s=draw(st.sampled_from([1, 2, 4]))))
        obj = {'ins': oins}
        # ---- inputs connected to a promoted IndepVarComp output by promotion (rename) instead of connect()
        if ivc and ivc['prom']:
            for c in comps:
                taken = set()
                for v in c['ins']:
                    if v['src']['t'] == 'ivc' and (not c['grp'] or gprom) and draw(st.integers(0, 3)) > 0:
                        nm = ivc['outs'][v['src']['i']]['n']
                        if nm not in taken:
                            taken.add(nm)
                            v['alias'] = nm
                            v['implicit'] = True
        # ---- groups of unconnected inputs promoted to one name, source described by set_input_defaults
        shared = []
        for g in range(2):
            if draw(st.integers(0, 4 + g)) > 1 - g:
                continue
            slots = [(k, j) for k, c in enumerate(comps) for j, v in enumerate(c['ins']) if not v.get('alias')]
            if not gprom:
                lvl = draw(st.sampled_from(sorted({comps[k]['grp'] for k, _ in slots}))) if slots else ''
                slots = [(k, j) for k, j in slots if comps[k]['grp'] == lvl]
            if not slots:
                continue
            # unconnected inputs first; other inputs are cut off from their source to become members
            order = list(draw(st.permutations(slots)))
            order.sort(key=lambda kj: comps[kj[0]]['ins'][kj[1]]['src']['t'] != 'auto')
            nmem = draw(st.sampled_from([1, 2, 2, 2, 3]))
            mem, used = [], set()
            for k, j in order:
                if k not in used and len(mem) < nmem:
                    used.add(k)
                    mem.append((k, j))
            fam = draw(st.sampled_from(UNIT_FAMILIES + UNIT_FAMILIES + [[None]]))
            n = draw(st.sampled_from([1, 2, 3, 3, 4]))
            name = f"s{g}"
            munits = [draw(st.sampled_from(fam)) for _ in mem]
            others = [u for u in fam if u != munits[0]]
            # the units of the defaults: mostly different from the units of the first member
            du = draw(st.sampled_from(others)) if others and draw(st.integers(0, 3)) > 0 else draw(st.sampled_from(fam))
            dv = False
            for (k, j), u in zip(mem, munits):
                old = comps[k]['ins'][j]
                dv = dv or bool(old.get('dv'))
                si = draw_si(n)
                v = {'n': old['n'], 'size': len(si) if si else n, 'units': u, 'val': None, 'src': {'t': 'auto'}, 'dv': False, 'alias': name}
                v['val'] = vals(v['size'])
                if si:
                    v['si'] = si
                comps[k]['ins'][j] = v
            in_g = all(comps[k]['grp'] for k, _ in mem)
            shared.append({'name': name, 'at': 'G' if in_g and draw(st.booleans()) else 'root', 'units': du, 'val': vals(n), 'size': n,
                           'dv': dv or draw(st.booleans())})
        spec = {'ivc': ivc, 'comps': comps, 'gprom': gprom, 'cycle': cycle, 'obj': obj, 'cons': []}
        if shared:
            spec['shared'] = shared
        # ---- constraints: outputs of components that are not the objective
        cand = [comp_path(spec, k) + '.' + o['n'] for k, c in enumerate(comps) for o in c['outs']]
        if cycle:
            cand.append('cyc.d1.cy1')
        ncon = draw(st.integers(0, 2))
        chosen = []
        for _ in range(ncon):
            a = draw(st.sampled_from(cand))
            if a not in chosen:
                chosen.append(a)
        spec['cons'] = [{'abs': a, 'lower': draw(st.sampled_from([-100.0, -1.0, 0.0]))} for a in chosen]
        # ---- driver
        dvs = desvar_names(spec)
        dt = draw(st.sampled_from(list(drivers)))
        if dt == 'doe':
            pts = []
            for _ in range(draw(st.integers(2, 4))):
                pts.append([vals(size) for _, _, size in dvs])
            spec['driver'] = {'t': 'doe', 'points': pts}
        elif dt == 'slsqp':
            spec['driver'] = {'t': 'slsqp', 'maxiter': draw(st.integers(2, 3))}
        else:
            spec['driver'] = {'t': 'plain'}
        spec['recorders'] = []
        spec['ops'] = []
        return spec
    return spec_st()


# ------------------------------------------------------------------------------------------------------------
# names seen from a system, recorder placement / recording options / run sequence strategies
# ------------------------------------------------------------------------------------------------------------

def prom_in_system(spec, absn, P):
    """promoted name of variable `absn` inside the system with pathname P ('' = root)"""
    names = var_names(spec)
    if P == '':
        return names[absn]['prom']
    rel = absn[len(P) + 1:]
    if '.' not in rel:                    # P is the component itself
        return rel
    comp, v = rel.split('.', 1)
    if P == 'G':
        c = [c for c in spec['comps'] if c['name'] == comp][0]
        ali = [i.get('alias') for i in c['ins'] if i['n'] == v]
        if ali and ali[0]:
            return ali[0]
        return v if c['prom'] else rel
    if P == 'cyc':
        return v if spec['cycle']['prom'] else rel
    raise ValueError((absn, P))


def in_scope(absn, P):
    return P == '' or absn.startswith(P + '.')


DEFAULT_OPTS = {
    'driver': {'record_desvars': True, 'record_responses': False, 'record_objectives': True, 'record_constraints': True,
               'includes': [], 'excludes': [], 'record_inputs': True, 'record_outputs': True, 'record_residuals': False},
    'problem': {'record_desvars': True, 'record_responses': False, 'record_objectives': True, 'record_constraints': True,
                'includes': ['*'], 'excludes': [], 'record_inputs': False, 'record_outputs': True, 'record_residuals': False},
    'system': {'record_inputs': True, 'record_outputs': True, 'record_residuals': True, 'includes': ['*'], 'excludes': []},
    'solver': {'record_abs_error': True, 'record_rel_error': True, 'record_inputs': True, 'record_outputs': True,
               'record_solver_residuals': False, 'includes': ['*'], 'excludes': []},
}


def recording_strategy(spec, max_recorders=4, min_recorders=1, need=None):
    """draws spec['recorders'] and spec['ops'] for a model spec; returns the completed spec"""
    from hypothesis import strategies as st

    @st.composite
    def rec_st(draw):
        names = var_names(spec)
        targets = [('problem', ''), ('driver', '')]
        targets += [('system', P) for P in system_paths(spec)]
        targets += [('solver', P) for P in group_paths(spec)]
        # bias: the interesting requesters first
        n = draw(st.integers(min_recorders, max_recorders))
        chosen = []
        if need:
            chosen += [t for t in need if t in targets]
        tries = 0
        while len(chosen) < n and tries < 20:
            tries += 1
            kind = draw(st.sampled_from(['problem', 'driver', 'system', 'system', 'solver']))
            t = draw(st.sampled_from([t for t in targets if t[0] == kind]))
            if t not in chosen:
                chosen.append(t)

        def pattern(P, rel_only):
            pool = []
            for a, m in names.items():
                if in_scope(a, P):
                    if not rel_only:
                        pool.append(a)
                        pool.append(m['prom'])
                    if P:
                        pool.append(a[len(P) + 1:])
                    pool.append(prom_in_system(spec, a, P))
            nme = draw(st.sampled_from(sorted(set(pool))))
            how = draw(st.integers(0, 7))
            if how == 0:
                return nme
            if how == 1:
                return nme[:draw(st.integers(0, len(nme)))] + '*'
            if how == 2:
                return '*' + nme[draw(st.integers(0, len(nme))):]
            if how == 3:
                i = draw(st.integers(0, len(nme) - 1))
                return nme[:i] + '?' + nme[i + 1:]
            if how == 4:
                i = draw(st.integers(0, len(nme) - 1))
                j = draw(st.integers(i, len(nme)))
                return '*' + nme[i:j] + '*'
            if how == 5 and '.' in nme:
                return nme.split('.')[0] + '.*'
            if how == 6 and '.' in nme:
                return '*.' + nme.rsplit('.', 1)[1]
            return '*' + nme[-1]

        def draw_opts(kind, P):
            opts = {}
            dflt = DEFAULT_OPTS[kind]
            for k, dv in dflt.items():
                if k in ('includes', 'excludes'):
                    continue
                if draw(st.integers(0, 2)) == 0:
                    continue                       # leave the documented default
                opts[k] = draw(st.booleans()) if draw(st.integers(0, 2)) == 0 else True
            inc = draw(st.integers(0, 4))
            rel_only = kind == 'solver'
            if inc == 1:
                opts['includes'] = ['*']
            elif inc == 2:
                opts['includes'] = []
            elif inc >= 3:
                opts['includes'] = [pattern(P, rel_only) for _ in range(draw(st.integers(1, 3)))]
            if draw(st.integers(0, 2)) == 0:
                opts['excludes'] = [pattern(P, rel_only) for _ in range(draw(st.integers(1, 2)))]
            return opts

        recs = []
        for kind, P in chosen:
            r = {'on': kind, 'opts': draw_opts(kind, P)}
            if kind in ('system', 'solver'):
                r['path'] = P
            recs.append(r)
        # ---- run sequence
        ops = []
        nops = draw(st.integers(1, 4))
        nrun = 0
        clean = True        # no counter reset since the first run and no prefix used so far
        nrec = 0
        ndrv = 0
        dvs = desvar_names(spec)
        for i in range(nops):
            k = draw(st.integers(0, 9))
            if k <= 1 and any(r['on'] == 'problem' for r in recs):
                ops.append({'op': 'record', 'name': f"pc{nrec}"})
                nrec += 1
            elif k == 2 and dvs:
                ops.append({'op': 'set', 'dv': draw(st.integers(0, len(dvs) - 1)), 'val': [draw(st.sampled_from(NICE)) for _ in range(3)]})
            else:
                op = {'op': 'run_model' if k % 2 else 'run_driver'}
                if nrun == 0:
                    if draw(st.integers(0, 3)) == 0:
                        op['prefix'] = 'r0'
                        clean = False
                else:
                    # DOEDriver / ScipyOptimizeDriver restart their own iteration counter in every run(), whatever
                    # reset_iter_counts says: a second run_driver needs a case_prefix to keep the case names unique
                    again = op['op'] == 'run_driver' and spec['driver']['t'] != 'plain' and ndrv > 0
                    if clean and not again and draw(st.booleans()):
                        op['reset'] = False
                    else:
                        op['prefix'] = f"r{nrun}"
                        op['reset'] = draw(st.booleans())
                        clean = False
                nrun += 1
                ndrv += op['op'] == 'run_driver'
                ops.append(op)
        if nrun == 0:
            ops.append({'op': 'run_driver' if draw(st.booleans()) else 'run_model'})
        # the recording options of the problem and of the driver are read again by every run (final_setup): before a
        # later run they may be changed, and the cases of that run follow the new options
        top = [j for j, r in enumerate(recs) if r['on'] in ('problem', 'driver')]
        if top:
            seen_run = False
            with_changes = []
            for op in ops:
                if op['op'] in ('run_model', 'run_driver'):
                    if seen_run and draw(st.integers(0, 2)) == 0:
                        j = draw(st.sampled_from(top))
                        with_changes.append({'op': 'recopts', 'rec': j, 'opts': draw_opts(recs[j]['on'], '')})
                    seen_run = True
                with_changes.append(op)
            ops = with_changes
        if any(r['on'] == 'problem' for r in recs) and nrec == 0:
            ops.append({'op': 'record', 'name': 'final'})
        out = dict(spec)
        out['recorders'] = recs
        out['ops'] = ops
        return out
    return rec_st()


def full_strategy(**kw):
    from hypothesis import strategies as st
    rkw = {k: kw.pop(k) for k in ('max_recorders', 'min_recorders', 'need') if k in kw}
    return spec_strategy(**kw).flatmap(lambda s: recording_strategy(s, **rkw))
