"""Shared machinery of the /verif property-based-testing framework.

A property module (vfw/props/cXX.py) provides

    ID, LEVEL, RULE, ASSUMPTIONS, TECHNIQUE
    units(tier, seed)        -> list of JSON-able work units (one worker process each)
    run_unit(unit, ctx)      -> explores the unit, reporting through ctx
    check(case)              -> Result    (pure function of a JSON-able case; also the replay entry)
    MIN_CLASS_FRACTION       -> optional {class: minimum fraction of evaluations}

`check(case)` must not use Hypothesis, a private RNG, the clock or iteration order of sets.
"""
import base64
import hashlib
import json
import math
import os
import sys
import time
import traceback

VERIF_DIR = os.path.dirname(os.path.dirname(os.path.abspath(__file__)))
KNOWN_FINDINGS_FILE = os.path.join(VERIF_DIR, 'known_findings.json')


# ----------------------------------------------------------------------------------------
# JSON helpers
# ----------------------------------------------------------------------------------------

def _default(o):
    import numpy as np
    if isinstance(o, np.ndarray):
        return o.tolist()
    if isinstance(o, (np.integer,)):
        return int(o)
    if isinstance(o, (np.floating,)):
        return float(o)
    if isinstance(o, (np.bool_,)):
        return bool(o)
    if isinstance(o, complex):
        return {'__complex__': [o.real, o.imag]}
    if isinstance(o, (set, frozenset)):
        return sorted(o, key=repr)
    if isinstance(o, bytes):
        return {'__bytes__': base64.b64encode(o).decode()}
    if isinstance(o, tuple):
        return list(o)
    return repr(o)


def dumps(obj, **kw):
    return json.dumps(obj, default=_default, sort_keys=True, **kw)


def case_hash(case):
    return hashlib.sha256(dumps(case).encode()).hexdigest()[:16]


def shard_seed(seed, prop_id, i):
    h = hashlib.sha256(f"{seed}:{prop_id}:{i}".encode()).hexdigest()
    return int(h[:8], 16)


# ----------------------------------------------------------------------------------------
# Result of evaluating the oracle on one case
# ----------------------------------------------------------------------------------------

class Result(object):
    """Outcome of the oracle on one case.

    violations : list of (signature, detail) ; empty when the property held
    nontrivial : bool, by the property's stated rule
    classes    : iterable of str labels for the distribution report
    discard    : None or a reason string (precondition of the property not met: not judged)
    """

    __slots__ = ('violations', 'nontrivial', 'classes', 'discard')

    def __init__(self, nontrivial=False, classes=(), violations=None, discard=None):
        self.violations = list(violations) if violations else []
        self.nontrivial = bool(nontrivial)
        self.classes = list(classes)
        self.discard = discard

    def fail(self, signature, detail=''):
        self.violations.append((str(signature), _short(detail)))
        return self

    def to_json(self):
        return {'violations': self.violations, 'nontrivial': self.nontrivial,
                'classes': self.classes, 'discard': self.discard}


def _short(detail, n=1500):
    if not isinstance(detail, str):
        try:
            detail = dumps(detail)
        except Exception:
            detail = repr(detail)
    return detail if len(detail) <= n else detail[:n] + '...'


class DiscardCase(Exception):
    """Raised inside a check to discard the case (counted, not judged)."""


def repo_frame_signature(exc, prefix='exc'):
    """Signature for an unexpected exception: (type, innermost frame inside the openmdao package)."""
    if isinstance(exc, ValueError) and 'must not contain infs or NaNs' in str(exc):
        # a diverging nonlinear iteration handed non-finite values to scipy's LU solve: the model did not converge
        # (the premise of every model-based property); counted as a discard, whatever check sees it
        raise DiscardCase('nonfinite: a diverging solve handed non-finite values to the linear solver')
    tb = traceback.extract_tb(exc.__traceback__)
    where = None
    for fr in tb:
        fn = fr.filename.replace('\\', '/')
        if '/openmdao/' in fn and '/verif/' not in fn:
            where = (os.path.basename(fn), fr.name)
    if where is None:
        return None
    return f"{prefix}:{type(exc).__name__}@{where[0]}:{where[1]}"


def exc_in_third_party(exc, names=('pydoe', 'pyDOE')):
    tb = traceback.extract_tb(exc.__traceback__)
    if not tb:
        return False
    fn = tb[-1].filename
    return any(n in fn for n in names)


# ----------------------------------------------------------------------------------------
# Per-worker context: counters, samples, violations
# ----------------------------------------------------------------------------------------

class Ctx(object):
    def __init__(self, prop_id, known_sigs=(), max_keep_per_sig=40):
        self.prop_id = prop_id
        self.known_sigs = set(known_sigs)
        self.evaluations = 0
        self.nontrivial_hashes = set()
        self.classes = {}
        self.discarded = {}
        self.excluded_known = {}
        self.samples = []
        self.class_samples = {}
        self.violations = {}   # sig -> list of (size, case, detail)
        self.harness_errors = []
        self.extra = {}
        self.max_keep = max_keep_per_sig

    # -- reporting -----------------------------------------------------------------------
    def record(self, case, res):
        """Record one evaluated case and its Result."""
        self.evaluations += 1
        if res.discard:
            self.discarded[res.discard] = self.discarded.get(res.discard, 0) + 1
        for c in res.classes:
            self.classes[c] = self.classes.get(c, 0) + 1
            if c not in self.class_samples and len(self.class_samples) < 12:
                self.class_samples[c] = case
        if res.nontrivial and not res.discard:
            h = case_hash(case)
            if h not in self.nontrivial_hashes:
                self.nontrivial_hashes.add(h)
                if len(self.samples) < 4:
                    self.samples.append(case)
        for sig, detail in res.violations:
            if sig in self.known_sigs:
                self.excluded_known[sig] = self.excluded_known.get(sig, 0) + 1
                continue
            lst = self.violations.setdefault(sig, [])
            size = len(dumps(case))
            if len(lst) < self.max_keep:
                lst.append((size, case, detail))
            else:
                # keep the smallest ones
                big = max(range(len(lst)), key=lambda i: lst[i][0])
                if size < lst[big][0]:
                    lst[big] = (size, case, detail)

    def unknown_violation(self, res):
        return [s for s, _ in res.violations if s not in self.known_sigs]

    def harness_error(self, msg):
        if len(self.harness_errors) < 20:
            self.harness_errors.append(_short(msg, 4000))

    def dump(self):
        viol = {}
        for sig, lst in self.violations.items():
            lst = sorted(lst, key=lambda t: t[0])[:3]
            viol[sig] = {'count': len(self.violations[sig]),
                         'cases': [{'case': c, 'detail': d} for _, c, d in lst]}
        return {
            'evaluations': self.evaluations,
            'nontrivial_hashes': sorted(self.nontrivial_hashes),
            'classes': self.classes,
            'discarded': self.discarded,
            'excluded_known': self.excluded_known,
            'samples': self.samples,
            'class_samples': self.class_samples,
            'violations': viol,
            'harness_errors': self.harness_errors,
            'extra': self.extra,
        }


# ----------------------------------------------------------------------------------------
# Drivers used by property modules inside run_unit
# ----------------------------------------------------------------------------------------

def safe_check(check, case, ctx):
    """Run check(case); harness-side exceptions become harness errors, not violations."""
    try:
        res = check(case)
    except DiscardCase as d:
        res = Result()
        res.discard = str(d).split(':')[0]
        res.classes = ['discarded']
        ctx.record(case, res)
        return res
    except Exception as e:  # the oracle itself crashed: this is a harness defect
        ctx.harness_error(f"{type(e).__name__}: {e}\ncase={_short(case, 800)}\n"
                          + traceback.format_exc()[-2500:])
        return None
    ctx.record(case, res)
    return res


def run_hypothesis(ctx, strategy, check, max_examples, seed, shrink=False, stateful_step_count=None):
    """Collect-then-shrink Hypothesis driver.

    Pass 1 (generate only): every generated case is evaluated and recorded; nothing asserts,
    so the search continues behind the first failure.  Pass 2 (only when `shrink` and unknown
    signatures were seen): one Hypothesis run per unknown signature with the shrink phase on,
    whose minimal failing case replaces the collected ones.
    """
    import hypothesis
    from hypothesis import given, settings, HealthCheck, Phase

    common = dict(database=None, deadline=None, derandomize=False, report_multiple_bugs=False,
                  print_blob=False, suppress_health_check=list(HealthCheck))

    @hypothesis.seed(seed)
    @settings(max_examples=max_examples, phases=[Phase.generate], **common)
    @given(strategy)
    def collect(case):
        safe_check(check, case, ctx)

    try:
        collect()
    except Exception as e:
        ctx.harness_error(f"hypothesis collect pass: {type(e).__name__}: {e}\n" + traceback.format_exc()[-3000:])
        return

    if not shrink:
        return
    for sig in sorted(ctx.violations)[:3]:
        last = {}

        @hypothesis.seed(seed)
        @settings(max_examples=max(max_examples, 200), phases=[Phase.generate, Phase.shrink], **common)
        @given(strategy)
        def hunt(case):
            res = check(case)
            if any(s == sig for s, _ in res.violations):
                last['case'] = case
                last['detail'] = [d for s, d in res.violations if s == sig][0]
                raise AssertionError(sig)

        try:
            hunt()
        except AssertionError:
            if 'case' in last:
                size = len(dumps(last['case']))
                ctx.violations[sig].insert(0, (size - 10**9, last['case'], last['detail']))
        except Exception as e:
            ctx.harness_error(f"hypothesis shrink pass: {type(e).__name__}: {e}")


def run_cases(ctx, cases, check):
    for case in cases:
        safe_check(check, case, ctx)


# ----------------------------------------------------------------------------------------
# Numeric helpers for oracles
# ----------------------------------------------------------------------------------------

def close(a, b, rtol=1e-12, atol=0.0):
    import numpy as np
    a = np.asarray(a, dtype=float)
    b = np.asarray(b, dtype=float)
    if a.shape != b.shape:
        try:
            a, b = np.broadcast_arrays(a, b)
        except ValueError:
            return False
    with np.errstate(all='ignore'):
        same = (a == b) | (np.isnan(a) & np.isnan(b))
        ok = same | (np.abs(a - b) <= atol + rtol * np.maximum(np.abs(a), np.abs(b)))
    return bool(np.all(ok))


def maxerr(a, b):
    import numpy as np
    a = np.asarray(a, dtype=float)
    b = np.asarray(b, dtype=float)
    if a.shape != b.shape:
        return math.inf
    if a.size == 0:
        return 0.0
    with np.errstate(all='ignore'):
        d = np.abs(a - b)
        d = np.where((a == b) | (np.isnan(a) & np.isnan(b)), 0.0, d)
    return float(np.max(d))
