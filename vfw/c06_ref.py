"""Independent evaluator of OpenMDAO's unit_library.ini and of unit expressions (reference model for C06).

Written from the documentation inside unit_library.ini and the docstrings of openmdao.utils.units:

  [prefixes]    prefix-string: float-multiplier [, comment]
  [base_units]  quantity-name: unit-name                      (one independent dimension each, in file order)
  [units]       unit-name: unit-expression, comment           (expression over earlier/later names and `pi`)
                unit-name: factor, base-unit, offset, comment (value_in_base = (x + offset) * factor * base.factor)
  "Unit names are matched before prefix names are checked."
  Unit expressions are Python arithmetic over unit names and number literals: * / ** unary-minus ( ).
  "Units can be multiplied, divided, and raised to integer powers"; inverse-integer (root) exponents are allowed when
  every dimension power stays an integer; units with a non-zero offset cannot enter products/quotients/powers.

No OpenMDAO code is imported here.  Factors are `decimal.Decimal` at 60 significant digits (literals exact), dimension
powers are `fractions.Fraction`.
"""
import re
from decimal import Decimal, localcontext
from fractions import Fraction

PREC = 60
PI = Decimal('3.14159265358979323846264338327950288419716939937510582097494459230781640628620899862803')
BIG = Decimal('1e150')
SMALL = Decimal('1e-150')


class Unjudged(Exception):
    """The documentation makes no demand about this expression (rejection is accepted behaviour)."""


class Invalid(Exception):
    """Not a unit expression of the documented language (unknown name, number only, ...)."""


# ---------------------------------------------------------------------------------------------
# tokenizer / parser   (Python precedence:  factor: '-' factor | power ;  power: atom ['**' factor])
# ---------------------------------------------------------------------------------------------

_TOK = re.compile(r"\s*(?:(?P<num>(?:\d+\.?\d*|\.\d+)(?:[eE][+-]?\d+)?)|(?P<name>[A-Za-z_][A-Za-z0-9_]*)|"
                  r"(?P<op>\*\*|[*/()+-]))")


def tokenize(s):
    pos = 0
    out = []
    s = s.rstrip()
    while pos < len(s):
        m = _TOK.match(s, pos)
        if not m:
            raise Invalid(f"cannot tokenize {s!r} at {pos}")
        pos = m.end()
        if m.group('num') is not None:
            out.append(('num', m.group('num')))
        elif m.group('name') is not None:
            out.append(('name', m.group('name')))
        else:
            out.append(('op', m.group('op')))
    return out


class _Parser(object):
    def __init__(self, toks):
        self.t = toks
        self.i = 0

    def peek(self):
        return self.t[self.i] if self.i < len(self.t) else (None, None)

    def eat(self):
        tok = self.peek()
        self.i += 1
        return tok

    def expr(self):
        left = self.factor()
        while self.peek() in (('op', '*'), ('op', '/')):
            op = self.eat()[1]
            right = self.factor()
            left = ('mul' if op == '*' else 'div', left, right)
        return left

    def factor(self):
        if self.peek() == ('op', '-'):
            self.eat()
            return ('neg', self.factor())
        if self.peek() == ('op', '+'):
            self.eat()
            return self.factor()
        return self.power()

    def power(self):
        base = self.atom()
        if self.peek() == ('op', '**'):
            self.eat()
            return ('pow', base, self.factor())
        return base

    def atom(self):
        kind, val = self.eat()
        if kind == 'num':
            return ('num', val)
        if kind == 'name':
            return ('name', val)
        if (kind, val) == ('op', '('):
            e = self.expr()
            if self.eat() != ('op', ')'):
                raise Invalid('missing )')
            return ('par', e)
        raise Invalid(f"unexpected token {val!r}")


def parse(s):
    p = _Parser(tokenize(s))
    e = p.expr()
    if p.i != len(p.t):
        raise Invalid(f"trailing tokens in {s!r}")
    return e


# ---------------------------------------------------------------------------------------------
# values
# ---------------------------------------------------------------------------------------------

class Num(object):
    __slots__ = ('v', 'is_int')

    def __init__(self, v, is_int):
        self.v = v              # Fraction
        self.is_int = is_int    # Python would hold an int here


class Unit(object):
    __slots__ = ('factor', 'powers', 'offset')

    def __init__(self, factor, powers, offset=Decimal(0)):
        self.factor = factor    # Decimal
        self.powers = powers    # tuple of Fraction
        self.offset = offset    # Decimal

    def key(self):
        return self.powers


def _dec(fr):
    return Decimal(fr.numerator) / Decimal(fr.denominator)


def _guard(f):
    if f <= 0:
        raise Unjudged('non-positive-factor')
    if f > BIG or f < SMALL:
        raise Unjudged('extreme-magnitude')
    return f


class Library(object):
    """The shipped library, evaluated independently."""

    def __init__(self, text):
        self.prefixes = {}
        self.base_names = []
        self.defs = {}
        self.order = []
        self._parse_ini(text)
        self.ndim = len(self.base_names)
        self._memo = {}
        self._busy = set()
        for i, n in enumerate(self.base_names):
            p = [Fraction(0)] * self.ndim
            p[i] = Fraction(1)
            self._memo[n] = Unit(Decimal(1), tuple(p))
        for n in self.order:
            self.lib_unit(n)
        self.names = list(self.base_names) + [n for n in self.order if n not in self.base_names]
        self.nameset = set(self.names)

    # -- ini ------------------------------------------------------------------------------
    def _parse_ini(self, text):
        section = None
        for raw in text.splitlines():
            line = raw.strip()
            if not line or line[0] in '#;':
                continue
            if line.startswith('[') and line.endswith(']'):
                section = line[1:-1].strip()
                continue
            if raw[0] in ' \t':
                raise ValueError(f"continuation lines are not expected in unit_library.ini: {raw!r}")
            m = re.match(r'([^:=]+)[:=](.*)$', line)
            if not m:
                raise ValueError(f"cannot read ini line {raw!r}")
            name, val = m.group(1).strip(), m.group(2).strip()
            if section == 'prefixes':
                self.prefixes[name] = Decimal(val.split(',')[0].strip())
            elif section == 'base_units':
                self.base_names.append(val)
            elif section == 'units':
                parts = [p.strip() for p in val.split(',')]
                if len(parts) == 2:
                    self.defs[name] = ('expr', parts[0])
                elif len(parts) == 4:
                    self.defs[name] = ('offset', Decimal(parts[0]), parts[1], Decimal(parts[2]))
                else:
                    raise ValueError(f"unit {name!r}: definition has {len(parts)} comma separated fields")
                self.order.append(name)

    def lib_unit(self, name):
        if name in self._memo:
            return self._memo[name]
        if name not in self.defs:
            raise Invalid(f"unknown library name {name!r}")
        if name in self._busy:
            raise ValueError(f"circular definition of {name!r}")
        self._busy.add(name)
        d = self.defs[name]
        with localcontext() as ctx:
            ctx.prec = PREC
            if d[0] == 'expr':
                v = self._eval(parse(d[1]), True, True)
                if not isinstance(v, Unit):
                    raise ValueError(f"library unit {name!r} evaluates to a number")
                u = v
            else:
                base = self._eval(parse(d[2]), True, True)
                u = Unit(base.factor * d[1], base.powers, d[3])
        self._busy.discard(name)
        self._memo[name] = u
        return u

    # -- names ----------------------------------------------------------------------------
    def resolutions(self, tok):
        """All readings of a name token: [('lib', name)] or [('pre', prefix, name), ...]."""
        if tok == 'as':
            tok = 'as_'         # documented special case: 'as' means attosecond
        if tok in self._memo or tok in self.defs:
            return [('lib', tok)]
        t = tok[:-1] if tok == 'as_' else tok
        out = []
        for k in (1, 2):
            p, u = t[:k], t[k:]
            if p in self.prefixes and (u in self._memo or u in self.defs):
                out.append(('pre', p, u))
        return out

    def resolve(self, tok, lib_only=False):
        r = self.resolutions(tok)
        if lib_only:
            r = [x for x in r if x[0] == 'lib']
        if not r:
            raise Invalid(f"unknown unit name {tok!r}")
        if len(r) > 1:
            raise Unjudged('ambiguous-prefix-split')
        r = r[0]
        if r[0] == 'lib':
            return self.lib_unit(r[1])
        base = self.lib_unit(r[2])
        if base.offset != 0:
            raise Unjudged('offset-in-composite')
        return Unit(_guard(base.factor * self.prefixes[r[1]]), base.powers)

    # -- evaluation ---------------------------------------------------------------------------
    def _eval(self, node, allow_pi, lib_only):
        k = node[0]
        if k == 'par':
            return self._eval(node[1], allow_pi, lib_only)
        if k == 'num':
            txt = node[1]
            is_int = not re.search(r'[.eE]', txt)
            return Num(Fraction(Decimal(txt)), is_int)
        if k == 'name':
            if allow_pi and node[1] == 'pi':
                return Num(None, False)     # marker, handled below through _numval
            return self.resolve(node[1], lib_only)
        if k == 'neg':
            v = self._eval(node[1], allow_pi, lib_only)
            if isinstance(v, Unit):
                raise Unjudged('negated-unit')
            if v.v is None:
                raise Unjudged('negated-pi')
            return Num(-v.v, v.is_int)
        a = self._eval(node[1], allow_pi, lib_only)
        b = self._eval(node[2], allow_pi, lib_only)
        if k in ('mul', 'div'):
            return self._muldiv(k, a, b)
        if k == 'pow':
            return self._pow(a, b)
        raise ValueError(node)

    @staticmethod
    def _numdec(n):
        return PI if n.v is None else _dec(n.v)

    def _muldiv(self, k, a, b):
        if isinstance(a, Num) and isinstance(b, Num):
            if a.v is None or b.v is None:
                # pi arithmetic: keep as a dimensionless "unit-like" number through Decimal
                x, y = self._numdec(a), self._numdec(b)
                if k == 'div' and y == 0:
                    raise Unjudged('zero-division')
                return _PiNum(x * y if k == 'mul' else x / y)
            if k == 'mul':
                return Num(a.v * b.v, a.is_int and b.is_int)
            if b.v == 0:
                raise Unjudged('zero-division')
            return Num(a.v / b.v, False)
        if isinstance(a, Unit) and isinstance(b, Unit):
            if a.offset != 0 or b.offset != 0:
                raise Unjudged('offset-in-composite')
            if k == 'mul':
                return Unit(_guard(a.factor * b.factor), tuple(x + y for x, y in zip(a.powers, b.powers)))
            return Unit(_guard(a.factor / b.factor), tuple(x - y for x, y in zip(a.powers, b.powers)))
        if isinstance(a, Unit):      # unit (*|/) number
            if a.offset != 0:
                raise Unjudged('offset-in-composite')
            y = self._numdec(b)
            if y <= 0:
                raise Unjudged('non-positive-number-factor')
            return Unit(_guard(a.factor * y if k == 'mul' else a.factor / y), a.powers)
        # number (*|/) unit
        if b.offset != 0:
            raise Unjudged('offset-in-composite')
        x = self._numdec(a)
        if x <= 0:
            raise Unjudged('non-positive-number-factor')
        if k == 'mul':
            return Unit(_guard(x * b.factor), b.powers)
        return Unit(_guard(x / b.factor), tuple(-p for p in b.powers))

    def _pow(self, a, b):
        if isinstance(b, Unit):
            raise Invalid('unit used as exponent')
        if b.v is None:
            raise Unjudged('pi-exponent')
        if isinstance(a, Num):
            if a.v is None:
                if not (b.is_int and b.v.denominator == 1):
                    raise Unjudged('pi-to-non-integer')
                return _PiNum(_numdec_any(a) ** int(b.v))
            if b.v.denominator == 1 and abs(b.v) <= 400:
                e = int(b.v)
                if a.v == 0 and e < 0:
                    raise Unjudged('zero-division')
                return Num(a.v ** e, a.is_int and b.is_int and e >= 0)
            raise Unjudged('number-to-fractional-power')
        if a.offset != 0:
            raise Unjudged('offset-in-composite')
        if b.is_int:
            e = int(b.v)
            if abs(e) > 64:
                raise Unjudged('extreme-magnitude')
            return Unit(_guard(a.factor ** e), tuple(p * e for p in a.powers))
        # Python float exponent: only inverse integers are units ("only integer and inverse integer exponents")
        if b.v == 0:
            raise Unjudged('float-exponent-not-inverse-integer')
        inv = 1 / b.v
        n = round(inv)
        if n == 0 or abs(inv - n) >= Fraction(1, 10 ** 10):
            raise Unjudged('float-exponent-not-inverse-integer')
        newp = tuple(p / n for p in a.powers)
        if any(p.denominator != 1 for p in newp):
            raise Unjudged('root-gives-fractional-dimension')
        f = a.factor ** (Decimal(1) / Decimal(n))
        return Unit(_guard(f), newp)

    def evaluate(self, s):
        """Unit expression written by a user (no `pi`, prefixes allowed).  Raises Invalid / Unjudged."""
        with localcontext() as ctx:
            ctx.prec = PREC
            v = self._eval(parse(s), False, False)
            if not isinstance(v, Unit):
                raise Invalid('expression is a pure number')
            return v

    # -- structure information (for classes / non-triviality / signature predicates) -----------
    def info(self, s):
        toks = tokenize(s)
        names = [v for k, v in toks if k == 'name']
        nums = [v for k, v in toks if k == 'num']
        tree = parse(s)

        def depth(n):
            if n[0] in ('num', 'name'):
                return 0
            if n[0] in ('par', 'neg'):
                return depth(n[1])
            if n[0] == 'pow':
                return 1 + depth(n[1])
            return 1 + max(depth(n[1]), depth(n[2]))

        def has_root(n):
            if n[0] in ('num', 'name'):
                return False
            if n[0] in ('par', 'neg'):
                return has_root(n[1])
            if n[0] == 'pow':
                e = n[2]
                while e[0] in ('par', 'neg'):
                    e = e[1]
                isroot = not (e[0] == 'num' and not re.search(r'[.eE]', e[1]))
                return isroot or has_root(n[1])
            return has_root(n[1]) or has_root(n[2])

        def unit_names(n):
            """names outside exponents"""
            if n[0] == 'name':
                return [n[1]]
            if n[0] == 'num':
                return []
            if n[0] in ('par', 'neg'):
                return unit_names(n[1])
            if n[0] == 'pow':
                return unit_names(n[1])
            return unit_names(n[1]) + unit_names(n[2])

        un = unit_names(tree)
        res = [self.resolutions(t) for t in un]
        prefixed = [t for t, r in zip(un, res) if r and r[0][0] == 'pre']
        offs = []
        for t, r in zip(un, res):
            if r and r[0][0] == 'lib' and self.lib_unit(r[0][1]).offset != 0:
                offs.append(t)
        return {'names': names, 'unit_names': un, 'numbers': nums, 'depth': depth(tree), 'has_root': has_root(tree),
                'prefixed': prefixed, 'offset_atoms': offs, 'tokens': toks}

    def base_expr(self, powers, shift=None):
        """Expression in base units with the given integer dimension powers (written by this module, not by
        OpenMDAO's name()).  `shift` = index of a dimension to raise by one (a deliberately different dimension)."""
        p = [int(x) for x in powers]
        if shift is not None:
            p[shift] += 1
        num = [f"{n}**{e}" if e != 1 else n for n, e in zip(self.base_names, p) if e > 0]
        den = [f"{n}**{-e}" if e != -1 else n for n, e in zip(self.base_names, p) if e < 0]
        if not num and not den:
            return 'm/m'
        s = '*'.join(num) if num else '1'
        for d in den:
            s += '/' + d
        return s

    def classes_by_dimension(self, names=None):
        out = {}
        for n in (names or self.names):
            out.setdefault(self.lib_unit(n).powers, []).append(n)
        return out


class _PiNum(Num):
    """A number that involves pi (kept as a Decimal)."""
    __slots__ = ('d',)

    def __init__(self, d):
        Num.__init__(self, None, False)
        self.d = d


def _numdec_any(n):
    if isinstance(n, _PiNum):
        return n.d
    return PI if n.v is None else _dec(n.v)


Library._numdec = staticmethod(_numdec_any)


def load(path):
    with open(path) as f:
        return Library(f.read())
