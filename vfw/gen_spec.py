"""Hypothesis strategy producing model specs constructively (every drawn spec is a legal OpenMDAO model)."""
import numpy as np
from hypothesis import strategies as st

from vfw.gen_model import UNIT_FAMILIES, UNIT2FAMILY

SHAPES = [[1], [1], [2], [3], [4], [2, 2], [2, 3], [3, 2], [2, 2, 2], [1, 3]]

# unit pairs with conversion factors of order one (used when the model has feedback loops, to keep loops contractive)
MILD = {
    'length': ['m', 'ft'], 'time': ['s', 'min'], 'temp': ['degK', 'degC', 'degF', 'degR'],
    'force': ['N', 'lbf'], 'pressure': ['Pa', 'kPa'], 'angle': ['rad'], 'speed': ['m/s', 'km/h', 'ft/s'],
}

DEFAULT_PROFILE = dict(
    max_comps=5, min_comps=2, p_imp=0.25, p_feedback=0.4, allow_cycles=True, units=True, wild_units=True,
    styles=['dense', 'dense', 'sparse', 'sparse', 'matfree'], groups=True, index_forms=True,
    p_neg_index=0.15, p_f4=0.0, out_scaling=False, assembled=True, cyc_nl=['newton', 'newton', 'nlbgs', 'nlbgs', 'nlbj'],
    cyc_ln=['direct', 'direct', 'krylov', 'lnbgs', 'lnbj'], approx=False, bounds=False, auto_ivc=0.0, promotions=0.0, chains=0.0,
)


def chance(draw, p):
    """Bernoulli(p) drawn through a uniform choice from a 40-entry table (st.floats over-samples its end points)."""
    k = int(round(p * 40))
    if k <= 0:
        return False
    if k >= 40:
        return True
    return draw(st.sampled_from(_TABLES[k]))


_TABLES = {k: tuple([True] * k + [False] * (40 - k)) for k in range(1, 40)}


def profile(**kw):
    p = dict(DEFAULT_PROFILE)
    p.update(kw)
    return p


# ------------------------------------------------------------------------------------------------

def _draw_index(draw, shape, prof):
    """Draw (idx_encoding, flat_flag) for a source of the given shape; in-bounds by construction."""
    n = int(np.prod(shape))
    rank = len(shape)
    pneg = prof['p_neg_index']

    def an_int(ext):
        if chance(draw, pneg):
            return draw(st.integers(-ext, -1))
        return draw(st.integers(0, ext - 1))

    def a_slice(ext):
        start = draw(st.one_of(st.none(), st.integers(-ext, ext - 1) if chance(draw, pneg) else st.integers(0, ext - 1)))
        stop = draw(st.one_of(st.none(), st.integers(-ext, ext) if chance(draw, pneg) else st.integers(0, ext)))
        step = draw(st.sampled_from([None, None, 1, 2, -1, -2]))
        return {'s': [start, stop, step]}

    forms = ['full', 'full', 'flatarr', 'flatarr', 'flatslice']
    if rank >= 2:
        forms += ['tuple', 'tuple', 'tuple', 'rowslice', 'ellipsis']
        if prof['p_f4'] and chance(draw, prof['p_f4']):
            forms = ['f4']
    form = draw(st.sampled_from(forms)) if prof['index_forms'] else 'full'
    if form == 'full':
        return None, None
    if form == 'flatarr':
        k = draw(st.integers(1, 4))
        vals = [an_int(n) for _ in range(k)]
        flat = True if rank >= 2 else draw(st.sampled_from([None, True]))
        return {'a': vals, 'list': draw(st.booleans())}, flat
    if form == 'flatslice':
        flat = True if rank >= 2 else draw(st.sampled_from([None, True]))
        return a_slice(n), flat
    if form == 'rowslice':
        return a_slice(shape[0]), draw(st.sampled_from([None, False]))
    if form == 'f4':
        k = draw(st.integers(1, 2))
        return {'a': [draw(st.integers(0, shape[0] - 1)) for _ in range(k)], 'list': True}, draw(st.sampled_from([None, False]))
    if form == 'ellipsis':
        k = draw(st.integers(0, rank - 1))
        pos = draw(st.integers(0, k))
        front = [an_atom(draw, shape[d], an_int, a_slice, False) for d in range(pos)]
        back = [an_atom(draw, shape[rank - (k - pos) + j], an_int, a_slice, False) for j in range(k - pos)]
        return {'t': front + ['...'] + back}, draw(st.sampled_from([None, False]))
    # tuple
    k = draw(st.integers(1, rank))
    use_arr = draw(st.booleans())
    parts = []
    alen = draw(st.integers(1, 3))
    for d in range(k):
        if use_arr and draw(st.booleans()):
            parts.append({'a': [an_int(shape[d]) for _ in range(alen)], 'list': draw(st.booleans())})
        else:
            parts.append(an_atom(draw, shape[d], an_int, a_slice, False))
    return {'t': parts}, draw(st.sampled_from([None, False]))


def an_atom(draw, ext, an_int, a_slice, allow_arr):
    if draw(st.booleans()):
        return {'i': an_int(ext)}
    return a_slice(ext)


def _result_shape(shape, idx, flat):
    from vfw.gen_model import dec_idx
    n = int(np.prod(shape))
    isflat = flat is True or (flat is None and len(shape) <= 1)
    ref = np.arange(n) if isflat else np.arange(n).reshape(shape)
    try:
        r = np.asarray(ref[dec_idx(idx)])
    except IndexError:
        return None
    return list(r.shape) if r.shape != () else [1]


def _ints(n, lo=-8, hi=8, pzero=0.5):
    elem = st.one_of(st.just(0), st.integers(lo, hi)) if pzero else st.integers(lo, hi)
    return st.lists(elem, min_size=n, max_size=n)


@st.composite
def model_spec(draw, prof=None):
    prof = prof or DEFAULT_PROFILE
    comps = []
    outs = []      # (absname, shape, units, comp_index)
    # ---- hierarchy paths -------------------------------------------------------------------------
    if prof['groups']:
        layout = draw(st.sampled_from([[[]], [[], ['g1']], [[], ['g1'], ['g2']], [[], ['g1'], ['g1', 's1']],
                                       [['g1'], ['g2']], [[], ['g1'], ['g1', 's1'], ['g2']]]))
    else:
        layout = [[]]

    def unit_for(family_ok=True):
        if not prof['units'] or draw(st.integers(0, 2)) == 0:
            return None
        fam = draw(st.sampled_from(sorted(UNIT_FAMILIES)))
        return draw(st.sampled_from(UNIT_FAMILIES[fam]))

    n_ivc = draw(st.integers(1, 2))
    for i in range(n_ivc):
        nout = draw(st.integers(1, 2))
        ovs = []
        for j in range(nout):
            shape = draw(st.sampled_from(SHAPES))
            n = int(np.prod(shape))
            vals = draw(st.lists(st.integers(-6, 6), min_size=n, max_size=n))
            ovs.append({'name': f"x{j}", 'shape': shape, 'units': unit_for(), 'val': [v / 2.0 for v in vals]})
        c = {'kind': 'ivc', 'name': f"iv{i}", 'path': draw(st.sampled_from(layout)), 'outputs': ovs, 'inputs': []}
        comps.append(c)
    ncomp = draw(st.integers(prof['min_comps'], prof['max_comps']))
    # outputs first (shapes/units), so that feedback connections can refer to later components
    for i in range(ncomp):
        kind = 'imp' if chance(draw, prof['p_imp']) else 'aff'
        nout = draw(st.integers(1, 2))
        ovs = []
        for j in range(nout):
            shape = draw(st.sampled_from(SHAPES))
            ovs.append({'name': f"y{j}", 'shape': shape, 'units': unit_for()})
        comps.append({'kind': kind, 'name': f"c{i}", 'path': draw(st.sampled_from(layout)), 'outputs': ovs, 'inputs': []})
    for ci, c in enumerate(comps):
        for v in c['outputs']:
            outs.append(('.'.join(c['path'] + [c['name'], v['name']]), v['shape'], v.get('units'), ci))

    # ---- connections -----------------------------------------------------------------------------
    conns = []
    any_feedback = False
    first = n_ivc
    want_cycles = prof['allow_cycles'] and chance(draw, prof['p_feedback'])
    for ci in range(first, len(comps)):
        c = comps[ci]
        nin = draw(st.integers(1, 3))
        for k in range(nin):
            earlier = [o for o in outs if o[3] < ci]
            later = [o for o in outs if o[3] > ci]
            if prof.get('auto_ivc') and chance(draw, prof['auto_ivc']):
                # unconnected input: OpenMDAO supplies an _auto_ivc source holding the input's default value
                shape = draw(st.sampled_from(SHAPES))
                n = int(np.prod(shape))
                c['inputs'].append({'name': f"i{k}", 'shape': shape, 'units': unit_for(),
                                    'val': draw(st.integers(-6, 6)) / 2.0})
                continue
            fb = want_cycles and later and chance(draw, 0.3)
            src = draw(st.sampled_from(later if fb else earlier))
            any_feedback = any_feedback or fb
            idx, flat = _draw_index(draw, src[1], prof)
            tshape = _result_shape(src[1], idx, flat) if idx is not None else list(src[1])
            if tshape is None or int(np.prod(tshape)) == 0:
                idx, flat, tshape = None, None, list(src[1])
            idx2 = flat2 = None
            if prof.get('chains') and idx is not None and chance(draw, prof['chains']):
                # second level of indexing, applied by Group.promotes(..., src_indices=) to what the connection delivers
                shape1 = list(tshape)
                idx2, flat2 = _draw_index(draw, tshape, prof)
                if idx2 is not None and 'a' in idx2 and flat2 is not True and len(tshape) >= 2:
                    idx2, flat2 = None, None      # (non-tuple array on an N-D non-flat source: C05 finding F4 territory)
                if idx2 is not None:
                    t2 = _result_shape(tshape, idx2, flat2)
                    if t2 is None or int(np.prod(t2)) == 0:
                        idx2 = flat2 = None
                    else:
                        tshape = t2
            tunits = None
            if src[2] and draw(st.integers(0, 3)) > 0:
                tunits = src[2] + '?'       # resolved below (mild or wild family member)
            iv = {'name': f"i{k}", 'shape': tshape, 'units': tunits}
            c['inputs'].append(iv)
            cn = {'src': src[0], 'tgt': '.'.join(c['path'] + [c['name'], iv['name']]), 'idx': idx, 'flat': flat}
            if idx2 is not None:
                cn['idx2'], cn['flat2'] = idx2, flat2
                alias = f"{c['name']}_{iv['name']}p"
                c.setdefault('promotes_idx', []).append([iv['name'], alias, idx2, flat2, shape1])
                up = '.'.join(c['path'])
                cn['tgt_p'] = (up + '.' if up else '') + alias
            conns.append(cn)

    # resolve target units
    for c in comps:
        for iv in c['inputs']:
            if iv['units'] and iv['units'].endswith('?'):
                su = iv['units'][:-1]
                fam = UNIT2FAMILY[su]
                if any_feedback or not prof['wild_units']:
                    cands = MILD[fam] if su in MILD[fam] else [su]
                else:
                    cands = UNIT_FAMILIES[fam]
                iv['units'] = draw(st.sampled_from(cands))
    if any_feedback:
        # sources in loops must be mild too: replace wild source units by a mild member of the family
        for c in comps:
            for v in c['outputs']:
                if v.get('units') and v['units'] not in MILD[UNIT2FAMILY[v['units']]]:
                    v['units'] = MILD[UNIT2FAMILY[v['units']]][0]
        for c in comps:
            for iv in c['inputs']:
                if iv.get('units') and iv['units'] not in MILD[UNIT2FAMILY[iv['units']]]:
                    iv['units'] = MILD[UNIT2FAMILY[iv['units']]][0]

    # ---- component data -----------------------------------------------------------------------------
    scaling_flavour = {}
    for c in comps[first:]:
        nin = sum(int(np.prod(v['shape'])) for v in c['inputs'])
        nout = sum(int(np.prod(v['shape'])) for v in c['outputs'])
        c['A'] = draw(_ints(nout * nin))
        nonlinear = draw(st.booleans())
        c['B'] = draw(_ints(nout * nin)) if nonlinear else [0] * (nout * nin)
        c['c'] = draw(_ints(nout, pzero=0.3)) if nonlinear else [0] * nout
        c['b'] = draw(_ints(nout, pzero=0.3))
        c['g'] = draw(st.sampled_from([0.1, 0.2, 0.3] if any_feedback else [0.5, 1.0, 1.0]))
        c['style'] = draw(st.sampled_from(prof['styles']))
        if c['kind'] == 'imp':
            c['M'] = draw(_ints(nout * nout, -4, 4))
            c['Msign'] = draw(st.lists(st.sampled_from([1, 1, -1]), min_size=nout, max_size=nout))
            c['d'] = draw(_ints(nout, 0, 4))
            c['self_solve'] = draw(st.sampled_from(['methods', 'solvers']))
            if c['style'] == 'matfree':
                c['style'] = 'dense'
        if c['style'] == 'sparse' and len(c['outputs']) >= 2 and c['inputs'] and chance(draw, 0.5):
            # an (output variable, input variable) pair without any dependence: with sparse partials it is not declared
            # at all, so that output reaches that input only through the other outputs (implicit components) or not at
            # all - the relevance graph has to get this right
            osz = [int(np.prod(v['shape'])) for v in c['outputs']]
            isz = [int(np.prod(v['shape'])) for v in c['inputs']]
            oi = draw(st.integers(0, len(osz) - 1))
            ii = draw(st.integers(0, len(isz) - 1))
            r0, c0 = sum(osz[:oi]), sum(isz[:ii])
            for key in ('A', 'B'):
                M2 = np.array(c[key], dtype=int).reshape(nout, nin)
                M2[r0:r0 + osz[oi], c0:c0 + isz[ii]] = 0
                c[key] = [int(v) for v in M2.ravel()]
        if prof['out_scaling']:
            # every top-level branch of the model has a scaling flavour: several code paths test the group-wide flags
            # _has_output_scaling / _has_resid_scaling, so a group in which ONLY residuals (or only ref, or only ref0)
            # are scaled is a configuration of its own that independent per-variable draws almost never produce
            top = c['path'][0] if c['path'] else ''
            if top not in scaling_flavour:
                scaling_flavour[top] = draw(st.sampled_from(['mixed', 'mixed', 'mixed', 'res_ref_only', 'ref0_only', 'ref_only']))
            flav = scaling_flavour[top]
            p_ref, p_ref0, p_res = {'mixed': (0.55, 0.3, 0.4), 'res_ref_only': (0.0, 0.0, 0.7),
                                    'ref0_only': (0.0, 0.6, 0.0), 'ref_only': (0.7, 0.0, 0.0)}[flav]
            for v in c['outputs']:
                n = int(np.prod(v['shape']))
                sc = st.sampled_from([-100.0, -3.0, -0.5, 0.01, 0.5, 2.0, 7.0, 250.0])
                # ref, ref0 and res_ref are drawn independently (res_ref alone is a configuration of its own: it
                # scales residuals while outputs stay unscaled)
                if p_ref and chance(draw, p_ref):
                    v['ref'] = draw(sc) if draw(st.booleans()) else draw(st.lists(sc, min_size=n, max_size=n))
                if p_ref0 and chance(draw, p_ref0):
                    r0 = draw(st.sampled_from([-5.0, -1.0, 0.25, 1.0, 3.0]))
                    refs = v['ref'] if isinstance(v.get('ref'), list) else [v.get('ref', 1.0)]
                    if all(abs(r - r0) > 1e-3 for r in refs):
                        v['ref0'] = r0
                if p_res and chance(draw, p_res):
                    v['res_ref'] = draw(st.sampled_from([0.01, 0.125, 0.5, 3.0, 40.0, 100.0]))

    # ---- solvers per group -------------------------------------------------------------------------
    gkeys = set()
    for c in comps:
        for d in range(len(c['path']) + 1):
            gkeys.add('.'.join(c['path'][:d]))
    groups = {}
    for key in sorted(gkeys):
        cyclic = _group_needs_iteration(key, comps, conns)
        gs = {}
        if cyclic:
            gs['nl'] = draw(st.sampled_from(prof['cyc_nl']))
            if gs['nl'] == 'newton':
                gs['nl_opts'] = {'solve_subsystems': draw(st.booleans())}
                gs['ln'] = draw(st.sampled_from([s for s in prof['cyc_ln'] if s in ('direct', 'krylov', 'lnbgs')] or ['direct']))
            else:
                if gs['nl'] == 'nlbgs':
                    gs['nl_opts'] = {'aitken': draw(st.booleans()), 'use_apply_nonlinear': draw(st.booleans())}
                gs['ln'] = draw(st.sampled_from(prof['cyc_ln']))
        else:
            gs['nl'] = 'runonce'
            # block solvers are valid on feed-forward groups too (they converge after one or two sweeps) and drive the
            # sub-groups' solvers with other scopes than LinearRunOnce does
            gs['ln'] = draw(st.sampled_from(['runonce', 'runonce', 'direct', 'krylov'] +
                                            [s for s in ('lnbgs', 'lnbj') if s in prof['cyc_ln']]))
        if gs['ln'] in ('direct', 'krylov') and prof['assembled'] and draw(st.booleans()):
            gs['ln_opts'] = {'assemble_jac': True}
            gs['jac_type'] = draw(st.sampled_from(['dense', 'csc'] if gs['ln'] == 'direct' else ['dense', 'csc', 'csr']))
        groups[key] = gs
    # precondition learnt from OpenMDAO: an assembled jacobian does not support matrix-free components below it
    for key, gs in groups.items():
        if (gs.get('ln_opts') or {}).get('assemble_jac'):
            pre = key.split('.') if key else []
            for c in comps[first:]:
                if c['path'][:len(pre)] == pre and c.get('style') == 'matfree':
                    c['style'] = 'dense'
    if prof.get('promotions'):
        connected = {cn['tgt'] for cn in conns}
        ren = {}
        for c in comps:
            base = '.'.join(c['path'] + [c['name']])
            up = '.'.join(c['path'])
            for io, key in (('outputs', 'promotes_outputs'), ('inputs', 'promotes_inputs')):
                for v in c[io]:
                    if any(pi[0] == v['name'] for pi in c.get('promotes_idx', [])) and io == 'inputs':
                        continue
                    if chance(draw, prof['promotions']):
                        new = f"{c['name']}_{v['name']}"
                        c.setdefault(key, []).append([v['name'], new])
                        ren[base + '.' + v['name']] = (up + '.' if up else '') + new
        for cn in conns:
            if cn['src'] in ren:
                cn['src_p'] = ren[cn['src']]
            if cn['tgt'] in ren:
                cn['tgt_p'] = ren[cn['tgt']]
    spec = {'comps': comps, 'conns': conns, 'groups': groups, 'feedback': bool(any_feedback)}
    return spec


def _group_needs_iteration(key, comps, conns):
    """True when some connection between two different children of the group goes against the child order."""
    depth = len(key.split('.')) if key else 0
    prefix = key.split('.') if key else []
    order = []
    for c in comps:
        if c['path'][:depth] == prefix:
            child = c['path'][depth] if len(c['path']) > depth else c['name']
            if child not in order:
                order.append(child)

    def child_of(absn):
        parts = absn.split('.')
        if parts[:depth] != prefix or len(parts) <= depth:
            return None
        return parts[depth]
    for cn in conns:
        a, b = child_of(cn['src']), child_of(cn['tgt'])
        if a is None or b is None or a == b:
            continue
        if order.index(a) > order.index(b):
            return True
    return False
