"""C26: reference models (NumPy formulas from the docstrings + closed-form partials) of the explicit stock components.

Each function maps the JSON case to a c26_lib.Fam.  Known-finding predicates live here as functions of the case.
"""
from collections import OrderedDict

import numpy as np

from vfw.c26_lib import Fam, Inp, dec, q, seq


def _inp(case, name, shape, cu, default=None):
    v = case['vals'].get(name)
    if v is None:
        return Inp(shape, cu=cu, default=1.0 if default is None else default)
    return Inp(shape, cu=cu, enc=v, su=v.get('su'))


# ------------------------------------------------------------------------------------------------------------
# AddSubtractComp:  result = sum_i scaling_factor_i * input_i     shape (vec_size,) if length == 1 else (vec_size, length)
# ------------------------------------------------------------------------------------------------------------

def known_addsub_dup(eq):
    """The same input named twice in one equation (accepted with a warning that it 'double counts')."""
    return len(set(eq['ins'])) != len(eq['ins'])


def fam_addsub(case):
    import openmdao.api as om
    eqs = case['eqs']

    def make():
        c = None
        for i, e in enumerate(eqs):
            kw = {}
            if e['vec'] != 1 or e.get('explicit_defaults'):
                kw['vec_size'] = e['vec']
            if e['len'] != 1 or e.get('explicit_defaults'):
                kw['length'] = e['len']
            if e['sf'] is not None:
                kw['scaling_factors'] = seq([q(n) for n in e['sf']], e.get('sfk', 'list'))
            if e['units']:
                kw['units'] = e['units']
            for k in ('ref', 'ref0'):
                if e.get(k) is not None:
                    kw[k] = q(e[k])
            ins = tuple(e['ins']) if e.get('ins_tuple') else list(e['ins'])
            if i == 0 and e.get('ctor'):
                c = om.AddSubtractComp(e['out'], ins, **kw)
            else:
                if c is None:
                    c = om.AddSubtractComp()
                c.add_equation(e['out'], ins, **kw)
        if case.get('complex'):
            c.options['complex'] = True
        return c

    inputs = OrderedDict()
    for e in eqs:
        shape = (e['vec'],) if e['len'] == 1 else (e['vec'], e['len'])
        for n in e['ins']:
            if n not in inputs:
                inputs[n] = _inp(case, n, shape, e['units'])
    outputs = OrderedDict()
    partials = {}
    dup_outs = set()
    for e in eqs:
        shape = (e['vec'],) if e['len'] == 1 else (e['vec'], e['len'])
        sf = [1.0] * len(e['ins']) if e['sf'] is None else [q(n) for n in e['sf']]
        tot = np.zeros(shape)
        mag = np.zeros(shape)
        coef = OrderedDict()
        for s, n in zip(sf, e['ins']):
            tot = tot + s * inputs[n].val
            mag = mag + abs(s) * inputs[n].mag
            coef[n] = coef.get(n, 0.0) + s
        outputs[e['out']] = (tot, mag)
        size = int(np.prod(shape))
        for n, cf in coef.items():
            sc = sum(abs(s) for s, m in zip(sf, e['ins']) if m == n)
            partials[e['out'], n] = (cf * np.eye(size), sc * np.eye(size))
        if known_addsub_dup(e):
            dup_outs.add(e['out'])

    def known(clause, of=None, wrt=None):
        if clause == 'totals' and of in dup_outs:
            e = [x for x in eqs if x['out'] == of][0]
            if e['ins'].count(wrt) > 1:
                return 'addsub-duplicate-input-in-equation'
        return None

    return Fam('addsub', make, inputs, outputs, partials, known)


# ------------------------------------------------------------------------------------------------------------
# MuxComp:  out = np.stack([in_0 .. in_{vec_size-1}], axis)
# ------------------------------------------------------------------------------------------------------------

def fam_mux(case):
    import openmdao.api as om
    k = case['vec']
    vs = case['vars']

    def make():
        c = om.MuxComp(vec_size=k) if (k != 2 or case.get('explicit_vec')) else om.MuxComp()
        for v in vs:
            kw = {}
            shk = v['shk']
            if shk == 'tuple':
                kw['shape'] = tuple(v['shape'])
            elif shk == 'list':
                kw['shape'] = list(v['shape'])
            elif shk == 'int':
                kw['shape'] = int(v['shape'][0])
            elif shk == 'val':
                kw['val'] = np.full(tuple(v['shape']), 2.0)
            elif shk == 'scalar':
                pass
            if v['axis'] != 0 or v.get('explicit_axis'):
                kw['axis'] = v['axis']
            if v['units']:
                kw['units'] = v['units']
            c.add_var(v['name'], **kw)
        return c

    inputs = OrderedDict()
    outputs = OrderedDict()
    partials = {}
    kn = None
    for v in vs:
        shape = tuple(v['shape'])
        ishape = shape if shape else (1,)
        names = [f"{v['name']}_{i}" for i in range(k)]
        for n in names:
            inputs[n] = _inp(case, n, ishape, v['units'])
        vals = [inputs[n].val.reshape(shape) for n in names]
        mags = [inputs[n].mag.reshape(shape) for n in names]
        exp = np.stack(vals, axis=v['axis'])
        outputs[v['name']] = (exp, np.stack(mags, axis=v['axis']))
        size = int(np.prod(shape)) if shape else 1
        ids = [(i * size + np.arange(size)).reshape(shape) for i in range(k)]
        where = np.stack(ids, axis=v['axis']).ravel()          # global input element id of every output element
        for i, n in enumerate(names):
            Jm = np.zeros((where.size, size))
            for r, g in enumerate(where):
                if g // size == i:
                    Jm[r, g % size] = 1.0
            partials[v['name'], n] = (Jm, Jm.copy())
        if v['shk'] == 'int':
            kn = kn or 'mux-shape-given-as-int'
        elif v['shk'] == 'val':
            kn = kn or 'mux-val-array-without-shape'

    def known(clause, of=None, wrt=None):
        return kn if clause == 'construct' else None

    return Fam('mux', make, inputs, outputs, partials, known)


# ------------------------------------------------------------------------------------------------------------
# DotProductComp:  c_n = sum_i a_ni b_ni            a, b (vec_size, length), c (vec_size,)
# ------------------------------------------------------------------------------------------------------------

def _prod_comp(cls, prods, optkeys, addkeys):
    """First product through the constructor options, the others through add_product."""
    first = prods[0]
    c = cls(**{ok: first[k] for ok, k in optkeys.items() if first.get(k) is not None})
    for pr in prods[1:]:
        c.add_product(**{ak: (tuple(pr[k]) if ak == 'A_shape' else pr[k]) for ak, k in addkeys.items()
                         if pr.get(k) is not None})
    return c


def fam_dot(case):
    import openmdao.api as om
    prods = case['prods']
    keys = {'c_name': 'c', 'a_name': 'a', 'b_name': 'b', 'c_units': 'cu', 'a_units': 'au', 'b_units': 'bu',
            'vec_size': 'vec', 'length': 'len'}

    def make():
        return _prod_comp(om.DotProductComp, prods, keys, keys)

    inputs = OrderedDict()
    for pr in prods:
        for nm, u in ((pr['a'], pr['au']), (pr['b'], pr['bu'])):
            if nm not in inputs:
                inputs[nm] = _inp(case, nm, (pr['vec'], pr['len']), u)
    outputs = OrderedDict()
    partials = {}
    same = set()
    for pr in prods:
        a, b = inputs[pr['a']], inputs[pr['b']]
        outputs[pr['c']] = (np.einsum('ni,ni->n', a.val, b.val), np.einsum('ni,ni->n', a.mag, b.mag))
        v, ln = pr['vec'], pr['len']

        def blk(x):
            Jm = np.zeros((v, v * ln))
            for n in range(v):
                Jm[n, n * ln:(n + 1) * ln] = x[n]
            return Jm
        if pr['a'] == pr['b']:
            partials[pr['c'], pr['a']] = (blk(2 * a.val), blk(2 * a.mag))
            same.add(pr['c'])
        else:
            partials[pr['c'], pr['a']] = (blk(b.val), blk(b.mag))
            partials[pr['c'], pr['b']] = (blk(a.val), blk(a.mag))

    def known(clause, of=None, wrt=None):
        return 'product-same-input-both-operands' if clause == 'totals' and of in same else None

    return Fam('dot', make, inputs, outputs, partials, known)


# ------------------------------------------------------------------------------------------------------------
# CrossProductComp:  c = np.cross(a, b)     shapes (vec_size, 3), or (3,) when vec_size == 1
# ------------------------------------------------------------------------------------------------------------

_EPS = np.zeros((3, 3, 3))
_EPS[0, 1, 2] = _EPS[1, 2, 0] = _EPS[2, 0, 1] = 1.0
_EPS[0, 2, 1] = _EPS[2, 1, 0] = _EPS[1, 0, 2] = -1.0


def fam_cross(case):
    import openmdao.api as om
    prods = case['prods']
    keys = {'c_name': 'c', 'a_name': 'a', 'b_name': 'b', 'c_units': 'cu', 'a_units': 'au', 'b_units': 'bu',
            'vec_size': 'vec'}

    def make():
        return _prod_comp(om.CrossProductComp, prods, keys, keys)

    inputs = OrderedDict()
    for pr in prods:
        shape = (pr['vec'], 3) if pr['vec'] > 1 else (3,)
        for nm, u in ((pr['a'], pr['au']), (pr['b'], pr['bu'])):
            if nm not in inputs:
                inputs[nm] = _inp(case, nm, shape, u)
    outputs = OrderedDict()
    partials = {}
    same = set()
    for pr in prods:
        v = pr['vec']
        shape = (v, 3) if v > 1 else (3,)
        a, b = inputs[pr['a']], inputs[pr['b']]
        av, bv = a.val.reshape(v, 3), b.val.reshape(v, 3)
        am, bm = a.mag.reshape(v, 3), b.mag.reshape(v, 3)
        c = np.einsum('ijk,nj,nk->ni', _EPS, av, bv)
        cm = np.einsum('ijk,nj,nk->ni', np.abs(_EPS), am, bm)
        # the docstring's own statement of the formula
        assert np.allclose(c, np.cross(av, bv), rtol=1e-12, atol=1e-12 * (np.max(cm) + 1e-300))
        outputs[pr['c']] = (c.reshape(shape), cm.reshape(shape))

        def blk(t):                     # t[n, i, j] -> block diagonal (3v, 3v)
            Jm = np.zeros((3 * v, 3 * v))
            for n in range(v):
                Jm[3 * n:3 * n + 3, 3 * n:3 * n + 3] = t[n]
            return Jm
        dda = np.einsum('ijk,nk->nij', _EPS, bv)
        ddb = np.einsum('ijk,nj->nik', _EPS, av)
        sda = np.einsum('ijk,nk->nij', np.abs(_EPS), bm)
        sdb = np.einsum('ijk,nj->nik', np.abs(_EPS), am)
        if pr['a'] == pr['b']:
            partials[pr['c'], pr['a']] = (blk(dda + ddb), blk(sda + sdb))
            same.add(pr['c'])
        else:
            partials[pr['c'], pr['a']] = (blk(dda), blk(sda))
            partials[pr['c'], pr['b']] = (blk(ddb), blk(sdb))

    def known(clause, of=None, wrt=None):
        return 'product-same-input-both-operands' if clause == 'totals' and of in same else None

    return Fam('cross', make, inputs, outputs, partials, known)


# ------------------------------------------------------------------------------------------------------------
# MatrixVectorProductComp:  b_ni = sum_j A_nij x_nj    A (vec, n, m), x (vec, m), b (vec, n) or (n,) when vec == 1
# ------------------------------------------------------------------------------------------------------------

def fam_matvec(case):
    import openmdao.api as om
    prods = case['prods']
    keys = {'b_name': 'b', 'A_name': 'A', 'x_name': 'x', 'b_units': 'bu', 'A_units': 'Au', 'x_units': 'xu',
            'vec_size': 'vec', 'A_shape': 'shape'}

    def make():
        first = dict(prods[0])
        first['shape'] = tuple(first['shape'])
        return _prod_comp(om.MatrixVectorProductComp, [first] + list(prods[1:]), keys, keys)

    inputs = OrderedDict()
    for pr in prods:
        n, m = pr['shape']
        v = pr['vec']
        if pr['A'] not in inputs:
            inputs[pr['A']] = _inp(case, pr['A'], (v, n, m), pr['Au'])
        if pr['x'] not in inputs:
            inputs[pr['x']] = _inp(case, pr['x'], (v, m), pr['xu'])
    outputs = OrderedDict()
    partials = {}
    for pr in prods:
        n, m = pr['shape']
        v = pr['vec']
        A, x = inputs[pr['A']], inputs[pr['x']]
        bshape = (v, n) if v > 1 else (n,)
        outputs[pr['b']] = (np.einsum('nij,nj->ni', A.val, x.val).reshape(bshape),
                            np.einsum('nij,nj->ni', A.mag, x.mag).reshape(bshape))
        JA = np.zeros((v * n, v * n * m))
        SA = np.zeros_like(JA)
        Jx = np.zeros((v * n, v * m))
        Sx = np.zeros_like(Jx)
        for k in range(v):
            for i in range(n):
                for j in range(m):
                    JA[k * n + i, (k * n + i) * m + j] = x.val[k, j]
                    SA[k * n + i, (k * n + i) * m + j] = x.mag[k, j]
                    Jx[k * n + i, k * m + j] = A.val[k, i, j]
                    Sx[k * n + i, k * m + j] = A.mag[k, i, j]
        partials[pr['b'], pr['A']] = (JA, SA)
        partials[pr['b'], pr['x']] = (Jx, Sx)
    return Fam('matvec', make, inputs, outputs, partials)


# ------------------------------------------------------------------------------------------------------------
# VectorMagnitudeComp:  a_mag_n = sqrt(sum_i a_ni^2)
# ------------------------------------------------------------------------------------------------------------

def fam_vmag(case):
    import openmdao.api as om
    mags = case['mags']

    def make():
        f = mags[0]
        kw = {'mag_name': f['mag'], 'in_name': f['in'], 'vec_size': f['vec'], 'length': f['len']}
        if f['units']:
            kw['units'] = f['units']
        c = om.VectorMagnitudeComp(**kw)
        for g in mags[1:]:
            c.add_magnitude(g['mag'], g['in'], units=g['units'], vec_size=g['vec'], length=g['len'])
        return c

    inputs = OrderedDict()
    for g in mags:
        if g['in'] not in inputs:
            inputs[g['in']] = _inp(case, g['in'], (g['vec'], g['len']), g['units'])
    outputs = OrderedDict()
    partials = {}
    degenerate = False
    for g in mags:
        a = inputs[g['in']]
        nrm = np.sqrt(np.sum(a.val ** 2, axis=1))
        if np.any(nrm == 0.0):
            degenerate = True
            nrm = np.where(nrm == 0.0, 1.0, nrm)
        outputs[g['mag']] = (nrm, np.sqrt(np.sum(a.mag ** 2, axis=1)))
        v, ln = g['vec'], g['len']
        Jm = np.zeros((v, v * ln))
        Sm = np.zeros_like(Jm)
        for n in range(v):
            Jm[n, n * ln:(n + 1) * ln] = a.val[n] / nrm[n]
            # relative to 1 (the gradient is a unit vector); offsets in the unit conversion cost relative accuracy
            Sm[n, n * ln:(n + 1) * ln] = np.sqrt(np.sum(a.mag[n] ** 2)) / nrm[n]
        partials[g['mag'], g['in']] = (Jm, Sm)
    fam = Fam('vmag', make, inputs, outputs, partials)
    fam.degenerate = degenerate
    return fam


# ------------------------------------------------------------------------------------------------------------
# EQConstraintComp:  out = (mult * lhs - rhs) / f_norm(rhs)
#   f_norm = |rhs| if normalize and |rhs| >= 2 ;  0.25 rhs^2 + 1 if normalize and |rhs| < 2 ;  1 otherwise
# ------------------------------------------------------------------------------------------------------------

def fnorm(rhs, normalize):
    """(f, df/drhs) of the documented normalisation function."""
    rhs = np.asarray(rhs, dtype=float)
    if not normalize:
        return np.ones_like(rhs), np.zeros_like(rhs)
    big = np.abs(rhs) >= 2.0
    f = np.where(big, np.abs(rhs), 0.25 * rhs ** 2 + 1.0)
    df = np.where(big, np.sign(rhs), 0.5 * rhs)
    return f, df


def eq_formula(lhs, rhs, mult, normalize, lmag=None, rmag=None, mmag=None):
    """value, partials (wrt lhs, rhs, mult) and magnitude scales, elementwise."""
    f, df = fnorm(rhs, normalize)
    num = mult * lhs - rhs
    lmag = np.abs(lhs) if lmag is None else lmag
    rmag = np.abs(rhs) if rmag is None else rmag
    mmag = np.abs(mult) if mmag is None else mmag
    nmag = mmag * lmag + rmag
    val = num / f
    d_lhs = mult / f
    d_mult = lhs / f
    d_rhs = -1.0 / f - num * df / f ** 2
    s_val = nmag / f
    s_lhs = mmag / f
    s_mult = lmag / f
    s_rhs = 1.0 / f + nmag * np.abs(df) / f ** 2
    return val, (d_lhs, d_rhs, d_mult), s_val, (s_lhs, s_rhs, s_mult)


def arr_or_scalar(spec, shape):
    """rhs_val / mult_val / val given as a quarter-int scalar or as a list of quarter-ints (array of the full shape)."""
    if isinstance(spec, list):
        return (np.array(spec, dtype=float) / 4.0).reshape(shape)
    return q(spec)


def fam_eq(case):
    import openmdao.api as om
    outs = case['outs']

    def names(o):
        nm = o['name']
        return (o.get('lhs_name') or f"lhs:{nm}", o.get('rhs_name') or f"rhs:{nm}", o.get('mult_name') or f"mult:{nm}")

    def shape_of(o):
        return tuple(o['shape']) if o['shape'] is not None else (1,)

    def make():
        c = None
        for i, o in enumerate(outs):
            shape = shape_of(o)
            kw = {}
            if o['eq_units']:
                kw['eq_units'] = o['eq_units']
            for k in ('lhs_name', 'rhs_name', 'mult_name'):
                if o.get(k):
                    kw[k] = o[k]
            if o['rhs_val'] is not None:
                kw['rhs_val'] = arr_or_scalar(o['rhs_val'], shape)
            if o['use_mult']:
                kw['use_mult'] = True
                if o['mult_val'] is not None:
                    kw['mult_val'] = arr_or_scalar(o['mult_val'], shape)
            if not o['normalize']:
                kw['normalize'] = False
            if o['add_constraint']:
                kw['add_constraint'] = True
                for k, v in o['cons'].items():
                    kw[k] = q(v)
            if o['shape'] is not None:
                if o.get('shk') == 'val':
                    kw['val'] = np.full(shape, 0.5)
                else:
                    kw['shape'] = shape
            if o.get('units'):
                kw['units'] = o['units']
            if i == 0 and o.get('ctor'):
                c = om.EQConstraintComp(o['name'], **kw)
            else:
                if c is None:
                    c = om.EQConstraintComp()
                c.add_eq_output(o['name'], **kw)
        return c

    inputs = OrderedDict()
    outputs = OrderedDict()
    partials = {}
    for o in outs:
        shape = shape_of(o)
        ln, rn, mn = names(o)
        rdef = arr_or_scalar(o['rhs_val'], shape) if o['rhs_val'] is not None else 0.0
        mdef = arr_or_scalar(o['mult_val'], shape) if o.get('mult_val') is not None else 1.0
        inputs[ln] = L = _inp(case, ln, shape, o['eq_units'], default=1.0)
        inputs[rn] = R = _inp(case, rn, shape, o['eq_units'], default=rdef)
        if o['use_mult']:
            inputs[mn] = M = _inp(case, mn, shape, None, default=mdef)
            mv, mm = M.val, M.mag
        else:
            mv, mm = np.ones(shape), np.ones(shape)
        val, (dl, dr, dm), sv, (sl, sr, sm) = eq_formula(L.val, R.val, mv, o['normalize'], L.mag, R.mag, mm)
        outputs[o['name']] = (val, sv)
        partials[o['name'], ln] = (np.diag(dl.ravel()), np.diag(sl.ravel()))
        partials[o['name'], rn] = (np.diag(dr.ravel()), np.diag(sr.ravel()))
        if o['use_mult']:
            partials[o['name'], mn] = (np.diag(dm.ravel()), np.diag(sm.ravel()))
    return Fam('eq', make, inputs, outputs, partials)


def eq_constraint_expect(o):
    """(adder, scaler) the driver must apply: scaled = (value + adder) * scaler."""
    c = o.get('cons') or {}
    if 'ref' in c or 'ref0' in c:
        ref = q(c['ref']) if 'ref' in c else 1.0
        ref0 = q(c['ref0']) if 'ref0' in c else 0.0
        return -ref0, 1.0 / (ref - ref0)
    adder = q(c['adder']) if 'adder' in c else 0.0
    scaler = q(c['scaler']) if 'scaler' in c else 1.0
    return adder, scaler
