"""Regenerate the machine-written tables of DESIGN.md (python -m vfw.gen_design_tables).

Sections between <!-- BEGIN:name --> and <!-- END:name --> markers are replaced:
  findings : every entry of known_findings.json (fixed defects and open findings)
  seeded   : every directory under /verif/seeded (independently written breaking changes and which check catches them)
  status   : one line per property (check module, technique, quick-tier numbers of the committed evidence file)
"""
import importlib
import json
import os
import re
import subprocess

from vfw import core

D = os.path.join(core.VERIF_DIR, 'DESIGN.md')


def findings_table():
    k = json.load(open(core.KNOWN_FINDINGS_FILE))['entries']
    rows = ["| property | status | repo commit | where | what (failing input -> observed) | witness |", "|---|---|---|---|---|---|"]
    for e in sorted(k, key=lambda e: (e['property'], e['status'], e['signature'])):
        what = e['what']
        what = re.sub(r'^fixed: property=\S+ \S+ ', '', what)
        rows.append(f"| {e['property']} | {e['status']} | {e.get('commit', '')} | `{e.get('where', '')}` | {what.replace('|', '/')} | `{e.get('witness', '')}` |")
    nfix = len({e.get('commit') for e in k if e['status'] == 'fixed'})
    nfind = len([e for e in k if e['status'] == 'finding'])
    head = (f"{len(k)} entries: {len([e for e in k if e['status'] == 'fixed'])} fixed by {nfix} `fix:` commits in /repo, "
            f"{nfind} open findings (reported as KNOWN-FINDING and excluded from the search by their input predicate).\n\n")
    return head + '\n'.join(rows)


def seeded_table():
    base = os.path.join(core.VERIF_DIR, 'seeded')
    rows = ["| id | property | files changed | needs to manifest | detected by |", "|---|---|---|---|---|"]
    if os.path.isdir(base):
        for d in sorted(os.listdir(base)):
            mp = os.path.join(base, d, 'meta.json')
            if not os.path.exists(mp):
                continue
            m = json.load(open(mp))
            fc = m.get('files_changed')
            fc = ', '.join(fc) if isinstance(fc, list) else str(fc)
            rows.append(f"| {d} | {m.get('property', d)} | `{fc}` | {str(m.get('needs_to_manifest', '')).replace('|', '/')[:400]} | "
                        f"{str(m.get('detected_by', '')).replace('|', '/')} |")
    return '\n'.join(rows)


def status_table():
    ready = set(open(os.path.join(core.VERIF_DIR, 'vfw', 'ready.txt')).read().split())
    rows = ["| property | level | technique | quick-tier evidence (evaluations / distinct non-trivial / discarded / wall s) |", "|---|---|---|---|"]
    for l in open(os.path.join(core.VERIF_DIR, 'properties.jsonl')):
        p = json.loads(l)
        pid = p['id']
        if pid not in ready:
            rows.append(f"| {pid} | - | not claimed (see MANIFEST not_applicable) | |")
            continue
        mod = importlib.import_module(f"vfw.props.{pid.lower()}")
        ev = ''
        ep = os.path.join(core.VERIF_DIR, 'evidence', pid + '.json')
        if os.path.exists(ep):
            e = json.load(open(ep))
            c = e['coverage']
            ev = f"{e['tier']}: {c['evaluations']} / {c['distinct_nontrivial']} / {sum(c.get('discarded', {}).values())} / {e['wall_s']}"
        rows.append(f"| {pid} | {mod.LEVEL} | {mod.TECHNIQUE} | {ev} |")
    return '\n'.join(rows)


def main():
    s = open(D).read()
    for name, fn in (('findings', findings_table), ('seeded', seeded_table), ('status', status_table)):
        b, e = f"<!-- BEGIN:{name} -->", f"<!-- END:{name} -->"
        if b in s and e in s:
            s = s[:s.index(b) + len(b)] + '\n' + fn() + '\n' + s[s.index(e):]
    open(D, 'w').write(s)
    print('DESIGN.md tables regenerated')


if __name__ == '__main__':
    main()
