"""Model specs: Hypothesis strategy (constructive) and spec -> OpenMDAO Problem builder.

A spec is a JSON-able dict (see `spec_strategy`).  Component math is known in closed form:

  Aff (explicit):  y = g*(A xh + c * tanh(Bm xh)) + b          xh = concatenated flattened inputs (input units)
  Imp (implicit):  R = M u + d * tanh(u) + g*(A xh + c * tanh(Bm xh)) + b        u = concatenated flattened outputs

The reference model (vfw/refmodel.py) evaluates the same formulas from the same spec but shares no code
with OpenMDAO.
"""
import numpy as np

# ------------------------------------------------------------------------------------------------
# index encoding (same as props/c05.py)
# ------------------------------------------------------------------------------------------------


def dec_idx(e):
    if e is None:
        return None
    if e == '...':
        return Ellipsis
    if 'i' in e:
        return int(e['i'])
    if 's' in e:
        return slice(*e['s'])
    if 'a' in e:
        if e.get('list'):
            return e['a']
        return np.array(e['a'], dtype=int)
    if 't' in e:
        return tuple(dec_idx(x) for x in e['t'])
    raise ValueError(e)


def idx_has_negative(e):
    if e is None or e == '...':
        return False
    if 'i' in e:
        return e['i'] < 0
    if 'a' in e:
        a = np.asarray(e['a'])
        return bool(a.size and a.min() < 0)
    if 't' in e:
        return any(idx_has_negative(x) for x in e['t'])
    return False


def idx_is_nontuple_int_or_array(e):
    return e is not None and e != '...' and ('i' in e or 'a' in e)


# ------------------------------------------------------------------------------------------------
# units (families offered by the generator; the numeric table lives in refmodel.py)
# ------------------------------------------------------------------------------------------------

UNIT_FAMILIES = {
    'length': ['m', 'cm', 'mm', 'km', 'ft', 'inch'],
    'time': ['s', 'min', 'h', 'ms'],
    'temp': ['degK', 'degC', 'degF', 'degR'],
    'force': ['N', 'lbf', 'kN'],
    'pressure': ['Pa', 'kPa', 'psi', 'bar'],
    'angle': ['rad', 'deg'],
    'speed': ['m/s', 'km/h', 'ft/s'],
}
UNIT2FAMILY = {u: f for f, us in UNIT_FAMILIES.items() for u in us}


# ------------------------------------------------------------------------------------------------
# components
# ------------------------------------------------------------------------------------------------

def _sizes(vars_):
    return [int(np.prod(v['shape'])) if v['shape'] else 1 for v in vars_]


def _offsets(vars_):
    o = [0]
    for s in _sizes(vars_):
        o.append(o[-1] + s)
    return o


def comp_arrays(cs):
    """Dense arrays of a component spec (shared by builder and reference: pure data decoding)."""
    nin = sum(_sizes(cs['inputs']))
    nout = sum(_sizes(cs['outputs']))
    q = cs.get('q', 4.0)
    A = np.array(cs['A'], dtype=float).reshape(nout, nin) / q if nin else np.zeros((nout, 0))
    Bm = np.array(cs['B'], dtype=float).reshape(nout, nin) / q if nin else np.zeros((nout, 0))
    b = np.array(cs['b'], dtype=float) / q
    c = np.array(cs['c'], dtype=float) / q
    g = float(cs.get('g', 1.0))
    out = {'A': A, 'B': Bm, 'b': b, 'c': c, 'g': g, 'nin': nin, 'nout': nout}
    if cs['kind'] == 'imp':
        Mo = np.array(cs['M'], dtype=float).reshape(nout, nout) / q
        # strictly diagonally dominant: diag = sign * (1 + sum |offdiag|)
        M = Mo.copy()
        np.fill_diagonal(M, 0.0)
        diag = (1.0 + np.abs(M).sum(axis=1)) * np.where(np.array(cs['Msign']) >= 0, 1.0, -1.0)
        M = M + np.diag(diag)
        d = np.abs(np.array(cs['d'], dtype=float)) / q * np.sign(diag) * 0.5
        out['M'] = M
        out['d'] = d
    return out


def make_component(cs, trace=None):
    import openmdao.api as om
    arr = comp_arrays(cs)
    A, Bm, b, c, g = arr['A'], arr['B'], arr['b'], arr['c'], arr['g']
    in_off = _offsets(cs['inputs'])
    out_off = _offsets(cs['outputs'])
    style = cs.get('style', 'dense')

    def xhat(inputs):
        if not cs['inputs']:
            return np.zeros(0)
        return np.concatenate([np.asarray(inputs[v['name']]).ravel() for v in cs['inputs']])

    def fval(xh):
        if xh.size == 0:
            return b.astype(xh.dtype if xh.dtype == complex else float)
        return g * (A @ xh + c * np.tanh(Bm @ xh)) + b

    def fjac(xh):
        if xh.size == 0:
            return np.zeros((arr['nout'], 0))
        t = np.tanh(Bm @ xh)
        return g * (A + (c * (1.0 - t * t))[:, None] * Bm)

    # structural sparsity of df/dx (never loses a true nonzero)
    pattern = (A != 0) | ((c != 0)[:, None] & (Bm != 0))

    def add_io(self):
        for v in cs['inputs']:
            kw = {}
            if v.get('units'):
                kw['units'] = v['units']
            self.add_input(v['name'], val=np.ones(v['shape']) * v.get('val', 1.0), **kw)
        for v in cs['outputs']:
            kw = {}
            for k in ('units', 'ref', 'ref0', 'res_ref', 'lower', 'upper'):
                if v.get(k) is not None:
                    kw[k] = v[k] if not isinstance(v[k], list) else np.array(v[k], dtype=float).reshape(v['shape'])
            self.add_output(v['name'], val=np.ones(v['shape']) * v.get('val', 1.0) if v['shape'] else v.get('val', 1.0), **kw)

    def declare(self, extra_out_block=None):
        """Declare partials of every output wrt every input in the drawn style."""
        if style in ('fd', 'cs'):
            opts = dict(cs.get('approx', {}))
            self.declare_partials('*', '*', method=style, **opts)
            return
        for oi, ov in enumerate(cs['outputs']):
            for ii, iv in enumerate(cs['inputs']):
                blk = pattern[out_off[oi]:out_off[oi + 1], in_off[ii]:in_off[ii + 1]]
                if style == 'sparse':
                    r, cc = np.nonzero(blk)
                    if r.size == 0:
                        continue   # no dependence: not declared at all
                    if cs.get('dup'):
                        # duplicate every (row, col) entry: the declared values must sum
                        r = np.concatenate([r, r])
                        cc = np.concatenate([cc, cc])
                    self.declare_partials(ov['name'], iv['name'], rows=r, cols=cc)
                else:
                    self.declare_partials(ov['name'], iv['name'])

    def fill(partials, J, prefix_sign=1.0):
        for oi, ov in enumerate(cs['outputs']):
            for ii, iv in enumerate(cs['inputs']):
                sub = J[out_off[oi]:out_off[oi + 1], in_off[ii]:in_off[ii + 1]]
                if style == 'sparse':
                    blk = pattern[out_off[oi]:out_off[oi + 1], in_off[ii]:in_off[ii + 1]]
                    r, cc = np.nonzero(blk)
                    if r.size == 0:
                        continue
                    vals = sub[r, cc]
                    if cs.get('dup'):
                        vals = np.concatenate([0.25 * vals, 0.75 * vals])
                    partials[ov['name'], iv['name']] = prefix_sign * vals
                else:
                    partials[ov['name'], iv['name']] = prefix_sign * sub

    if cs['kind'] == 'aff':
        class Aff(om.ExplicitComponent):
            def setup(self):
                add_io(self)
                if style != 'matfree':
                    declare(self)

            def compute(self, inputs, outputs):
                xh = xhat(inputs)
                if trace is not None:
                    trace(cs['name'], self, inputs)
                y = fval(xh)
                for oi, ov in enumerate(cs['outputs']):
                    outputs[ov['name']] = y[out_off[oi]:out_off[oi + 1]].reshape(ov['shape'])

        if style == 'matfree':
            def compute_jacvec_product(self, inputs, d_inputs, d_outputs, mode):
                J = fjac(xhat(inputs))
                for oi, ov in enumerate(cs['outputs']):
                    if ov['name'] not in d_outputs:
                        continue
                    for ii, iv in enumerate(cs['inputs']):
                        if iv['name'] not in d_inputs:
                            continue
                        sub = J[out_off[oi]:out_off[oi + 1], in_off[ii]:in_off[ii + 1]]
                        if mode == 'fwd':
                            d_outputs[ov['name']] += (sub @ np.asarray(d_inputs[iv['name']]).ravel()).reshape(ov['shape'])
                        else:
                            d_inputs[iv['name']] += (sub.T @ np.asarray(d_outputs[ov['name']]).ravel()).reshape(iv['shape'])
            Aff.compute_jacvec_product = compute_jacvec_product
        elif style not in ('fd', 'cs'):
            def compute_partials(self, inputs, partials):
                fill(partials, fjac(xhat(inputs)))
            Aff.compute_partials = compute_partials
        comp = Aff()
        return comp

    # ---- implicit ------------------------------------------------------------------------------
    M, d = arr['M'], arr['d']

    def uhat(outputs):
        return np.concatenate([np.asarray(outputs[v['name']]).ravel() for v in cs['outputs']])

    def resid(xh, u):
        return M @ u + d * np.tanh(u) + fval(xh)

    def dRdu(u):
        t = np.tanh(u)
        return M + np.diag(d * (1.0 - t * t))

    upat = (M != 0) | np.diag(d != 0)

    class Imp(om.ImplicitComponent):
        def setup(self):
            add_io(self)
            if style in ('fd', 'cs'):
                self.declare_partials('*', '*', method=style, **dict(cs.get('approx', {})))
                return
            declare(self)
            for oi, ov in enumerate(cs['outputs']):
                for oj, ow in enumerate(cs['outputs']):
                    blk = upat[out_off[oi]:out_off[oi + 1], out_off[oj]:out_off[oj + 1]]
                    if style == 'sparse':
                        r, cc = np.nonzero(blk)
                        if r.size:
                            self.declare_partials(ov['name'], ow['name'], rows=r, cols=cc)
                    else:
                        self.declare_partials(ov['name'], ow['name'])

        def apply_nonlinear(self, inputs, outputs, residuals):
            if trace is not None:
                trace(cs['name'], self, inputs)
            r = resid(xhat(inputs), uhat(outputs))
            for oi, ov in enumerate(cs['outputs']):
                residuals[ov['name']] = r[out_off[oi]:out_off[oi + 1]].reshape(ov['shape'])

        def linearize(self, inputs, outputs, partials):
            self._lin_u = uhat(outputs).copy()      # state for solve_linear (vectors are unscaled here)
            if style in ('fd', 'cs'):
                return
            fill(partials, fjac(xhat(inputs)))
            Ju = dRdu(uhat(outputs))
            for oi, ov in enumerate(cs['outputs']):
                for oj, ow in enumerate(cs['outputs']):
                    sub = Ju[out_off[oi]:out_off[oi + 1], out_off[oj]:out_off[oj + 1]]
                    if style == 'sparse':
                        blk = upat[out_off[oi]:out_off[oi + 1], out_off[oj]:out_off[oj + 1]]
                        r, cc = np.nonzero(blk)
                        if r.size:
                            partials[ov['name'], ow['name']] = sub[r, cc]
                    else:
                        partials[ov['name'], ow['name']] = sub

    if cs.get('self_solve') == 'methods':
        def solve_nonlinear(self, inputs, outputs):
            xh = xhat(inputs)
            u = uhat(outputs)
            for it in range(60):
                r = resid(xh, u)
                # at least two Newton steps: under complex step a converged real part says nothing about the
                # imaginary (derivative) part of the state
                if it >= 2 and np.max(np.abs(r)) < 1e-15:
                    break
                u = u - np.linalg.solve(dRdu(u), r)
            for oi, ov in enumerate(cs['outputs']):
                outputs[ov['name']] = u[out_off[oi]:out_off[oi + 1]].reshape(ov['shape'])

        def solve_linear(self, d_outputs, d_residuals, mode):
            Ju = dRdu(self._lin_u)
            if mode == 'fwd':
                rhs = np.concatenate([np.asarray(d_residuals[v['name']]).ravel() for v in cs['outputs']])
                sol = np.linalg.solve(Ju, rhs)
                for oi, ov in enumerate(cs['outputs']):
                    d_outputs[ov['name']] = sol[out_off[oi]:out_off[oi + 1]].reshape(ov['shape'])
            else:
                rhs = np.concatenate([np.asarray(d_outputs[v['name']]).ravel() for v in cs['outputs']])
                sol = np.linalg.solve(Ju.T, rhs)
                for oi, ov in enumerate(cs['outputs']):
                    d_residuals[ov['name']] = sol[out_off[oi]:out_off[oi + 1]].reshape(ov['shape'])
        Imp.solve_nonlinear = solve_nonlinear
        Imp.solve_linear = solve_linear
    comp = Imp()
    if cs.get('self_solve') == 'solvers':
        comp.nonlinear_solver = om.NewtonSolver(solve_subsystems=False, maxiter=50, atol=1e-13, rtol=1e-13,
                                                err_on_non_converge=True, iprint=-1)
        comp.linear_solver = om.DirectSolver()
    return comp


# ------------------------------------------------------------------------------------------------
# solvers
# ------------------------------------------------------------------------------------------------

def make_nl_solver(name, opts=None):
    import openmdao.api as om
    opts = dict(opts or {})
    # reraise_child_analysiserror: by default a nonlinear solver swallows the AnalysisError of a child solver and goes on
    # (NLBGS then even reports convergence when the outputs stop changing); the premise "every solver reports convergence"
    # needs the child's failure to surface
    common = dict(err_on_non_converge=True, iprint=-1, reraise_child_analysiserror=True)
    if name == 'runonce':
        return om.NonlinearRunOnce()
    if name == 'newton':
        s = om.NewtonSolver(solve_subsystems=bool(opts.get('solve_subsystems', False)), maxiter=60,
                            atol=1e-12, rtol=1e-12, **common)
        if opts.get('linesearch') == 'bounds':
            s.linesearch = om.BoundsEnforceLS()
        elif opts.get('linesearch') == 'armijo':
            s.linesearch = om.ArmijoGoldsteinLS(maxiter=3, iprint=-1)
        else:
            s.linesearch = None
        return s
    if name == 'nlbgs':
        s = om.NonlinearBlockGS(maxiter=400, atol=1e-12, rtol=1e-12, **common)
        if opts.get('aitken'):
            s.options['use_aitken'] = True
        if opts.get('use_apply_nonlinear'):
            s.options['use_apply_nonlinear'] = True
        return s
    if name == 'nlbj':
        # (NonlinearBlockJac has no such option: its sweep does not go through Solver._gs_iter and lets the error through)
        return om.NonlinearBlockJac(maxiter=800, atol=1e-12, rtol=1e-12, err_on_non_converge=True, iprint=-1)
    if name == 'broyden':
        return om.BroydenSolver(maxiter=100, atol=1e-12, rtol=1e-12, **common)
    raise ValueError(name)


def make_ln_solver(name, opts=None):
    import openmdao.api as om
    opts = dict(opts or {})
    aj = bool(opts.get('assemble_jac', False))
    if name == 'runonce':
        return om.LinearRunOnce()
    if name == 'direct':
        return om.DirectSolver(assemble_jac=aj)
    if name == 'krylov':
        return om.ScipyKrylov(assemble_jac=aj, atol=1e-14, rtol=1e-14, maxiter=500, restart=200,
                              err_on_non_converge=True, iprint=-1)
    if name == 'lnbgs':
        return om.LinearBlockGS(maxiter=600, atol=1e-14, rtol=1e-14, err_on_non_converge=True, iprint=-1)
    if name == 'lnbj':
        return om.LinearBlockJac(maxiter=1200, atol=1e-14, rtol=1e-14, err_on_non_converge=True, iprint=-1)
    raise ValueError(name)


# ------------------------------------------------------------------------------------------------
# builder
# ------------------------------------------------------------------------------------------------

def build_problem(spec, trace=None, setup=True, mode=None, force_alloc_complex=False, driver=None):
    """spec -> om.Problem (set up).  Returns (problem, info)."""
    import openmdao.api as om
    p = om.Problem(reports=False)
    if driver is not None:
        p.driver = driver
    root = p.model
    groups = {'': root}

    def get_group(path):
        key = '.'.join(path)
        if key in groups:
            return groups[key]
        parent = get_group(path[:-1])
        g = parent.add_subsystem(path[-1], om.Group())
        groups[key] = g
        return g

    # subsystems are added in spec order (groups are created at first use)
    for cs in spec['comps']:
        g = get_group(cs.get('path', []))
        if cs['kind'] == 'ivc':
            ivc = om.IndepVarComp()
            for v in cs['outputs']:
                kw = {}
                if v.get('units'):
                    kw['units'] = v['units']
                ivc.add_output(v['name'], val=np.array(v['val'], dtype=float).reshape(v['shape']) if v['shape']
                               else float(np.asarray(v['val']).ravel()[0]), **kw)
            g.add_subsystem(cs['name'], ivc, **_promote_kwargs(cs))
        else:
            g.add_subsystem(cs['name'], make_component(cs, trace=trace), **_promote_kwargs(cs))
            for (old_name, alias, idx2, flat2, shape1) in cs.get('promotes_idx', []):
                kw = {'src_indices': dec_idx(idx2), 'src_shape': tuple(shape1)}
                if flat2 is not None:
                    kw['flat_src_indices'] = flat2
                g.promotes(cs['name'], inputs=[(old_name, alias)], **kw)

    for key, gs in spec.get('groups', {}).items():
        g = groups[key]
        if gs.get('nl'):
            g.nonlinear_solver = make_nl_solver(gs['nl'], gs.get('nl_opts'))
        if gs.get('ln'):
            g.linear_solver = make_ln_solver(gs['ln'], gs.get('ln_opts'))
        if gs.get('jac_type'):
            g.options['assembled_jac_type'] = gs['jac_type']
        if gs.get('auto_order'):
            g.options['auto_order'] = True

    for cn in spec.get('conns', []):
        kw = {}
        if cn.get('idx') is not None:
            kw['src_indices'] = dec_idx(cn['idx'])
            if cn.get('flat') is not None:
                kw['flat_src_indices'] = cn['flat']
        # promoted names (relative to the root) are used when the spec promotes the variable
        root.connect(cn.get('src_p') or cn['src'], cn.get('tgt_p') or cn['tgt'], **kw)

    for dv in spec.get('desvars', []):
        root.add_design_var(dv['name'], **_dv_kwargs(dv))
    for rs in spec.get('responses', []):
        kw = _dv_kwargs(rs)
        if rs.get('type') == 'obj':
            if 'indices' in kw:      # add_objective takes a single (flat) index
                kw['index'] = int(np.asarray(kw.pop('indices')).ravel()[0])
            root.add_objective(rs['name'], **kw)
        else:
            for k in ('lower', 'upper', 'equals'):
                if rs.get(k) is not None:
                    kw[k] = rs[k]
            if rs.get('linear'):
                kw['linear'] = True
            root.add_constraint(rs['name'], **kw)

    if setup:
        p.setup(mode=mode or spec.get('mode', 'auto'), force_alloc_complex=force_alloc_complex)
    return p, groups


def _promote_kwargs(cs):
    kw = {}
    if cs.get('promotes_inputs'):
        kw['promotes_inputs'] = [tuple(x) if isinstance(x, list) else x for x in cs['promotes_inputs']]
    if cs.get('promotes_outputs'):
        kw['promotes_outputs'] = [tuple(x) if isinstance(x, list) else x for x in cs['promotes_outputs']]
    return kw


def _dv_kwargs(dv):
    kw = {}
    if dv.get('indices') is not None:
        kw['indices'] = dec_idx(dv['indices'])
        if dv.get('flat_indices'):
            kw['flat_indices'] = True
    for k in ('scaler', 'adder', 'ref', 'ref0'):
        if dv.get(k) is not None:
            kw[k] = np.array(dv[k], dtype=float) if isinstance(dv[k], list) else dv[k]
    if dv.get('units'):
        kw['units'] = dv['units']
    if dv.get('alias'):
        kw['alias'] = dv['alias']
    return kw
