"""Independent NumPy reference for model specs (values, residuals, exact totals by the implicit function theorem).

Shares only the spec schema (and the pure data decoding `comp_arrays`, `dec_idx`) with the builder; no OpenMDAO import.
"""
import math

import numpy as np

from vfw.gen_model import comp_arrays, dec_idx, _sizes, _offsets

# unit -> (factor to base, offset):   base = (x + offset) * factor        (transcribed independently of unit_library.ini)
UNITS = {
    'm': (1.0, 0.0), 'cm': (0.01, 0.0), 'mm': (0.001, 0.0), 'km': (1000.0, 0.0), 'ft': (0.3048, 0.0), 'inch': (0.0254, 0.0),
    's': (1.0, 0.0), 'min': (60.0, 0.0), 'h': (3600.0, 0.0), 'ms': (0.001, 0.0),
    'degK': (1.0, 0.0), 'degC': (1.0, 273.15), 'degF': (5.0 / 9.0, 459.67), 'degR': (5.0 / 9.0, 0.0),
    'N': (1.0, 0.0), 'lbf': (4.44822162, 0.0), 'kN': (1000.0, 0.0),
    'Pa': (1.0, 0.0), 'kPa': (1000.0, 0.0), 'psi': (6894.75729317, 0.0), 'bar': (1.0e5, 0.0),
    'rad': (1.0, 0.0), 'deg': (math.pi / 180.0, 0.0),
    'm/s': (1.0, 0.0), 'km/h': (1.0 / 3.6, 0.0), 'ft/s': (0.3048, 0.0),
}


def conv(src_units, tgt_units):
    """Return (f, o) with  tgt = src * f + o."""
    if not src_units or not tgt_units or src_units == tgt_units:
        return 1.0, 0.0
    fs, os_ = UNITS[src_units]
    ft, ot = UNITS[tgt_units]
    # base = (src + os) * fs = (tgt + ot) * ft   =>  tgt = src * fs/ft + os*fs/ft - ot
    f = fs / ft
    return f, os_ * f - ot


def absname(cs, v):
    return '.'.join(list(cs.get('path', [])) + [cs['name'], v['name']])


class RefModel(object):
    def __init__(self, spec):
        self.spec = spec
        self.comps = [c for c in spec['comps'] if c['kind'] != 'ivc']
        self.ivcs = [c for c in spec['comps'] if c['kind'] == 'ivc']
        # parameter vector x (ivc outputs) and state vector u (all other outputs)
        self.xvars = {}
        off = 0
        for c in self.ivcs:
            for v in c['outputs']:
                n = int(np.prod(v['shape'])) if v['shape'] else 1
                self.xvars[absname(c, v)] = dict(off=off, size=n, shape=tuple(v['shape']), units=v.get('units'), val=v['val'])
                off += n
        self.nx = off
        self.uvars = {}
        off = 0
        for c in self.comps:
            for v in c['outputs']:
                n = int(np.prod(v['shape'])) if v['shape'] else 1
                self.uvars[absname(c, v)] = dict(off=off, size=n, shape=tuple(v['shape']), units=v.get('units'), comp=c['name'])
                off += n
        self.nu = off
        self.x0 = np.zeros(self.nx)
        for n, m in self.xvars.items():
            self.x0[m['off']:m['off'] + m['size']] = np.asarray(m['val'], dtype=float).ravel()
        # input maps
        conns = {cn['tgt']: cn for cn in spec.get('conns', [])}
        self.inmap = {}
        for c in self.comps:
            for v in c['inputs']:
                an = absname(c, v)
                n = int(np.prod(v['shape'])) if v['shape'] else 1
                cn = conns.get(an)
                if cn is None:
                    self.inmap[an] = dict(kind='const', val=np.ones(n) * v.get('val', 1.0), size=n)
                    continue
                src = cn['src']
                sm = self.xvars.get(src) or self.uvars.get(src)
                kind = 'x' if src in self.xvars else 'u'
                ssize = sm['size']
                if cn.get('idx') is None:
                    pos = np.arange(ssize)
                else:
                    flat = cn.get('flat') is True or (cn.get('flat') is None and len(sm['shape']) <= 1)
                    ref = np.arange(ssize) if flat else np.arange(ssize).reshape(sm['shape'])
                    sel = np.asarray(ref[dec_idx(cn['idx'])])
                    if cn.get('idx2') is not None:
                        # second level (Group.promotes src_indices) indexes what the first level delivers
                        if sel.shape == ():
                            sel = sel.reshape(1)
                        flat2 = cn.get('flat2') is True or (cn.get('flat2') is None and sel.ndim <= 1)
                        sel = np.asarray((sel.ravel() if flat2 else sel)[dec_idx(cn['idx2'])])
                    pos = sel.ravel()
                f, o = conv(sm['units'], v.get('units'))
                if pos.size != n:
                    raise ValueError(f"spec error: input {an} size {n} but index selects {pos.size}")
                self.inmap[an] = dict(kind=kind, pos=sm['off'] + pos, f=f, o=o, size=n, src=src)
        self.arrs = {c['name']: comp_arrays(c) for c in self.comps}

    # -------------------------------------------------------------------------------------------
    def input_vals(self, c, u, x):
        parts = []
        for v in c['inputs']:
            m = self.inmap[absname(c, v)]
            if m['kind'] == 'const':
                parts.append(m['val'].astype(u.dtype))
            else:
                src = u if m['kind'] == 'u' else x
                parts.append(src[m['pos']] * m['f'] + m['o'])
        if not parts:
            return np.zeros(0, dtype=u.dtype)
        return np.concatenate(parts)

    def input_val(self, absin, u, x):
        m = self.inmap[absin]
        if m['kind'] == 'const':
            return m['val']
        src = u if m['kind'] == 'u' else x
        return src[m['pos']] * m['f'] + m['o']

    def _f(self, a, xh):
        if xh.size == 0:
            return a['b'].astype(xh.dtype)
        return a['g'] * (a['A'] @ xh + a['c'] * np.tanh(a['B'] @ xh)) + a['b']

    def _fj(self, a, xh):
        if xh.size == 0:
            return np.zeros((a['nout'], 0))
        t = np.tanh(a['B'] @ xh)
        return a['g'] * (a['A'] + (a['c'] * (1 - t * t))[:, None] * a['B'])

    def comp_slice(self, c):
        first = absname(c, c['outputs'][0])
        o = self.uvars[first]['off']
        return slice(o, o + self.arrs[c['name']]['nout'])

    def residual(self, u, x):
        """R(u, x): explicit comps  R = u_c - f(xh) ; implicit comps their residual."""
        dtype = complex if (np.iscomplexobj(u) or np.iscomplexobj(x)) else float
        u = u.astype(dtype)
        x = x.astype(dtype)
        R = np.zeros(self.nu, dtype=dtype)
        for c in self.comps:
            a = self.arrs[c['name']]
            sl = self.comp_slice(c)
            xh = self.input_vals(c, u, x)
            if c['kind'] == 'aff':
                R[sl] = u[sl] - self._f(a, xh)
            else:
                uc = u[sl]
                R[sl] = a['M'] @ uc + a['d'] * np.tanh(uc) + self._f(a, xh)
        return R

    def jacobians(self, u, x):
        """Dense dR/du (nu x nu) and dR/dx (nu x nx)."""
        Ju = np.zeros((self.nu, self.nu))
        Jx = np.zeros((self.nu, self.nx))
        for c in self.comps:
            a = self.arrs[c['name']]
            sl = self.comp_slice(c)
            xh = self.input_vals(c, u, x)
            J = self._fj(a, xh)
            sign = -1.0 if c['kind'] == 'aff' else 1.0
            if c['kind'] == 'aff':
                Ju[sl, sl] += np.eye(a['nout'])
            else:
                uc = u[sl]
                t = np.tanh(uc)
                Ju[sl, sl] += a['M'] + np.diag(a['d'] * (1 - t * t))
            col = 0
            rows = np.arange(sl.start, sl.stop)
            for v in c['inputs']:
                m = self.inmap[absname(c, v)]
                n = m['size']
                if m['kind'] != 'const':
                    tgt = Ju if m['kind'] == 'u' else Jx
                    sub = sign * J[:, col:col + n] * m['f']
                    # duplicated source positions accumulate
                    np.add.at(tgt, (rows[:, None], m['pos'][None, :]), sub)
                col += n
        return Ju, Jx

    def solve(self, u0, x, tol=1e-13, maxit=80):
        u = np.array(u0, dtype=float)
        for _ in range(maxit):
            R = self.residual(u, x)
            if not np.all(np.isfinite(R)):
                return u, np.inf
            nrm = np.max(np.abs(R)) if R.size else 0.0
            if nrm < tol:
                return u, nrm
            Ju, _ = self.jacobians(u, x)
            try:
                u = u - np.linalg.solve(Ju, R)
            except np.linalg.LinAlgError:
                return u, np.inf
        R = self.residual(u, x)
        return u, (np.max(np.abs(R)) if R.size else 0.0)

    def totals(self, u, x):
        """du/dx (nu x nx) and cond(dR/du)."""
        Ju, Jx = self.jacobians(u, x)
        cond = np.linalg.cond(Ju) if self.nu else 1.0
        dudx = -np.linalg.solve(Ju, Jx) if self.nu else np.zeros((0, self.nx))
        return dudx, cond

    def totals_scale(self, u, x):
        """max entry of |(dR/du)^-1| |dR/dx|: the size of the terms that are summed (and may cancel) when du/dx is formed,
        i.e. the quantity the round-off of any solution method is relative to."""
        if not self.nu:
            return 0.0
        Ju, Jx = self.jacobians(u, x)
        try:
            S = np.abs(np.linalg.inv(Ju)) @ np.abs(Jx)
        except np.linalg.LinAlgError:
            return float('inf')
        return float(np.max(S)) if S.size else 0.0

    # selections ---------------------------------------------------------------------------------
    def var_positions(self, name, indices=None, flat_indices=False):
        """Return ('u'|'x', positions) of a variable optionally indexed like add_design_var/add_constraint."""
        if name in self.uvars:
            kind, m = 'u', self.uvars[name]
        else:
            kind, m = 'x', self.xvars[name]
        pos = np.arange(m['size'])
        if indices is not None:
            if flat_indices or len(m['shape']) <= 1:
                pos = np.asarray(pos[dec_idx(indices)]).ravel()
            else:
                pos = np.asarray(pos.reshape(m['shape'])[dec_idx(indices)]).ravel()
        return kind, m['off'] + pos, m

    def total_block(self, dudx, of, wrt):
        """d(of)/d(wrt) for of=(kind,pos) and wrt=('x',pos)."""
        ok, opos = of
        wk, wpos = wrt
        assert wk == 'x'
        if ok == 'u':
            return dudx[np.ix_(opos, wpos)]
        blk = np.zeros((len(opos), len(wpos)))
        for i, p in enumerate(opos):
            for j, q in enumerate(wpos):
                if p == q:
                    blk[i, j] = 1.0
        return blk
