"""Entry point:  python -m vfw.run <ID> --tier quick|thorough [--replay PATH]

Exit codes: 0 property held on everything explored (KNOWN-FINDING lines allowed),
            1 violation (one line `VIOLATION property=<ID> replay=<path>` per unlisted signature),
            2 harness error (never prints VIOLATION).
"""
import argparse
import importlib
import json
import os
import shutil
import subprocess
import sys
import tempfile
import time

from vfw import core

NPROC = int(os.environ.get('VFW_NPROC', '16'))


def child_env(scratch):
    env = dict(os.environ)
    pp = [core.VERIF_DIR, os.path.join(core.VERIF_DIR, '.deps')]
    if env.get('VFW_REPO'):           # sensitivity runs against a scratch copy of the repository
        pp.insert(0, env['VFW_REPO'])
    if env.get('PYTHONPATH'):
        pp.append(env['PYTHONPATH'])
    env['PYTHONPATH'] = os.pathsep.join(pp)
    env['PYTHONHASHSEED'] = '0'
    env['OPENMDAO_REPORTS'] = '0'
    env['OPENMDAO_CHECK_ALL_PARTIALS'] = ''
    env['OMP_NUM_THREADS'] = '1'
    env['OPENBLAS_NUM_THREADS'] = '1'
    env['MKL_NUM_THREADS'] = '1'
    env['JAX_PLATFORMS'] = 'cpu'
    env['XLA_FLAGS'] = '--xla_force_host_platform_device_count=1'
    env['TMPDIR'] = scratch
    env['PYTHONWARNINGS'] = 'ignore'
    env.pop('OPENMDAO_CHECK_ALL_PARTIALS', None)
    return env


def load_known(prop_id):
    if not os.path.exists(core.KNOWN_FINDINGS_FILE):
        return []
    with open(core.KNOWN_FINDINGS_FILE) as f:
        data = json.load(f)
    entries = [e for e in data.get('entries', []) if e.get('property') == prop_id]
    # per-property staging file used while a check is being developed (same entry format)
    staged = os.path.join(core.VERIF_DIR, 'findings', f"{prop_id}.known.json")
    if os.path.exists(staged):
        with open(staged) as f:
            entries += [e for e in json.load(f).get('entries', []) if e.get('property') == prop_id]
    return entries


def run_workers(prop_id, units, scratch, timeout, extra_env=None):
    """Run each unit in its own fresh interpreter, NPROC at a time."""
    env = child_env(scratch)
    if extra_env:
        env.update(extra_env)
    pending = list(enumerate(units))
    running = []
    results = [None] * len(units)
    notes = []
    while pending or running:
        while pending and len(running) < NPROC:
            i, unit = pending.pop(0)
            wdir = os.path.join(scratch, f"w{i}")
            os.makedirs(wdir, exist_ok=True)
            upath = os.path.join(wdir, 'unit.json')
            opath = os.path.join(wdir, 'out.json')
            with open(upath, 'w') as f:
                f.write(core.dumps(unit))
            log = open(os.path.join(wdir, 'log.txt'), 'w')
            p = subprocess.Popen([sys.executable, '-m', 'vfw.worker', prop_id, upath, opath],
                                 cwd=wdir, env=env, stdout=log, stderr=subprocess.STDOUT)
            running.append((i, p, opath, time.time(), log, wdir))
        still = []
        for (i, p, opath, t0, log, wdir) in running:
            rc = p.poll()
            if rc is None:
                if time.time() - t0 > timeout:
                    p.kill()
                    p.wait()
                    log.close()
                    notes.append(f"unit {i} stopped after {timeout}s budget (inconclusive for the rest of its cases)")
                    results[i] = _read_partial(opath)
                else:
                    still.append((i, p, opath, t0, log, wdir))
                continue
            log.close()
            if rc == 0 and os.path.exists(opath):
                with open(opath) as f:
                    results[i] = json.load(f)
            else:
                with open(os.path.join(wdir, 'log.txt')) as f:
                    tail = f.read()[-3000:]
                results[i] = {'harness_errors': [f"worker {i} exited rc={rc}\n{tail}"]}
            shutil.rmtree(wdir, ignore_errors=True)
        running = still
        if running:
            time.sleep(0.05)
    return results, notes


def _read_partial(opath):
    part = opath + '.partial'
    for pth in (opath, part):
        if os.path.exists(pth):
            try:
                with open(pth) as f:
                    return json.load(f)
            except Exception:
                pass
    return {'evaluations': 0, 'timed_out': True}


def merge(results):
    m = {'evaluations': 0, 'nontrivial': set(), 'classes': {}, 'discarded': {}, 'excluded_known': {},
         'samples': [], 'class_samples': {}, 'violations': {}, 'harness_errors': [], 'extra': {}}
    for r in results:
        if not r:
            continue
        m['evaluations'] += r.get('evaluations', 0)
        m['nontrivial'].update(r.get('nontrivial_hashes', []))
        for key in ('classes', 'discarded', 'excluded_known'):
            for k, v in r.get(key, {}).items():
                m[key][k] = m[key].get(k, 0) + v
        for s in r.get('samples', []):
            if len(m['samples']) < 5:
                m['samples'].append(s)
        for k, v in r.get('class_samples', {}).items():
            if k not in m['class_samples'] and len(m['class_samples']) < 10:
                m['class_samples'][k] = v
        for sig, d in r.get('violations', {}).items():
            e = m['violations'].setdefault(sig, {'count': 0, 'cases': []})
            e['count'] += d['count']
            e['cases'].extend(d['cases'])
        m['harness_errors'].extend(r.get('harness_errors', []))
        for k, v in r.get('extra', {}).items():
            if isinstance(v, (int, float)) and isinstance(m['extra'].get(k, 0), (int, float)):
                m['extra'][k] = m['extra'].get(k, 0) + v
            else:
                m['extra'].setdefault(k, v)
    return m


def write_evidence(mod, tier, seed, m, wall, notes, known_lines, nviol):
    samples = list(m['samples'])
    for k, v in m['class_samples'].items():
        if len(samples) < 9:
            samples.append({'class': k, 'case': v})
    samples = [_clip(s) for s in samples]
    ev = {
        'property_id': mod.ID,
        'tier': tier,
        'seed': seed,
        'level': mod.LEVEL,
        'coverage': {
            'evaluations': m['evaluations'],
            'distinct_nontrivial': len(m['nontrivial']),
            'rule': mod.RULE,
            'samples': samples,
            'classes': dict(sorted(m['classes'].items())),
            'discarded': m['discarded'],
            'excluded_known': m['excluded_known'],
            'known_findings_reported': known_lines,
            'exhaustive': bool(getattr(mod, 'EXHAUSTIVE', {}).get(tier, False)) if isinstance(getattr(mod, 'EXHAUSTIVE', None), dict) else False,
            'notes': notes,
        },
        'assumptions': list(mod.ASSUMPTIONS),
        'wall_s': round(wall, 2),
        'violations': nviol,
    }
    if m['extra']:
        ev['coverage']['extra'] = m['extra']
    bound = getattr(mod, 'BOUND', None)
    if bound:
        ev['coverage']['bound'] = bound if isinstance(bound, str) else bound.get(tier, '')
    evdir = os.environ.get('VFW_EVIDENCE_DIR') or os.path.join(core.VERIF_DIR, 'evidence')
    os.makedirs(evdir, exist_ok=True)
    path = os.path.join(evdir, f"{mod.ID}.json")
    text = core.dumps(ev, indent=1)
    try:
        import jsonschema
        with open('/root/.vp/EVIDENCE.schema.json') as f:
            schema = json.load(f)
        jsonschema.validate(json.loads(text), schema)
    except ImportError:
        pass
    except FileNotFoundError:
        pass
    with open(path, 'w') as f:
        f.write(text + '\n')
    return path


def _clip(s, n=3000):
    t = core.dumps(s)
    if len(t) <= n:
        return s
    return {'clipped_json': t[:n] + '...'}


def main(argv=None):
    ap = argparse.ArgumentParser()
    ap.add_argument('prop')
    ap.add_argument('--tier', default=os.environ.get('VERIF_TIER') or 'quick', choices=['quick', 'thorough'])
    ap.add_argument('--replay', default=None)
    args = ap.parse_args(argv)
    prop_id = args.prop.upper()
    try:
        seed = int(os.environ.get('VERIF_SEED', '1') or '1')
    except ValueError:
        seed = 1
    t0 = time.time()
    scratch = tempfile.mkdtemp(prefix=f"vfw_{prop_id}_")
    try:
        return _main(prop_id, args, seed, t0, scratch)
    except Exception as e:
        import traceback
        print(f"HARNESS-ERROR property={prop_id} {type(e).__name__}: {e}")
        traceback.print_exc()
        return 2
    finally:
        shutil.rmtree(scratch, ignore_errors=True)


def _main(prop_id, args, seed, t0, scratch):
    os.environ.setdefault('OPENMDAO_REPORTS', '0')
    os.chdir(scratch)
    mod = importlib.import_module(f"vfw.props.{prop_id.lower()}")
    known = load_known(prop_id)
    findings = [e for e in known if e.get('status') == 'finding']
    fixed = [e for e in known if e.get('status') == 'fixed']
    known_sigs = sorted({s for e in findings for s in ([e['signature']] + list(e.get('signatures', [])))})

    # ---- replay of one file -------------------------------------------------------------
    if args.replay:
        rp = args.replay if os.path.isabs(args.replay) else os.path.join(core.VERIF_DIR, args.replay)
        res, _ = run_workers(prop_id, [{'kind': '__replay__', 'paths': [rp], 'known_sigs': []}], scratch, 3600)
        m = merge(res)
        if m['harness_errors']:
            print(f"HARNESS-ERROR property={prop_id} " + m['harness_errors'][0])
            return 2
        if m['violations']:
            for sig in sorted(m['violations']):
                print(f"  signature={sig} detail={m['violations'][sig]['cases'][0]['detail']}")
            print(f"VIOLATION property={prop_id} replay={rp}")
            return 1
        print(f"replay {rp}: property holds on this case")
        return 0

    # ---- witnesses of known findings and fixed defects ---------------------------------------
    known_lines = []
    violations_out = []
    wit_paths = []
    for e in known:
        if e.get('witness'):
            wit_paths.append(os.path.join(core.VERIF_DIR, e['witness']))
    wit_status = {}
    if wit_paths:
        res, _ = run_workers(prop_id, [{'kind': '__replay__', 'paths': [p], 'known_sigs': []} for p in wit_paths],
                             scratch, 1800)
        for p, r in zip(wit_paths, res):
            r = r or {}
            if r.get('harness_errors'):
                print(f"HARNESS-ERROR property={prop_id} witness {p}: {r['harness_errors'][0]}")
                return 2
            wit_status[p] = sorted(r.get('violations', {}))
    for e in findings:
        p = os.path.join(core.VERIF_DIR, e['witness']) if e.get('witness') else None
        sigs = wit_status.get(p, [])
        esigs = set([e['signature']] + list(e.get('signatures', [])))
        if p is None or esigs & set(sigs):
            line = f"KNOWN-FINDING: property={prop_id} {e['what']}"
            print(line)
            known_lines.append(line)
        if p is not None and set(sigs) - esigs:
            # the witness (also) fails in a way that is not listed: that is a new violation
            violations_out.append((sorted(set(sigs) - esigs)[0], p))
        if p is not None and not sigs:
            print(f"note: listed finding no longer reproduces: {e['signature']}")
    for e in fixed:
        p = os.path.join(core.VERIF_DIR, e['witness']) if e.get('witness') else None
        if p and wit_status.get(p):
            violations_out.append((wit_status[p][0], p))

    # ---- regression corpus: replays/<ID>/corpus-*.json ------------------------------------------
    # saved generated cases that are not tied to a defect of the unchanged tree (e.g. the shrunk case with which a
    # deeper tier caught an independently seeded change); replayed on every run, a failure is a violation.
    cdir = os.path.join(core.VERIF_DIR, 'replays', prop_id)
    corpus = sorted(os.path.join(cdir, f) for f in (os.listdir(cdir) if os.path.isdir(cdir) else [])
                    if f.startswith('corpus-') and f.endswith('.json'))
    if corpus:
        res, _ = run_workers(prop_id, [{'kind': '__replay__', 'paths': [p], 'known_sigs': known_sigs} for p in corpus],
                             scratch, 1800)
        for p, r in zip(corpus, res):
            r = r or {}
            if r.get('harness_errors'):
                print(f"HARNESS-ERROR property={prop_id} corpus {p}: {r['harness_errors'][0]}")
                return 2
            for sig in sorted(r.get('violations', {})):
                if sig not in known_sigs:
                    violations_out.append((sig, p))
                    break

    # ---- generated search ---------------------------------------------------------------------
    tier = args.tier
    units = mod.units(tier, seed)
    for u in units:
        u['known_sigs'] = known_sigs
        u.setdefault('tier', tier)
    timeout = getattr(mod, 'UNIT_TIMEOUT', {}).get(tier, 900 if tier == 'quick' else 6 * 3600)
    results, notes = run_workers(prop_id, units, scratch, timeout)
    m = merge(results)
    if corpus:
        notes.append(f"regression corpus: {len(corpus)} saved case(s) replayed ({', '.join(os.path.basename(c) for c in corpus)})")

    rc = 0
    if m['harness_errors']:
        rc = 2
    # minimum class fractions (a vacuous run must not pass silently)
    minfrac = getattr(mod, 'MIN_CLASS_FRACTION', {})
    for cls, frac in minfrac.items():
        got = m['classes'].get(cls, 0) / max(1, m['evaluations'])
        if got < frac:
            m['harness_errors'].append(f"generator distribution: class {cls!r} fraction {got:.4f} < required {frac}")
            rc = 2

    # write replay files for unlisted signatures
    for sig in sorted(m['violations']):
        d = m['violations'][sig]
        cases = sorted(d['cases'], key=lambda c: len(core.dumps(c['case'])))
        best = cases[0]
        rdir = os.path.join(os.environ.get('VFW_REPLAY_DIR') or os.path.join(core.VERIF_DIR, 'replays'), prop_id)
        os.makedirs(rdir, exist_ok=True)
        safe = ''.join(ch if ch.isalnum() or ch in '-_.' else '_' for ch in sig)[:80]
        path = os.path.join(rdir, f"{safe}-{core.case_hash(best['case'])[:8]}.json")
        with open(path, 'w') as f:
            f.write(core.dumps({'property': prop_id, 'signature': sig, 'case': best['case'],
                                'detail': best['detail'], 'seen': d['count'], 'seed': seed, 'tier': tier},
                               indent=1) + '\n')
        violations_out.append((sig, path))

    wall = time.time() - t0
    try:
        write_evidence(mod, tier, seed, m, wall, notes, known_lines, len(violations_out))
    except Exception as e:
        print(f"HARNESS-ERROR property={prop_id} evidence: {type(e).__name__}: {e}")
        return 2

    print(f"{prop_id} tier={tier} seed={seed} evaluations={m['evaluations']} "
          f"distinct_nontrivial={len(m['nontrivial'])} discarded={sum(m['discarded'].values())} "
          f"excluded_known={sum(m['excluded_known'].values())} wall={wall:.1f}s")
    for n in notes:
        print("note:", n)
    if violations_out:
        # a found violation is reported even when some cases also hit a harness problem (e.g. a change to the
        # repository that breaks setup makes the class histogram degenerate)
        for h in m['harness_errors'][:3]:
            print(f"note: harness problem alongside the violation: {h[:int(os.environ.get("VFW_HERR_LEN", "300"))]}")
        for sig, path in violations_out:
            print(f"  signature={sig}")
            print(f"VIOLATION property={prop_id} replay={path}")
        return 1
    if rc == 2:
        for h in m['harness_errors'][:5]:
            print(f"HARNESS-ERROR property={prop_id} {h}")
        return 2
    return 0


if __name__ == '__main__':
    sys.exit(main())
