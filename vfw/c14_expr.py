"""Typed expression ASTs shared by C14 (ExecComp) and C34 (function-based / jax components).

One AST (plain JSON lists) has

  * three text renderings       render(ast, 'exec' | 'np' | 'jnp')
  * a direct NumPy interpreter  ev(ast, env)                      (the value oracle)
  * an own forward-mode symbolic differentiator evaluated in NumPy  evd(ast, env, wrt)  (the derivative oracle;
    one rule per node type, no complex step, no finite differences, no jax)
  * a Hypothesis-driven generator  Gen(draw, ...).expr(shape, depth)  which makes every expression well defined BY
    CONSTRUCTION: partial functions only see arguments wrapped into their open domain with margin
    (log(1.5+sin(e)), arccos(0.9*tanh(e)), e1/(2+cos(e2)), ...), and abs / maximum / minimum / max / min / raw division are
    used only where the argument is away from the kink / pole at BOTH drawn evaluation points.

Node types
    ['v', name]                     variable                       ['c', float]            literal constant
    ['k', 'pi'|'e']                 named constant                 ['mk', kind, args]      ones/zeros/linspace/arange
    ['u', fname, e]                 elementwise unary function     ['neg', e]              unary minus
    ['b', op, e1, e2]               + - * / ** (with broadcasting) ['f2', fname, e1, e2]   arctan2 maximum minimum fmax fmin power
    ['pw', e, n]                    integer power                  ['r', fname, e]         sum prod max min  (full reduction)
    ['l', fname, e1, e2(, axes)]    dot inner outer matmul kron tensordot
    ['ix', e, spec]                 indexing; spec = list of int | [start, stop, step]
    ['df', e]                       diff of a 1-D array
"""
import math

import numpy as np

ALIASES = {'asin': 'arcsin', 'acos': 'arccos', 'atan': 'arctan', 'asinh': 'arcsinh', 'acosh': 'arccosh'}

UNARY = ('sin', 'cos', 'tan', 'arcsin', 'arccos', 'arctan', 'sinh', 'cosh', 'tanh', 'arcsinh', 'arccosh',
         'exp', 'expm1', 'log', 'log10', 'log1p', 'erf', 'erfc', 'abs')


# ------------------------------------------------------------------------------------------------------------------
# NumPy interpreter (value oracle)
# ------------------------------------------------------------------------------------------------------------------

def _erf(x):
    from scipy.special import erf
    return erf(x)


def _erfc(x):
    from scipy.special import erfc
    return erfc(x)


_UF = {
    'sin': np.sin, 'cos': np.cos, 'tan': np.tan, 'arcsin': np.arcsin, 'arccos': np.arccos, 'arctan': np.arctan,
    'sinh': np.sinh, 'cosh': np.cosh, 'tanh': np.tanh, 'arcsinh': np.arcsinh, 'arccosh': np.arccosh,
    'exp': np.exp, 'expm1': np.expm1, 'log': np.log, 'log10': np.log10, 'log1p': np.log1p,
    'erf': _erf, 'erfc': _erfc, 'abs': np.abs,
}

_F2 = {'arctan2': np.arctan2, 'maximum': np.maximum, 'minimum': np.minimum, 'fmax': np.fmax, 'fmin': np.fmin,
       'power': np.power}

_RED = {'sum': np.sum, 'prod': np.prod, 'max': np.max, 'min': np.min}


def _lin(fname, a, b, axes=None):
    if fname == 'tensordot':
        return np.tensordot(a, b, 2 if axes is None else axes)
    return getattr(np, fname)(a, b)


def _spec(spec):
    out = []
    for s in spec:
        out.append(slice(*s) if isinstance(s, (list, tuple)) else int(s))
    return tuple(out)


def _mk(kind, args):
    if kind == 'ones':
        return np.ones(tuple(args[0]) if isinstance(args[0], (list, tuple)) else int(args[0]))
    if kind == 'zeros':
        return np.zeros(tuple(args[0]) if isinstance(args[0], (list, tuple)) else int(args[0]))
    if kind == 'linspace':
        return np.linspace(args[0], args[1], int(args[2]))
    if kind == 'arange':
        return np.arange(args[0], args[1], args[2])
    raise ValueError(kind)


def ev(ast, env):
    """Value of the AST in NumPy. env: name -> ndarray."""
    t = ast[0]
    if t == 'v':
        return env[ast[1]]
    if t == 'c':
        return float(ast[1])
    if t == 'k':
        return math.pi if ast[1] == 'pi' else math.e
    if t == 'mk':
        return _mk(ast[1], ast[2])
    if t == 'u':
        return _UF[ALIASES.get(ast[1], ast[1])](ev(ast[2], env))
    if t == 'neg':
        return -ev(ast[1], env)
    if t == 'b':
        a, b = ev(ast[2], env), ev(ast[3], env)
        op = ast[1]
        if op == '+':
            return a + b
        if op == '-':
            return a - b
        if op == '*':
            return a * b
        if op == '/':
            return a / b
        if op == '**':
            return a ** b
        raise ValueError(op)
    if t == 'f2':
        return _F2[ast[1]](ev(ast[2], env), ev(ast[3], env))
    if t == 'pw':
        return ev(ast[1], env) ** int(ast[2])
    if t == 'r':
        return _RED[ast[1]](ev(ast[2], env))
    if t == 'l':
        return _lin(ast[1], ev(ast[2], env), ev(ast[3], env), ast[4] if len(ast) > 4 else None)
    if t == 'ix':
        return np.asarray(ev(ast[1], env))[_spec(ast[2])]
    if t == 'df':
        return np.diff(ev(ast[1], env))
    raise ValueError(f"unknown node {t!r}")


# ------------------------------------------------------------------------------------------------------------------
# own forward-mode differentiator (derivative oracle)
# ------------------------------------------------------------------------------------------------------------------
# A derivative is a dict name -> ndarray of shape value.shape + var.shape; a missing name means exactly zero.

_SQPI = 2.0 / math.sqrt(math.pi)

_DU = {
    'sin': lambda x: np.cos(x),
    'cos': lambda x: -np.sin(x),
    'tan': lambda x: 1.0 / np.cos(x) ** 2,
    'arcsin': lambda x: 1.0 / np.sqrt(1.0 - x * x),
    'arccos': lambda x: -1.0 / np.sqrt(1.0 - x * x),
    'arctan': lambda x: 1.0 / (1.0 + x * x),
    'sinh': lambda x: np.cosh(x),
    'cosh': lambda x: np.sinh(x),
    'tanh': lambda x: 1.0 / np.cosh(x) ** 2,
    'arcsinh': lambda x: 1.0 / np.sqrt(1.0 + x * x),
    'arccosh': lambda x: 1.0 / np.sqrt(x * x - 1.0),
    'exp': lambda x: np.exp(x),
    'expm1': lambda x: np.exp(x),
    'log': lambda x: 1.0 / x,
    'log10': lambda x: 1.0 / (x * math.log(10.0)),
    'log1p': lambda x: 1.0 / (1.0 + x),
    'erf': lambda x: _SQPI * np.exp(-x * x),
    'erfc': lambda x: -_SQPI * np.exp(-x * x),
    'abs': lambda x: np.sign(x),
}


def _lift(J, vshape, oshape):
    """Broadcast a derivative of a value of shape vshape to a value of shape oshape (NumPy broadcasting rules)."""
    vshape, oshape = tuple(vshape), tuple(oshape)
    if vshape == oshape:
        return J
    varshape = J.shape[len(vshape):]
    lead = (1,) * (len(oshape) - len(vshape)) + vshape
    return np.broadcast_to(J.reshape(lead + varshape), oshape + varshape)


def _mul(d, J, oshape):
    """d (broadcastable to oshape) times J (oshape + varshape) along the value dimensions."""
    d = np.broadcast_to(np.asarray(d, dtype=float), oshape)
    return d.reshape(tuple(oshape) + (1,) * (J.ndim - len(oshape))) * J


def _acc(out, name, J):
    if name in out:
        out[name] = out[name] + J
    else:
        out[name] = J


def _lincomb(terms, oshape):
    """terms: list of (d, dict, vshape) -> dict of sum d * lift(J)."""
    out = {}
    for d, D, vshape in terms:
        for name, J in D.items():
            _acc(out, name, _mul(d, _lift(J, vshape, oshape), oshape))
    return out


def _bilinear(fn, a, Da, b, Db, am=False):
    """Derivative of a bilinear map fn(a, b): fn(da, b) + fn(a, db), one variable element at a time."""
    val = np.asarray(fn(a, b))
    if am:
        a, b = np.abs(a), np.abs(b)
    out = {}
    for D, first in ((Da, True), (Db, False)):
        base = a if first else b
        bshape = np.shape(base)
        for name, J in D.items():
            varshape = J.shape[len(bshape):]
            nv = int(np.prod(varshape)) if varshape else 1
            Jf = J.reshape(bshape + (nv,))
            res = np.empty(val.shape + (nv,))
            for k in range(nv):
                piece = Jf[..., k]
                res[..., k] = fn(piece, b) if first else fn(a, piece)
            _acc(out, name, res.reshape(val.shape + varshape))
    return val, out


def evd(ast, env, wrt, am=False):
    """(value, derivative dict) of the AST; derivative w.r.t. every name in `wrt` (missing key = exactly zero).

    am=True ("absolute mode"): every local derivative factor is replaced by its absolute value, so the result is the
    sum over all chain-rule paths of |product| -- an upper bound of |derivative| that measures the size of the terms
    whose rounding errors any floating-point differentiation of this expression accumulates (tolerance scale)."""
    A = np.abs if am else (lambda z: z)
    t = ast[0]
    if t == 'v':
        x = np.asarray(env[ast[1]], dtype=float)
        if ast[1] in wrt:
            n = x.size
            return x, {ast[1]: np.eye(n).reshape(x.shape + x.shape)}
        return x, {}
    if t in ('c', 'k', 'mk'):
        return ev(ast, env), {}
    if t == 'u':
        x, D = evd(ast[2], env, wrt, am)
        f = ALIASES.get(ast[1], ast[1])
        val = _UF[f](x)
        if not D:
            return val, {}
        with np.errstate(over='ignore'):
            d = A(_DU[f](x))
        if am and f == 'tanh':
            d = d + 1e-6        # implementations that form 1 - tanh(x)**2 carry an absolute error of a few ulp of 1
        sh = np.shape(val)
        return val, {n: _mul(d, J, sh) for n, J in D.items()}
    if t == 'neg':
        x, D = evd(ast[1], env, wrt, am)
        return -x, {n: (J if am else -J) for n, J in D.items()}
    if t == 'b' or t == 'f2':
        a, Da = evd(ast[2], env, wrt, am)
        b, Db = evd(ast[3], env, wrt, am)
        op = ast[1]
        sa, sb = np.shape(a), np.shape(b)
        if op == '+':
            val, da, db = a + b, 1.0, 1.0
        elif op == '-':
            val, da, db = a - b, 1.0, -1.0
        elif op == '*':
            val, da, db = a * b, b, a
        elif op == '/':
            val, da, db = a / b, 1.0 / b, -a / (b * b)
        elif op in ('**', 'power'):
            val = a ** b
            da = b * a ** (b - 1.0)
            db = val * np.log(a) if Db else 0.0
        elif op == 'arctan2':
            val = np.arctan2(a, b)          # a = y, b = x
            r2 = a * a + b * b
            da, db = b / r2, -a / r2
        elif op in ('maximum', 'fmax'):
            val = np.maximum(a, b)
            da = (a > b) * 1.0
            db = 1.0 - da
        elif op in ('minimum', 'fmin'):
            val = np.minimum(a, b)
            da = (a < b) * 1.0
            db = 1.0 - da
        else:
            raise ValueError(op)
        sh = np.shape(val)
        return val, _lincomb([(A(da), Da, sa), (A(db), Db, sb)], sh)
    if t == 'pw':
        x, D = evd(ast[1], env, wrt, am)
        n = int(ast[2])
        val = x ** n
        d = A(n * x ** (n - 1))
        sh = np.shape(val)
        return val, {k: _mul(d, J, sh) for k, J in D.items()}
    if t == 'r':
        x, D = evd(ast[2], env, wrt, am)
        x = np.asarray(x, dtype=float)
        f = ast[1]
        nd = x.ndim
        axes = tuple(range(nd))
        if f == 'sum':
            return np.sum(x), {k: J.sum(axis=axes) if nd else J for k, J in D.items()}
        if f == 'prod':
            flat = x.ravel()
            cof = A(np.array([np.prod(np.delete(flat, i)) for i in range(flat.size)]).reshape(x.shape))
            return np.prod(x), {k: _mul(cof, J, x.shape).sum(axis=axes) if nd else J for k, J in D.items()}
        if f in ('max', 'min'):
            i = int(np.argmax(x)) if f == 'max' else int(np.argmin(x))
            idx = np.unravel_index(i, x.shape) if nd else ()
            return x[idx], {k: J[idx] for k, J in D.items()}
        raise ValueError(f)
    if t == 'l':
        a, Da = evd(ast[2], env, wrt, am)
        b, Db = evd(ast[3], env, wrt, am)
        axes = ast[4] if len(ast) > 4 else None
        fname = ast[1]
        return _bilinear(lambda p, q: _lin(fname, p, q, axes), np.asarray(a, dtype=float), Da,
                         np.asarray(b, dtype=float), Db, am)
    if t == 'ix':
        x, D = evd(ast[1], env, wrt, am)
        sp = _spec(ast[2])
        return np.asarray(x)[sp], {k: J[sp] for k, J in D.items()}
    if t == 'df':
        x, D = evd(ast[1], env, wrt, am)
        if am:
            return np.diff(x), {k: J[1:] + J[:-1] for k, J in D.items()}
        return np.diff(x), {k: np.diff(J, axis=0) for k, J in D.items()}
    raise ValueError(f"unknown node {t!r}")


def jac(ast, env, wrt, am=False):
    """Dense Jacobians {name: 2-D array (value.size, var.size)} and the value (am: see evd)."""
    val, D = evd(ast, env, wrt, am)
    val = np.asarray(val, dtype=float)
    out = {}
    for n in wrt:
        vs = int(np.size(env[n]))
        if n in D:
            out[n] = np.asarray(D[n], dtype=float).reshape(val.size, vs)
        else:
            out[n] = np.zeros((val.size, vs))
    return val, out


def fd_verify(ast, env, name, Jn):
    """Guard of the oracle itself, used before a derivative violation is reported: the AST differentiator must agree with
    central differences of the NumPy interpreter, otherwise the harness (not OpenMDAO) is wrong -> AssertionError."""
    x0 = np.asarray(env[name], dtype=float)
    h = 1e-6
    fd = np.zeros_like(Jn)
    for k in range(x0.size):
        xp = x0.copy().ravel()
        xm = x0.copy().ravel()
        xp[k] += h
        xm[k] -= h
        fp = np.asarray(ev(ast, dict(env, **{name: xp.reshape(x0.shape)})), dtype=float).ravel()
        fm = np.asarray(ev(ast, dict(env, **{name: xm.reshape(x0.shape)})), dtype=float).ravel()
        fd[:, k] = (fp - fm) / (2 * h)
    err = np.max(np.abs(fd - Jn) / (1.0 + np.abs(fd)), initial=0.0)
    if err > 1e-4:
        raise AssertionError(f"harness: AST differentiator disagrees with finite differences ({err:.2e}) on {render(ast)}")


# ------------------------------------------------------------------------------------------------------------------
# text renderings
# ------------------------------------------------------------------------------------------------------------------

def _num(x):
    x = float(x)
    s = repr(x)
    return f"({s})" if x < 0 else s


def _shape_txt(a):
    if isinstance(a, (list, tuple)):
        return '(' + ', '.join(str(int(v)) for v in a) + (',)' if len(a) == 1 else ')')
    return str(int(a))


def _spec_txt(spec):
    parts = []
    for s in spec:
        if isinstance(s, (list, tuple)):
            a, b, c = s
            txt = ('' if a is None else str(a)) + ':' + ('' if b is None else str(b))
            if c is not None:
                txt += ':' + str(c)
            parts.append(txt)
        else:
            parts.append(str(int(s)))
    return ', '.join(parts)


def render(ast, style='exec', names=None):
    """Text of the AST. style 'exec': bare ExecComp names; 'np': np.<name>; 'jnp': jnp.<name>.

    In the 'np' / 'jnp' styles erf/erfc are rendered as the bare names erf/erfc (the caller provides them).
    names: optional {variable name: replacement text} (e.g. a static option read from self.options)."""
    pre = {'exec': '', 'np': 'np.', 'jnp': 'jnp.'}[style]
    names = names or {}

    def fn(name):
        if style != 'exec':
            name = ALIASES.get(name, name)
            if name in ('erf', 'erfc'):
                return name
        return pre + name

    def r(a):
        t = a[0]
        if t == 'v':
            return names.get(a[1], a[1])
        if t == 'c':
            return _num(a[1])
        if t == 'k':
            return pre + a[1]
        if t == 'mk':
            kind, args = a[1], a[2]
            if kind in ('ones', 'zeros'):
                return f"{pre}{kind}({_shape_txt(args[0])})"
            if kind == 'linspace':
                return f"{pre}linspace({_num(args[0])}, {_num(args[1])}, {int(args[2])})"
            return f"{pre}arange({_num(args[0])}, {_num(args[1])}, {_num(args[2])})"
        if t == 'u':
            return f"{fn(a[1])}({r(a[2])})"
        if t == 'neg':
            return f"(-{r(a[1])})"
        if t == 'b':
            return f"({r(a[2])} {a[1]} {r(a[3])})"
        if t == 'f2':
            return f"{fn(a[1])}({r(a[2])}, {r(a[3])})"
        if t == 'pw':
            n = int(a[2])
            return f"({r(a[1])} ** {n})" if n >= 0 else f"({r(a[1])} ** ({n}))"
        if t == 'r':
            return f"{fn(a[1])}({r(a[2])})"
        if t == 'l':
            if len(a) > 4:
                return f"{fn(a[1])}({r(a[2])}, {r(a[3])}, {int(a[4])})"
            return f"{fn(a[1])}({r(a[2])}, {r(a[3])})"
        if t == 'ix':
            return f"{r(a[1])}[{_spec_txt(a[2])}]"
        if t == 'df':
            return f"{fn('diff')}({r(a[1])})"
        raise ValueError(t)
    return r(ast)


def eval_text(ast, env):
    """Evaluate the 'np' rendering with Python's eval in a clean namespace (cross-check of render against ev)."""
    ns = {'np': np, 'erf': _erf, 'erfc': _erfc}
    ns.update(env)
    return eval(render(ast, 'np'), {'__builtins__': {}}, ns)


# ------------------------------------------------------------------------------------------------------------------
# structure helpers
# ------------------------------------------------------------------------------------------------------------------

def children(ast):
    t = ast[0]
    if t in ('v', 'c', 'k', 'mk'):
        return []
    if t in ('u', 'r'):
        return [ast[2]]
    if t in ('neg', 'df'):
        return [ast[1]]
    if t in ('b', 'f2', 'l'):
        return [ast[2], ast[3]]
    if t in ('pw', 'ix'):
        return [ast[1]]
    raise ValueError(t)


def depth(ast):
    ch = children(ast)
    return 1 + (max(depth(c) for c in ch) if ch else 0)


def walk(ast):
    yield ast
    for c in children(ast):
        yield from walk(c)


def variables(ast):
    return sorted({a[1] for a in walk(ast) if a[0] == 'v'})


def functions(ast):
    out = set()
    for a in walk(ast):
        if a[0] in ('u', 'f2', 'r', 'l'):
            out.add(a[1])
        elif a[0] == 'b':
            out.add(a[1])
        elif a[0] in ('pw', 'ix', 'df', 'mk', 'neg', 'k'):
            out.add({'pw': 'intpow', 'ix': 'index', 'df': 'diff', 'mk': a[1] if a[0] == 'mk' else '', 'neg': 'neg',
                     'k': 'named-const'}[a[0]])
    return out


def max_node_magnitude(ast, env):
    """Largest |value| over all nodes (used to scale the value tolerance)."""
    m = 1.0
    for a in walk(ast):
        v = np.asarray(ev(a, env), dtype=float)
        if v.size:
            m = max(m, float(np.max(np.abs(v))))
    return m


# ------------------------------------------------------------------------------------------------------------------
# generator
# ------------------------------------------------------------------------------------------------------------------

NICE_CONSTS = [0.5, 1.5, 2.0, 3.0, 0.25, 1.25, 0.1, 2.5, -0.5, -1.5, -2.0, 0.75, 4.0, -0.3, 0.001]
EXEC_UNARY = ('sin', 'cos', 'tan', 'arcsin', 'arccos', 'arctan', 'sinh', 'cosh', 'tanh', 'arcsinh', 'arccosh',
              'exp', 'expm1', 'log', 'log10', 'log1p', 'erf', 'erfc', 'abs',
              'asin', 'acos', 'atan', 'asinh', 'acosh')
KINK = 0.1


class Gen(object):
    """Draws expressions of a requested shape over the given variables.

    draw        : Hypothesis draw function
    shapes      : name -> shape tuple of the available variables
    envs        : list of environments (name -> ndarray): every precondition that depends on values is established at
                  ALL of them (the check evaluates the component at these points and nowhere else)
    unary       : allowed unary function names
    f2          : allowed two-argument function names
    elementwise : only elementwise constructs whose array operands all have the target shape (has_diag_partials domain)
    local_ok    : allow constructs whose validity is established only at the drawn points (abs, max/min, raw division,
                  negative integer powers); False -> only globally valid wrappers (used when states move)
    linalg/mk/reductions/indexing : allow these node families
    """

    def __init__(self, draw, shapes, envs, unary=EXEC_UNARY, f2=('arctan2', 'maximum', 'minimum', 'fmax', 'fmin', 'power'),
                 elementwise=False, local_ok=True, linalg=True, mk=True, reductions=('sum', 'prod', 'max', 'min'),
                 indexing=True, named=True, diff=True, linalg_names=('dot', 'inner', 'outer', 'matmul', 'kron', 'tensordot')):
        from hypothesis import strategies as st
        self.st = st
        self.draw = draw
        self.shapes = {n: tuple(s) for n, s in shapes.items()}
        self.envs = envs
        self.unary = tuple(unary)
        self.f2 = tuple(f2)
        self.elementwise = elementwise
        self.local_ok = local_ok
        self.linalg = linalg and not elementwise
        self.linalg_names = tuple(linalg_names)
        self.mk = mk
        self.reductions = tuple(reductions) if not elementwise else ()
        self.indexing = indexing and not elementwise
        self.named = named
        self.diff = diff and not elementwise
        self.used = {}

    # -- small helpers -------------------------------------------------------------------------------------------
    def pick(self, seq):
        seq = list(seq)
        return seq[self.draw(self.st.integers(0, len(seq) - 1))]

    def vals(self, ast):
        return [np.asarray(ev(ast, e), dtype=float) for e in self.envs]

    def note(self, what):
        self.used[what] = self.used.get(what, 0) + 1

    def const(self):
        return ['c', self.pick(NICE_CONSTS)]

    def bounded(self, ast, lim):
        """ast itself when |ast| <= lim at all points, else a squashed version (valid everywhere)."""
        if all(np.all(np.abs(v) <= lim) for v in self.vals(ast)):
            return ast
        return self.pick([['u', 'sin', ast], ['u', 'tanh', ast], ['u', 'cos', ast]])

    def fix(self, ast):
        """Magnitude control: keep every node within +-50 at the drawn points."""
        for _ in range(3):
            vs = self.vals(ast)
            if all(np.all(np.isfinite(v)) and (v.size == 0 or np.max(np.abs(v)) <= 50.0) for v in vs):
                return ast
            ast = ['u', 'tanh', ['b', '*', ['c', 0.01], ast]]
        return ast

    def vars_of_shape(self, shape):
        return [n for n, s in self.shapes.items() if s == tuple(shape)]

    def array_shapes(self):
        return sorted({s for s in self.shapes.values() if len(s) >= 1 and int(np.prod(s)) > 1})

    # -- leaves --------------------------------------------------------------------------------------------------
    def leaf(self, shape):
        shape = tuple(shape)
        names = self.vars_of_shape(shape)
        if names:
            return ['v', self.pick(names)]
        if shape == ():
            if self.named and self.draw(self.st.integers(0, 5)) == 0:
                return ['k', self.pick(['pi', 'e'])]
            return self.const()
        # constant arrays from the array-creation functions
        if not self.mk:
            raise ValueError(f"no variable of shape {shape}")
        if len(shape) == 1:
            n = shape[0]
            kind = self.pick(['linspace', 'arange', 'ones', 'zeros'] if n > 1 else ['ones', 'linspace'])
            self.note(kind)
            if kind == 'linspace':
                a = self.pick([0.5, 1.0, -1.0, 0.25])
                return ['mk', 'linspace', [a, a + self.pick([1.0, 2.0, 1.5]), n]]
            if kind == 'arange':
                a = self.pick([0.0, 1.0, -1.0, 0.5])
                return ['mk', 'arange', [a, a + n - 0.5, 1.0]]
            if kind == 'zeros':
                return ['b', '+', ['mk', 'zeros', [n]], self.const()]
            return ['b', '*', ['mk', 'ones', [n]], self.const()]
        m, n = shape
        if self.draw(self.st.booleans()) or not self.linalg:
            self.note('ones')
            return ['b', '*', ['mk', 'ones', [[m, n]]], self.const()]
        return ['l', 'outer', self.leaf((m,)), self.leaf((n,))]

    # -- wrapped unary functions ---------------------------------------------------------------------------------
    def unary_node(self, f, e):
        """Apply f to e, wrapping e so that f is smooth there with margin."""
        base = ALIASES.get(f, f)
        if base in ('sin', 'cos', 'tanh', 'arctan', 'arcsinh', 'erf', 'erfc'):
            arg = e
        elif base in ('exp', 'sinh', 'cosh', 'expm1'):
            arg = self.bounded(e, 3.0)
        elif base == 'tan':
            arg = self.bounded(e, 1.2)
            if arg is e and not self.local_ok:
                arg = ['u', 'tanh', e]
        elif base in ('arcsin', 'arccos'):
            arg = ['b', '*', ['c', 0.9], ['u', self.pick(['tanh', 'sin']), e]]
        elif base == 'arccosh':
            arg = self.pick([['b', '+', ['c', 1.5], ['pw', e, 2]], ['b', '+', ['c', 2.5], ['u', 'cos', e]]])
        elif base in ('log', 'log10'):
            arg = self.pick([['b', '+', ['c', 1.5], ['u', 'sin', e]], ['b', '+', ['c', 0.5], ['pw', e, 2]]])
        elif base == 'log1p':
            arg = self.pick([['b', '*', ['c', 0.5], ['u', 'sin', e]], ['pw', e, 2]])
        elif base == 'abs':
            arg = None
            for shift in (0.0, 2.0, -2.0, 5.0):
                cand = e if shift == 0.0 else ['b', '+', e, ['c', shift]]
                if self.local_ok and all(v.size > 0 and np.min(np.abs(v)) > KINK for v in self.vals(cand)) \
                        and self._same_sign(cand):
                    arg = cand
                    break
            if arg is None:
                self.note('abs-fallback')
                return ['u', 'sin', e]
        else:
            raise ValueError(f)
        if base in ('exp', 'sinh', 'cosh', 'expm1', 'tan') and not self.local_ok and arg is e:
            arg = ['u', 'sin', e]       # the bound above was established only at the drawn points
        self.note(f)
        return ['u', f, arg]

    def _same_sign(self, e):
        vs = self.vals(e)
        s0 = np.sign(vs[0])
        return all(np.array_equal(np.sign(v), s0) for v in vs[1:])

    def _separated(self, a, b):
        """|a - b| > KINK elementwise with the same ordering at all points."""
        d = [np.asarray(x - y) for x, y in zip(self.vals(a), self.vals(b))]
        if not all(v.size > 0 and np.min(np.abs(v)) > KINK for v in d):
            return False
        s0 = np.sign(d[0])
        return all(np.array_equal(np.sign(v), s0) for v in d[1:])

    def binary_node(self, a, b):
        """Elementwise binary combination of two expressions whose shapes broadcast."""
        ops = ['+', '-', '*', '/', '*', '+', '**'] + list(self.f2)
        op = self.pick(ops)
        if op in ('+', '-', '*'):
            self.note(op)
            return ['b', op, a, b]
        if op == '/':
            vb = self.vals(b)
            if self.local_ok and all(v.size > 0 and np.min(np.abs(v)) > 0.5 for v in vb) and self._same_sign(b) \
                    and self.draw(self.st.booleans()):
                self.note('/raw')
                return ['b', '/', a, b]
            self.note('/')
            return ['b', '/', a, ['b', '+', ['c', 2.0], ['u', 'cos', b]]]
        if op in ('**', 'power'):
            base = ['b', '+', ['c', 1.5], ['u', 'sin', a]]
            expo = self.bounded(b, 3.0)
            if expo is b and not self.local_ok:
                expo = ['u', 'sin', b]
            if self.draw(self.st.integers(0, 3)) == 0 and \
                    np.shape(self.vals(a)[0]) == np.broadcast_shapes(np.shape(self.vals(a)[0]), np.shape(self.vals(b)[0])):
                expo = ['c', self.pick([0.5, 2.5, -0.5, 1.5])]
            self.note(op)
            return ['b', '**', base, expo] if op == '**' else ['f2', 'power', base, expo]
        if op == 'arctan2':
            vy, vx = self.vals(a), self.vals(b)
            away = self.local_ok and all(np.all((np.abs(y) > KINK) | (x > KINK)) and np.all(x * x + y * y > 0.25)
                                         for y, x in zip(vy, vx)) and self._same_sign(a)
            self.note('arctan2')
            if away and self.draw(self.st.booleans()):
                self.note('arctan2-raw')
                return ['f2', 'arctan2', a, b]
            return ['f2', 'arctan2', a, ['b', '+', ['c', 2.0], ['u', 'cos', b]]]
        if op in ('maximum', 'minimum', 'fmax', 'fmin'):
            for shift in (0.0, 1.0, -1.0):
                cand = b if shift == 0.0 else ['b', '+', b, ['c', shift]]
                if self.local_ok and self._separated(a, cand):
                    self.note(op)
                    return ['f2', op, a, cand]
            self.note('minmax-fallback')
            return ['b', '+', a, b]
        raise ValueError(op)

    # -- main recursive production -------------------------------------------------------------------------------
    def expr(self, shape, d):
        shape = tuple(shape)
        ast = self._expr(shape, d)
        ast = self.fix(ast)
        got = set(np.shape(v) for v in self.vals(ast))
        if got != {shape}:
            raise AssertionError(f"generator produced shape {got} instead of {shape}: {render(ast)}")
        return ast

    def _expr(self, shape, d):
        if d <= 0:
            return self.leaf(shape)
        prods = ['unary', 'unary', 'same', 'same', 'scalar', 'pw', 'leaf']
        size = int(np.prod(shape)) if shape else 1
        if not self.elementwise:
            if shape == ():
                prods += ['reduce', 'reduce', 'reduce']
                if self.linalg:
                    prods += ['vdot', 'vdot']
                if self.indexing and self.array_shapes():
                    prods += ['index0', 'index0']
            elif len(shape) == 1 and size > 1:
                if self.linalg:
                    prods += ['matvec', 'matvec', 'vecmat']
                    if any(shape[0] % k == 0 for k in (2, 3)) and shape[0] >= 4:
                        prods += ['kron']
                if self.indexing:
                    prods += ['slice', 'slice']
                if self.diff:
                    prods += ['diff']
            elif len(shape) == 1 and size == 1:
                if self.indexing and self.array_shapes():
                    prods += ['slice1']
            elif len(shape) == 2:
                prods += ['row']
                if self.linalg:
                    prods += ['outer', 'outer', 'matmat', 'tdot0']
        p = self.pick(prods)
        if p == 'leaf':
            return self.leaf(shape)
        if p == 'unary':
            f = self.pick(self.unary + ('neg',))
            e = self.expr(shape, d - 1)
            if f == 'neg':
                self.note('neg')
                return ['neg', e]
            return self.unary_node(f, e)
        if p == 'same':
            return self.binary_node(self.expr(shape, d - 1), self.expr(shape, d - 1))
        if p == 'scalar':
            s = self.scalarish(shape, d - 1)
            e = self.expr(shape, d - 1)
            return self.binary_node(e, s) if self.draw(self.st.booleans()) else self.binary_node(s, e)
        if p == 'pw':
            e = self.expr(shape, d - 1)
            n = self.pick([2, 3, 2, -1, -2])
            if n < 0:
                vs = self.vals(e)
                if not (self.local_ok and all(v.size > 0 and np.min(np.abs(v)) > 0.5 for v in vs) and self._same_sign(e)):
                    e = ['b', '+', ['c', 2.0], ['u', 'cos', e]]
            self.note('intpow')
            return ['pw', e, n]
        if p == 'reduce':
            f = self.pick(self.reductions) if self.reductions else None
            if f is None:
                return self.leaf(shape)
            src = self.pick(self.array_shapes() or [(2,)])
            e = self.expr(src, d - 1)
            if f in ('max', 'min'):
                vs = self.vals(e)
                ok = self.local_ok
                for v in vs:
                    srt = np.sort(v.ravel())
                    gap = (srt[-1] - srt[-2]) if f == 'max' else (srt[1] - srt[0])
                    ok = ok and v.size >= 2 and gap > KINK
                arg = [int(np.argmax(v)) if f == 'max' else int(np.argmin(v)) for v in vs]
                if not ok or len(set(arg)) != 1:
                    self.note('minmax-fallback')
                    f = 'sum'
            if f == 'prod' and int(np.prod(src)) > 4:
                e = ['b', '+', ['c', 1.0], ['b', '*', ['c', 0.1], self.bounded(e, 3.0)]]
            self.note(f)
            return ['r', f, e]
        if p == 'vdot':
            n = self.pick([s[0] for s in self.array_shapes() if len(s) == 1] or [2, 3])
            f = self.pick([x for x in ('dot', 'inner', 'matmul') if x in self.linalg_names] + ['tensordot2'])
            if f == 'tensordot2':
                if 'tensordot' not in self.linalg_names:
                    return self.leaf(shape)
                mats = [s for s in self.array_shapes() if len(s) == 2] or [(2, 2)]
                s2 = self.pick(mats)
                self.note('tensordot')
                return ['l', 'tensordot', self.expr(s2, d - 1), self.expr(s2, d - 1)]
            self.note(f)
            return ['l', f, self.expr((n,), d - 1), self.expr((n,), d - 1)]
        if p == 'index0':
            src = self.pick(self.array_shapes())
            e = self.expr(src, min(d - 1, 1))
            spec = [self.draw(self.st.integers(-k, k - 1)) for k in src]
            self.note('index')
            return ['ix', e, spec]
        if p == 'slice1':
            src = self.pick([s for s in self.array_shapes() if len(s) == 1] or [(3,)])
            e = self.expr(src, min(d - 1, 1))
            i = self.draw(self.st.integers(0, src[0] - 1))
            self.note('index')
            return ['ix', e, [[i, i + 1, None]]]
        if p in ('matvec', 'vecmat'):
            n = shape[0]
            ks = [s for s in self.array_shapes() if len(s) == 2 and (s[0] == n if p == 'matvec' else s[1] == n)]
            k = (self.pick(ks)[1] if p == 'matvec' else self.pick(ks)[0]) if ks else self.pick([2, 3])
            if p == 'matvec':
                f = self.pick([x for x in ('dot', 'matmul', 'inner') if x in self.linalg_names] + ['tensordot1'])
                M, v = self.expr((n, k), d - 1), self.expr((k,), d - 1)
                if f == 'tensordot1':
                    if 'tensordot' not in self.linalg_names:
                        return self.leaf(shape)
                    self.note('tensordot')
                    return ['l', 'tensordot', M, v, 1]
                self.note(f)
                return ['l', f, M, v]
            f = self.pick([x for x in ('dot', 'matmul') if x in self.linalg_names] or ['dot'])
            self.note(f)
            return ['l', f, self.expr((k,), d - 1), self.expr((k, n), d - 1)]
        if p == 'kron':
            a = self.pick([k for k in (2, 3) if shape[0] % k == 0 and shape[0] // k > 1])
            if 'kron' not in self.linalg_names:
                return self.leaf(shape)
            self.note('kron')
            return ['l', 'kron', self.expr((a,), d - 1), self.expr((shape[0] // a,), d - 1)]
        if p == 'slice':
            n = shape[0]
            cands = []
            for s in self.array_shapes():
                if len(s) == 1 and s[0] >= n:
                    cands.append(('vec', s))
                if len(s) == 2 and s[1] == n:
                    cands.append(('rowof', s))
                if len(s) == 2 and s[0] == n:
                    cands.append(('colof', s))
            if not cands:
                return self.leaf(shape)
            kind, s = self.pick(cands)
            e = self.expr(s, min(d - 1, 1))
            self.note('index')
            if kind == 'vec':
                if s[0] == n:
                    return ['ix', e, [[None, None, -1]]]
                a = self.draw(self.st.integers(0, s[0] - n))
                return ['ix', e, [[a, a + n, None]]]
            if kind == 'rowof':
                return ['ix', e, [self.draw(self.st.integers(-s[0], s[0] - 1))]]
            return ['ix', e, [[None, None, None], self.draw(self.st.integers(-s[1], s[1] - 1))]]
        if p == 'diff':
            self.note('diff')
            return ['df', self.expr((shape[0] + 1,), d - 1)]
        if p == 'row':
            return self.binary_node(self.expr(shape, d - 1), self.expr((shape[1],), d - 1))
        if p == 'outer':
            if 'outer' not in self.linalg_names:
                return self.leaf(shape)
            self.note('outer')
            return ['l', 'outer', self.expr((shape[0],), d - 1), self.expr((shape[1],), d - 1)]
        if p == 'tdot0':
            if 'tensordot' not in self.linalg_names:
                return self.leaf(shape)
            self.note('tensordot')
            return ['l', 'tensordot', self.expr((shape[0],), d - 1), self.expr((shape[1],), d - 1), 0]
        if p == 'matmat':
            k = self.pick([2, 3])
            f = self.pick([x for x in ('dot', 'matmul') if x in self.linalg_names] or ['dot'])
            self.note(f)
            return ['l', f, self.expr((shape[0], k), d - 1), self.expr((k, shape[1]), d - 1)]
        raise ValueError(p)

    def scalarish(self, shape, d):
        """Something that broadcasts against `shape` without changing it."""
        opts = ['const']
        if shape != () and self.vars_of_shape((1,)):
            opts += ['one', 'one']
        if not self.elementwise:
            opts += ['expr0', 'expr0']
        elif self.vars_of_shape(()):
            opts += ['var0', 'var0']
        o = self.pick(opts)
        if o == 'const':
            return self.const()
        if o == 'one':
            return ['v', self.pick(self.vars_of_shape((1,)))]
        if o == 'var0':
            return ['v', self.pick(self.vars_of_shape(()))]
        return self.expr((), d)
