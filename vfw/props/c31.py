"""C31  Evaluations are deterministic and derivative queries are read-only.

Oracle : invariant over a history - every query operation must leave the root input and output vectors bitwise unchanged;
         a twin problem that executes only the state-changing operations of the same history must end in bitwise the same
         outputs (determinism + no hidden state leaking from queries into later evaluations); the final totals of both
         must agree.
"""
import numpy as np

from vfw import core
from vfw.core import Result

ID = 'C31'
LEVEL = 'exploration'
TECHNIQUE = 'Hypothesis-generated API call histories on generated models; bitwise state invariant after every query + twin-problem differential'
RULE = ("case = model spec (see C01; solvers, implicit components, matrix-free and fd/cs-approximated components) + a history "
        "of 3-10 operations drawn from {run_model, set_val on an independent variable, compute_totals, "
        "compute_jacvec_product fwd/rev, check_partials(method, form), check_totals(method), run_linearize, list_inputs, "
        "list_outputs (with drawn options)}. Non-trivial = >=3 distinct query kinds between two run_model calls on a model "
        "with an iterating solver or an approximated partial. Distinct = distinct canonical JSON.")
ASSUMPTIONS = [
    "inputs and outputs (all systems, root vectors) are compared bitwise before/after each query; residuals are not judged "
    "(the property names inputs and outputs)",
    "the twin executes set_val/run_model only, in fresh objects inside the same process; equality of outputs is bitwise "
    "for run-once models and to solver tolerance (1e-9) for models with iterating solvers, whose linear solves are "
    "warm-started from linear vectors that queries legitimately use as work space",
    "an AnalysisError (non-convergence) discards the case",
]
MIN_CLASS_FRACTION = {'judged': 0.5}

QUERIES = ['totals', 'jvp_fwd', 'jvp_rev', 'check_partials', 'check_totals', 'linearize', 'list_inputs', 'list_outputs']


def _state(p):
    return p.model._inputs.asarray(copy=True), p.model._outputs.asarray(copy=True)


_EPS = float(np.finfo(float).eps)


def _state_unchanged(vec, a, b):
    """True when the stored vector is unchanged.  Vectors of a model with scaling are stored normalized and every
    query converts them to physical values and back ((v*a0 + a1) - a1)/a0, which is exact only to round-off:
    there 'unchanged' means within 16*eps*(|v| + |a1/a0|) per entry (4 round trips of the 4-operation bound);
    unscaled vectors must be bitwise equal."""
    if a.shape != b.shape:
        return False, False
    if np.array_equal(a, b):
        return True, False
    sc = getattr(vec, '_scaling', None)
    if not sc or sc[0] is None:
        return False, False
    a0 = np.asarray(sc[0], dtype=float)
    a1 = np.zeros_like(a0) if sc[1] is None else np.asarray(sc[1], dtype=float)
    if a0.shape != a.shape or (np.all(a0 == 1.0) and not np.any(a1)):
        return False, False
    bound = 16 * _EPS * (np.abs(a) + np.abs(a1 / a0))
    return bool(np.all(np.abs(a - b) <= bound)), True


def _apply_state_op(p, op, ref):
    from vfw.props.c02 import _seed
    if op['op'] == 'run_model':
        p.run_model()
    elif op['op'] == 'set_val':
        names = sorted(ref.xvars)
        n = names[op['var'] % len(names)]
        m = ref.xvars[n]
        p.set_val(n, (_seed(op['vals'], m['size']) * 2.0).reshape(m['shape']))


def check(case):
    import openmdao.api as om
    from vfw.gen_model import build_problem
    from vfw.refmodel import RefModel
    from vfw.props.c01 import spec_flags
    from vfw.props.c02 import _seed
    spec = case['spec']
    q = case['query']
    res = Result()
    flags = spec_flags(spec)
    cls = sorted(flags)
    ref = RefModel(spec)
    try:
        p, _ = build_problem(spec, mode=case.get('mode', 'auto'), force_alloc_complex=True)
        p.final_setup()
        p.run_model()
        t, _ = build_problem(spec, mode=case.get('mode', 'auto'), force_alloc_complex=True)
        t.final_setup()
        t.run_model()
    except om.AnalysisError:
        res.discard = 'nonconverged'
        res.classes = cls + ['nonconverged']
        return res
    except Exception as e:
        sig = core.repo_frame_signature(e, 'setup-or-run')
        if sig is None:
            raise
        res.fail(sig, f"{type(e).__name__}: {e}")
        res.classes = cls
        return res
    if not np.array_equal(p.model._outputs.asarray(), t.model._outputs.asarray()):
        res.fail('determinism:two-fresh-problems-differ-after-run_model', 'outputs differ bitwise')
    kinds_between = set()
    max_kinds = 0
    roundoff_drift = False
    iterating = any(g.get('nl') not in (None, 'runonce') for g in spec['groups'].values()) or \
        any(c.get('self_solve') == 'solvers' for c in spec['comps'])
    for i, op in enumerate(case['ops']):
        name = op['op']
        try:
            if name in ('run_model', 'set_val'):
                if name == 'run_model':
                    max_kinds = max(max_kinds, len(kinds_between))
                    kinds_between = set()
                _apply_state_op(p, op, ref)
                _apply_state_op(t, op, ref)
                if name == 'run_model':
                    a, b = p.model._outputs.asarray(), t.model._outputs.asarray()
                    # iterative solvers warm-start their linear solves from the linear vectors, which queries
                    # legitimately use as work space: agreement to solver tolerance there, bitwise otherwise
                    # (the same tolerance once a scaled vector has gone through a normalize/physical round trip
                    # that the twin has not, see _state_unchanged)
                    same = np.allclose(a, b, rtol=1e-9, atol=1e-12) if (iterating or roundoff_drift) else np.array_equal(a, b)
                    if not same:
                        j = int(np.argmax(a != b))
                        res.fail('leak:run_model-after-queries-differs-from-twin',
                                 f"op {i}: outputs differ bitwise from the twin that ran no queries: {a[j]!r} vs {b[j]!r}")
                continue
            kinds_between.add(name)
            before = _state(p)
            if name == 'totals':
                p.compute_totals(of=q['of'], wrt=q['wrt'], return_format=op.get('fmt', 'array'))
            elif name in ('jvp_fwd', 'jvp_rev'):
                p.model.run_linearize()
                mode = 'fwd' if name == 'jvp_fwd' else 'rev'
                names = q['wrt'] if mode == 'fwd' else q['of']
                seeds = []
                for n in names:
                    _, pos, m = ref.var_positions(n)
                    seeds.append(_seed(op.get('vals', [1]), len(pos)).reshape(m['shape']))
                p.compute_jacvec_product(q['of'], q['wrt'], mode, seeds)
            elif name == 'check_partials':
                kw = {'out_stream': None, 'method': op.get('method', 'fd')}
                if kw['method'] == 'fd':
                    kw['form'] = op.get('form', 'forward')
                p.check_partials(**kw)
            elif name == 'check_totals':
                p.check_totals(of=q['of'], wrt=q['wrt'], out_stream=None, method=op.get('method', 'fd'))
            elif name == 'linearize':
                p.model.run_linearize()
            elif name == 'list_inputs':
                p.model.list_inputs(out_stream=None, units=True, shape=True, prom_name=bool(op.get('flag')), hierarchical=not op.get('flag'))
            elif name == 'list_outputs':
                p.model.list_outputs(out_stream=None, residuals=True, bounds=True, scaling=bool(op.get('flag')), explicit=True, implicit=True)
        except om.AnalysisError:
            res.discard = 'nonconverged'
            res.classes = cls + ['nonconverged']
            return res
        except Exception as e:
            sig = core.repo_frame_signature(e, 'op-' + name)
            if sig is None:
                raise
            res.fail(sig, f"op {i} {name}: {type(e).__name__}: {e}")
            break
        after = _state(p)
        for lab, vec, a, b in (('inputs', p.model._inputs, before[0], after[0]), ('outputs', p.model._outputs, before[1], after[1])):
            same, drift = _state_unchanged(vec, a, b)
            if drift:
                roundoff_drift = True
            if not same:
                j = int(np.argmax(a != b)) if a.shape == b.shape else -1
                res.fail(f"state-changed:{name}:{lab}", f"op {i} {name}: {lab}[{j}] {a[j]!r} -> {b[j]!r}")
    max_kinds = max(max_kinds, len(kinds_between))
    # final totals agree with the twin
    try:
        Jp = np.asarray(p.compute_totals(of=q['of'], wrt=q['wrt'], return_format='array'))
        Jt = np.asarray(t.compute_totals(of=q['of'], wrt=q['wrt'], return_format='array'))
        if Jp.shape != Jt.shape or not np.allclose(Jp, Jt, rtol=1e-9, atol=1e-11):
            res.fail('leak:final-totals-differ-from-twin', f"{Jp.tolist()} vs {Jt.tolist()}")
    except om.AnalysisError:
        pass
    except Exception as e:
        sig = core.repo_frame_signature(e, 'final-totals')
        if sig is None:
            raise
        res.fail(sig, f"compute_totals after the history raises {type(e).__name__}: {e}")
    solver = any(g.get('nl') not in (None, 'runonce') for g in spec['groups'].values())
    res.nontrivial = max_kinds >= 3 and (solver or 'matfree' in flags)
    res.classes = cls + ['judged'] + (['scaled-vector-roundoff-drift'] if roundoff_drift else []) + [f"op_{o['op']}" for o in case['ops']]
    return res


def strategy(tier):
    from hypothesis import strategies as st
    from vfw.gen_spec import model_spec, profile

    @st.composite
    def case(draw):
        spec = draw(model_spec(profile(max_comps=4, p_feedback=0.5, out_scaling=draw(st.booleans()), auto_ivc=0.1, promotions=0.2)))
        outs = ['.'.join(c['path'] + [c['name'], v['name']]) for c in spec['comps'] if c['kind'] != 'ivc' for v in c['outputs']]
        ins = ['.'.join(c['path'] + [c['name'], v['name']]) for c in spec['comps'] if c['kind'] == 'ivc' for v in c['outputs']]
        of = draw(st.lists(st.sampled_from(outs), min_size=1, max_size=2, unique=True))
        wrt = draw(st.lists(st.sampled_from(ins), min_size=1, max_size=2, unique=True))
        sv = st.lists(st.integers(-8, 8), min_size=2, max_size=6)

        def an_op():
            name = draw(st.sampled_from(['run_model', 'set_val'] + QUERIES + QUERIES))
            op = {'op': name}
            if name in ('set_val', 'jvp_fwd', 'jvp_rev'):
                op['vals'] = draw(sv)
                op['var'] = draw(st.integers(0, 5))
            if name in ('check_partials', 'check_totals'):
                op['method'] = draw(st.sampled_from(['fd', 'cs']))
                op['form'] = draw(st.sampled_from(['forward', 'central', 'backward']))
            if name == 'totals':
                op['fmt'] = draw(st.sampled_from(['array', 'dict', 'flat_dict']))
            if name.startswith('list_'):
                op['flag'] = draw(st.booleans())
            return op
        ops = [an_op() for _ in range(draw(st.integers(3, 10)))]
        return {'spec': spec, 'query': {'of': of, 'wrt': wrt}, 'ops': ops, 'mode': draw(st.sampled_from(['auto', 'rev']))}
    return case()


def units(tier, seed):
    n = 16 if tier == 'quick' else 32
    per = 25 if tier == 'quick' else 350
    return [{'kind': 'random', 'n': per, 'seed': core.shard_seed(seed, ID, i)} for i in range(n)]


def run_unit(unit, ctx):
    core.run_hypothesis(ctx, strategy(unit.get('tier')), check, unit['n'], unit['seed'], shrink=unit.get('tier') == 'thorough')
