"""C34  Function-based and jax components compute their functions and exact partials.

Domain : generated expression ASTs (vfw/c14_expr.py) rendered as Python source (registered in linecache so that
         inspect.getsource works) and wrapped as
           efc  ExplicitFuncComp(omf.wrap(f).declare_partials(method=cs|fd|jax)[.declare_coloring])
           ifc  ImplicitFuncComp (residual c*s - g(x, s), c chosen for diagonal dominance; Newton + DirectSolver on the comp)
           jex  JaxExplicitComponent subclass (compute_primal, optional static option via get_self_statics, matrix_free)
           jim  JaxImplicitComponent subclass
         x shapes ((), (n,), (m,n); several outputs / states) x use_jit x coloring x problem mode fwd|rev.
Oracle : outputs / residuals == NumPy interpretation of the AST; totals == own AST differentiator (explicit: dF/dx; implicit:
         -(dR/ds)^-1 dR/dx at the converged state); hence colored == uncolored and fwd == rev.
"""
import linecache

import numpy as np

from vfw import core
from vfw.core import Result
from vfw import c14_expr as X

ID = 'C34'
LEVEL = 'exploration'
TECHNIQUE = ('Hypothesis-generated expression ASTs rendered as function / compute_primal source; NumPy interpreter and own '
             'symbolic differentiator of the AST as oracle; implicit-function theorem for implicit components')
RULE = ("case = one component of kind efc|ifc|jex|jim built from 1-3 generated expressions (AST depth 1-4, elementwise "
        "functions, powers, arctan2/max/min, reductions, dot/inner/outer/matmul/kron/tensordot, indexing, diff, array "
        "creation) over 1-3 inputs (and 1-2 states) of shapes (), (n,), (m,n), with method cs|fd|jax, coloring on/off, "
        "use_jit on/off, matrix_free (jax comps), a static option that changes between the two evaluations (jax comps), "
        "function defaults vs add_input metadata, argument order (states interleaved with inputs), problem mode fwd|rev; "
        "evaluated at two input points. Non-trivial = >= 2 inputs (or input+state), an array-valued output, AST depth >= 2. "
        "Distinct = distinct canonical JSON.")
ASSUMPTIONS = [
    "NumPy applied node by node to the AST is the specification of the function (1e-13 * (|ref| + largest intermediate)); jax "
    "evaluates the same float64 operations through XLA, whose elementary functions may differ by a few ulp",
    "derivative tolerance: cs/jax 1e-9 * (|ref| + T_row) (T = absolute-mode chain-rule term size); fd (central, step 1e-6) "
    "1e-5 * (|ref| + T_row + 1); implicit totals 1e-8 * (1 + cond(dR/ds)) relative to the largest entry (fd: 1e-4)",
    "method='cs' functions must be complex-safe: np.abs and np.arctan2 are excluded there (documented requirement of complex step)",
    "explicit components: abs/max/min/raw division only where the argument is > 0.1 (0.5) away from the kink at both points; "
    "implicit components: only globally valid constructs because Newton moves the state; a Newton run that does not reach "
    "|R| <= 1e-9 is a discard, not a violation",
    "the sparsity used by a coloring is computed at the first linearization point: the second point is judged only when all "
    "of its nonzero entries are detectable at the first point (same rule as C14)",
    "dynamic coloring perturbs inputs with numpy's global RNG: seeded from the case",
]
MIN_CLASS_FRACTION = {'efc': 0.15, 'ifc': 0.1, 'jex': 0.08, 'jim': 0.05, 'method_jax': 0.1, 'coloring_requested': 0.1}
UNIT_TIMEOUT = {'quick': 2400, 'thorough': 14400}

NAMES = ['a', 'b', 'c', 'd', 'g', 'h', 'p', 'q', 'u', 'v', 'w', 'x', 'y', 'z', 'x1', 'y_2', 'Ab']
NICE = [0.0, 0.5, -0.75, 1.0, 2.5, -3.0, 1.75, 0.3, -1.2, 2.0, 0.9, -0.4, 1.5, -2.25, 0.125]
UNARY_BASE = ('sin', 'cos', 'tan', 'arcsin', 'arccos', 'arctan', 'sinh', 'cosh', 'tanh', 'arcsinh', 'arccosh',
              'exp', 'expm1', 'log', 'log10', 'log1p')
F2_BASE = ('maximum', 'minimum', 'fmax', 'fmin', 'power')
KINK_FNS = {'abs', 'maximum', 'minimum', 'fmax', 'fmin', 'max', 'min', '/raw', 'arctan2-raw'}


# ---------------------------------------------------------------------------------------------------------------
# known findings (predicates over the input)
# ---------------------------------------------------------------------------------------------------------------

def _size(shape):
    return int(np.prod(shape)) if len(shape) else 1


def known_state_scalar_val(case):
    """F-C34-1: ImplicitFuncComp, method='jax', a state of size > 1 declared as add_output(shape=..., val=<scalar>)."""
    return case['kind'] == 'ifc' and case['method'] == 'jax' and \
        any(s.get('scalar_val') and _size(s['shape']) > 1 for s in case['states'])


def known_ifc_coloring_direction(case):
    """F-C34-2: ImplicitFuncComp, method='jax', declare_coloring, and the problem mode differs from the direction the
    partial coloring is computed in (best_partial_deriv_direction: fwd iff total output size >= total input size)."""
    if not (case['kind'] == 'ifc' and case['method'] == 'jax' and case.get('coloring')):
        return False
    nout = sum(_size(s['shape']) for s in case['states'])
    nin = sum(_size(i['shape']) for i in case['ins'])
    best = 'fwd' if nout >= nin else 'rev'
    return best != case['mode']


def known_jim_coloring(case):
    """F-C34-3: JaxImplicitComponent with declare_coloring (not matrix_free)."""
    return case['kind'] == 'jim' and bool(case.get('coloring')) and not case.get('matrix_free')


def known_state_order(case):
    """F-C34-4: ImplicitFuncComp whose state arguments appear in the function signature in another relative order than
    their residuals appear in the return statement."""
    if case['kind'] != 'ifc':
        return False
    sn = [s['name'] for s in case['states']]
    return [n for n in case['argorder'] if n in sn] != sn


def known_single_arg_jax_fwd(case):
    """F-C34-5: ExplicitFuncComp, method='jax', exactly one differentiable argument, partials computed in forward
    direction (best_partial_deriv_direction: total output size >= total input size)."""
    if not (case['kind'] == 'efc' and case['method'] == 'jax' and len(case['ins']) == 1):
        return False
    return sum(_size(o['shape']) for o in case['outs']) >= _size(case['ins'][0]['shape'])


def prefix(case):
    if known_state_order(case):
        return 'F-C34-4|'
    if known_single_arg_jax_fwd(case):
        return 'F-C34-5|'
    if known_state_scalar_val(case):
        return 'F-C34-1|'
    if known_ifc_coloring_direction(case):
        return 'F-C34-2|'
    if known_jim_coloring(case):
        return 'F-C34-3|'
    return ''


# ---------------------------------------------------------------------------------------------------------------
# source generation
# ---------------------------------------------------------------------------------------------------------------

def _shape_txt(shape):
    shape = tuple(shape)
    return '(' + ', '.join(str(int(v)) for v in shape) + (',)' if len(shape) == 1 else ')')


def source(case):
    kind = case['kind']
    names = {'kst': "self.options['kst']"} if case.get('static') else None
    if kind in ('efc', 'ifc'):
        args = []
        byname = {v['name']: v for v in case['ins'] + case.get('states', [])}
        for n in case['argorder']:
            v = byname[n]
            if case.get('defaults') and v in case['ins']:
                shp = tuple(v['shape'])
                args.append(f"{n}=np.ones({_shape_txt(shp)})" if shp else f"{n}=1.0")
            else:
                args.append(n)
        lines = [f"def func({', '.join(args)}):"]
        rets = []
        for o in case['outs']:
            lines.append(f"    {o['name']} = {X.render(o['ast'], 'np')}")
            rets.append(o['name'])
        lines.append("    return " + ', '.join(rets))
        return '\n'.join(lines) + '\n'
    base = 'om.JaxExplicitComponent' if kind == 'jex' else 'om.JaxImplicitComponent'
    lines = [f"class Comp({base}):"]
    if case.get('static'):
        lines += ["    def initialize(self):",
                  f"        self.options.declare('kst', types=float, default={float(case['static'][0])!r})"]
    lines.append("    def setup(self):")
    for i in case['ins']:
        if i.get('by_val') and len(i['shape']) > 0:     # a 0-d value means shape (1,) to OpenMDAO: declare () by shape
            lines.append(f"        self.add_input('{i['name']}', val=np.ones({_shape_txt(i['shape'])}))")
        else:
            lines.append(f"        self.add_input('{i['name']}', shape={_shape_txt(i['shape'])})")
    if kind == 'jex':
        for o in case['outs']:
            lines.append(f"        self.add_output('{o['name']}', shape={_shape_txt(o['shape'])})")
    else:
        for s in case['states']:
            if len(s['shape']) == 0:
                lines.append(f"        self.add_output('{s['name']}', shape=(), val={float(s['val'][0])!r})")
            else:
                lines.append(f"        self.add_output('{s['name']}', val=np.array({s['val']!r}, dtype=float).reshape({_shape_txt(s['shape'])}))")
    if case.get('decl') == 'all':
        lines.append("        self.declare_partials('*', '*')")
    if case.get('coloring'):
        lines.append("        self.declare_coloring(show_summary=False)")
    if case.get('static'):
        lines += ["    def get_self_statics(self):", "        return (self.options['kst'],)"]
    lines.append(f"    def compute_primal(self, {', '.join(case['argorder'])}):")
    if kind == 'jex':
        for o in case['outs']:
            lines.append(f"        {o['name']} = {X.render(o['ast'], 'jnp', names)}")
        lines.append("        return " + ', '.join(o['name'] for o in case['outs']))
    else:
        lines.append("        return " + ', '.join(X.render(o['ast'], 'jnp', names) for o in case['outs']))
    return '\n'.join(lines) + '\n'


def _materialize(src, name, fname):
    import openmdao.api as om
    linecache.cache[fname] = (len(src), None, src.splitlines(True), fname)
    g = {'np': np, 'om': om}
    if 'jnp.' in src or 'erf' in src:
        import jax.numpy as jnp
        from jax.scipy.special import erf, erfc
        g.update(jnp=jnp, erf=erf, erfc=erfc)
    exec(compile(src, fname, 'exec'), g)
    return g[name]


def build(case, fname):
    import openmdao.api as om
    import openmdao.func_api as omf
    kind = case['kind']
    p = om.Problem(reports=False)
    ivc = p.model.add_subsystem('iv', om.IndepVarComp())
    for i in case['ins']:
        ivc.add_output(i['name'], val=np.array(i['val'], dtype=float).reshape(i['shape']))
    obj = _materialize(source(case), 'func' if kind in ('efc', 'ifc') else 'Comp', fname)
    if kind in ('efc', 'ifc'):
        w = omf.wrap(obj)
        m = case['method']
        pk = {'method': m}
        if m == 'fd':
            pk.update(form='central', step=1e-6)
        if not case.get('defaults'):
            for i in case['ins']:
                w.add_input(i['name'], shape=tuple(i['shape']))
        if kind == 'efc':
            for o in case['outs']:
                if case.get('out_shapes', True) or m != 'jax':
                    w.add_output(o['name'], shape=tuple(o['shape']))
        else:
            for s, o in zip(case['states'], case['outs']):
                if s.get('scalar_val'):
                    w.add_output(s['name'], resid=o['name'], shape=tuple(s['shape']), val=float(s['val'][0]))
                else:
                    w.add_output(s['name'], resid=o['name'], val=np.array(s['val'], dtype=float).reshape(s['shape']))
        if case.get('decl') == 'pairs' and kind == 'efc':
            for o in case['outs']:
                deps = [n for n in X.variables(o['ast']) if n in {i['name'] for i in case['ins']}]
                if deps:
                    w.declare_partials(of=o['name'], wrt=deps, **pk)
        else:
            w.declare_partials(of='*', wrt='*', **pk)
        if case.get('coloring'):
            ck = {'method': m, 'show_summary': False}
            if m == 'fd':
                ck.update(form='central', step=1e-6)
            w.declare_coloring(wrt='*', **ck)
        cls = om.ExplicitFuncComp if kind == 'efc' else om.ImplicitFuncComp
        comp = cls(w, use_jit=bool(case.get('use_jit', True)))
    else:
        comp = obj(use_jit=bool(case.get('use_jit', True)), matrix_free=bool(case.get('matrix_free')))
    p.model.add_subsystem('c', comp)
    if kind in ('ifc', 'jim'):
        comp.nonlinear_solver = om.NewtonSolver(solve_subsystems=False, maxiter=60, atol=1e-14, rtol=1e-14, iprint=-1,
                                                err_on_non_converge=False)
        if case.get('matrix_free'):
            comp.linear_solver = om.ScipyKrylov(atol=1e-15, rtol=1e-15, maxiter=200, iprint=-1)
        else:
            comp.linear_solver = om.DirectSolver()
    for i in case['ins']:
        p.model.connect('iv.' + i['name'], 'c.' + i['name'])
    p.setup(mode=case['mode'], force_alloc_complex=True)
    return p


# ---------------------------------------------------------------------------------------------------------------
# oracle
# ---------------------------------------------------------------------------------------------------------------

def _env(case, point, states=None):
    env = {}
    for i in case['ins']:
        env[i['name']] = np.array(i['val'] if point == 0 else i['val2'], dtype=float).reshape(i['shape'])
    for s in case.get('states', []):
        env[s['name']] = np.array(s['val'], dtype=float).reshape(s['shape'])
    if states:
        env.update(states)
    if case.get('static'):
        env['kst'] = np.float64(case['static'][point])
    return env


def _thresh(case):
    """Relative size below which an entry may be missed by the sparsity detection of a dynamic coloring: jax components
    differentiate exactly (any nonzero is seen); function components compute the sparsity through the framework's
    approximation code, which uses FORWARD FINITE DIFFERENCES there (System.compute_sparsity falls back to
    options['derivs_method'] or 'fd' while no coloring exists yet), i.e. round-off noise of about 1e-10 relative."""
    return 1e-22 if case['kind'] in ('jex', 'jim') else 1e-6


def _detectable(case, wrt, env0, J1s, thresh=1e-22, weak_out=None):
    """Rule for colored configurations (see C14): every entry that is nonzero at the judged point must be detectable
    at the point where the sparsity was computed (the first linearization point, inputs/states perturbed by 1e-9)."""
    envp = {}
    for k, (n, v) in enumerate(sorted(env0.items())):
        v = np.asarray(v, dtype=float)
        if n in wrt:
            idx = np.arange(v.size).reshape(v.shape)
            s_ = 1e-9 * (0.5 + 0.5 * np.abs(np.sin(idx + 1.0 + k))) * np.where(idx % 2 == 0, 1.0, -1.0)
            envp[n] = np.where(v == 0.0, s_, v * (1.0 + s_))
        else:
            envp[n] = v
    Jp = [X.jac(o['ast'], envp, wrt)[1] for o in case['outs']]
    gmax = max([float(np.max(np.abs(J[n]), initial=0.0)) for J in Jp for n in wrt] + [0.0])
    if weak_out is not None:
        # entries the sparsity pass cannot tell from structural zeros: they may be reported as exactly 0
        for k, J in enumerate(Jp):
            for n in wrt:
                weak_out[k, n] = np.abs(J[n]) <= thresh * gmax
    for J, J1 in zip(Jp, J1s):
        for n in wrt:
            if np.any((np.abs(J[n]) <= thresh * gmax) & (np.abs(J1[n]) > 0.0)):
                return False
    return True


def _ref_explicit(case, point, wrt):
    env = _env(case, point)
    out = []
    for o in case['outs']:
        val, J = X.jac(o['ast'], env, wrt)
        _, T = X.jac(o['ast'], env, wrt, am=True)
        if not np.all(np.isfinite(val)):
            raise AssertionError(f"harness: generated expression is not finite: {X.render(o['ast'])}")
        Trow = np.zeros(val.size)
        for n in wrt:
            if T[n].size:
                Trow = np.maximum(Trow, T[n].max(axis=1))
        out.append((val, J, Trow, X.max_node_magnitude(o['ast'], env)))
    return out


def check(case):
    res = Result()
    kind = case['kind']
    implicit = kind in ('ifc', 'jim')
    method = case.get('method', 'jax')
    cls = [kind, 'method_' + method, 'mode_' + case['mode']]
    if case.get('coloring'):
        cls.append('coloring_requested')
    if case.get('use_jit', True) and method == 'jax':
        cls.append('jit')
    if case.get('matrix_free'):
        cls.append('matrix_free')
    if case.get('static'):
        cls.append('static_option')
    if case.get('defaults'):
        cls.append('arg_defaults')
    used = set()
    for o in case['outs']:
        used |= set(o.get('used', []))
    if used & KINK_FNS:
        cls.append('kink_fn')
    if used & {'dot', 'inner', 'outer', 'matmul', 'kron', 'tensordot'}:
        cls.append('linalg')
    shapes = [tuple(v['shape']) for v in case['ins'] + case.get('states', [])] + [tuple(o['shape']) for o in case['outs']]
    if any(len(s) == 2 for s in shapes):
        cls.append('matrix')
    if any(len(s) == 0 for s in shapes):
        cls.append('scalar0d')
    pre = prefix(case)
    fname = f"<c34-{core.case_hash(case)}>"
    np.random.seed(case.get('npseed', 0))
    try:
        ok = _check_implicit(case, res, pre, cls, fname) if implicit else _check_explicit(case, res, pre, cls, fname)
    finally:
        linecache.cache.pop(fname, None)
        _bound_memory()
    if not ok:
        return res
    nvars = len(case['ins']) + len(case.get('states', []))
    res.nontrivial = nvars >= 2 and any(_size(o['shape']) > 1 and X.depth(o['ast']) >= 2 for o in case['outs'])
    res.classes = cls + ['judged']
    return res


_NCALLS = [0]


def _bound_memory():
    """Compiled jax executables accumulate per process: drop them every 60 cases (does not affect any verdict)."""
    import sys
    _NCALLS[0] += 1
    if _NCALLS[0] % 60 == 0 and 'jax' in sys.modules:
        import gc
        import jax
        jax.clear_caches()
        gc.collect()


def _raised(case, res, pre, cls, e, where):
    sig = core.repo_frame_signature(e, 'comp')
    if sig is None:
        import traceback
        tb = traceback.extract_tb(e.__traceback__)
        if any('/jax' in fr.filename or 'scipy' in fr.filename for fr in tb) and any('/openmdao/' in fr.filename for fr in tb):
            sig = f"comp:{type(e).__name__}@third-party-under-openmdao"
        else:
            raise e
    if pre:
        sig = f"{pre}raises"
    res.fail(sig, f"{where}: {type(e).__name__}: {str(e)[:600]}")
    res.classes = cls + ['raised']
    return False


def _tols(case, r, Trow):
    if case.get('method') == 'fd':
        return 1e-5 * (np.abs(r) + Trow[:, None] + 1.0)
    return 1e-9 * (np.abs(r) + Trow[:, None]) + 1e-15


def _check_explicit(case, res, pre, cls, fname):
    wrt = [i['name'] for i in case['ins']]
    refs = [_ref_explicit(case, 0, wrt), _ref_explicit(case, 1, wrt)]
    judge_second = True
    weak = {}
    if case.get('coloring') and not case.get('matrix_free'):
        judge_second = _detectable(case, wrt, _env(case, 0), [r[1] for r in refs[1]], _thresh(case), weak_out=weak)
        if not judge_second:
            cls.append('second_point_sparsity_not_detectable')
    try:
        p = build(case, fname)
        for point in (0, 1):
            if point == 1:
                for i in case['ins']:
                    p.set_val('iv.' + i['name'], np.array(i['val2'], dtype=float).reshape(i['shape']))
                if case.get('static'):
                    p.model.c.options['kst'] = float(case['static'][1])
            p.run_model()
            outs = [np.array(p.get_val('c.' + o['name'])) for o in case['outs']]
            tot = p.compute_totals(of=['c.' + o['name'] for o in case['outs']], wrt=['iv.' + n for n in wrt])
            if point == 0 and p.model.c._coloring_info.coloring is not None:
                cls.append('colored')
            for ko, (o, got, (val, J, Trow, M)) in enumerate(zip(case['outs'], outs, refs[point])):
                want = tuple(o['shape'])
                if tuple(got.shape) != want:
                    res.fail(pre + 'output-shape', f"{o['name']}: shape {got.shape} expected {want}")
                    continue
                bad = ~(np.abs(got - val) <= 1e-13 * (np.abs(val) + M))
                if np.any(bad):
                    k = tuple(np.argwhere(bad)[0])
                    res.fail(pre + 'output-value', f"point {point}: {o['name']}{k} = {got[k]!r} expected {np.asarray(val)[k]!r} "
                             f"for {X.render(o['ast'], 'np')}")
                if point == 1 and not judge_second:
                    continue
                for n in wrt:
                    g = np.asarray(tot['c.' + o['name'], 'iv.' + n], dtype=float)
                    r = J[n]
                    if g.shape != r.shape:
                        res.fail(pre + 'partial-shape', f"d{o['name']}/d{n}: shape {g.shape} expected {r.shape}")
                        continue
                    tol = _tols(case, r, Trow)
                    bad = ~(np.abs(g - r) <= tol)
                    wk = weak.get((ko, n))
                    if wk is not None and np.shape(wk) == g.shape:
                        bad = bad & ~(wk & (g == 0.0))
                    if np.any(bad):
                        a, b = np.argwhere(bad)[0]
                        X.fd_verify(o['ast'], _env(case, point), n, r)
                        tag = case['kind'] + ':' + case.get('method', 'jax') + (':colored' if case.get('coloring') else '') + \
                            (':matrix_free' if case.get('matrix_free') else '')
                        res.fail(pre + 'partial-value' + ('' if pre else ':' + tag), f"point {point}: d{o['name']}/d{n}[{a},{b}] = {g[a, b]!r} expected "
                                 f"{r[a, b]!r} (tol {tol[a, b]:.2e}) for {X.render(o['ast'], 'np')}")
    except Exception as e:
        return _raised(case, res, pre, cls, e, 'explicit')
    return True


def _check_implicit(case, res, pre, cls, fname):
    ins = [i['name'] for i in case['ins']]
    sts = [s['name'] for s in case['states']]
    fd = case.get('method') == 'fd'
    try:
        p = build(case, fname)
        p.final_setup()
        for point in (0, 1):
            for i in case['ins']:
                p.set_val('iv.' + i['name'], np.array(i['val'] if point == 0 else i['val2'], dtype=float).reshape(i['shape']))
            for s in case['states']:
                p.set_val('c.' + s['name'], np.array(s['val'], dtype=float).reshape(s['shape']))
            if case.get('static'):
                p.model.c.options['kst'] = float(case['static'][point])
            # (1) residuals at the drawn state
            p.model.run_apply_nonlinear()
            env = _env(case, point)
            for s, o in zip(case['states'], case['outs']):
                ref = np.asarray(X.ev(o['ast'], env), dtype=float)
                M = X.max_node_magnitude(o['ast'], env)
                got = np.array(p.model.c._residuals[s['name']])
                if got.shape != tuple(s['shape']):
                    res.fail(pre + 'residual-shape', f"{s['name']}: {got.shape} expected {tuple(s['shape'])}")
                    continue
                bad = ~(np.abs(got - ref) <= 1e-13 * (np.abs(ref) + M))
                if np.any(bad):
                    k = tuple(np.argwhere(bad)[0])
                    res.fail(pre + 'residual-value', f"point {point}: R_{s['name']}{k} = {got[k]!r} expected {ref[k]!r} for "
                             f"{X.render(o['ast'], 'np')}")
            # (2) solve
            p.run_model()
            star = {s['name']: np.array(p.get_val('c.' + s['name'])).reshape(s['shape']) for s in case['states']}
            env = _env(case, point, star)
            wrt = ins + sts
            Rs, Jx, Js, Tmax, Jall = [], [], [], 0.0, []
            for o in case['outs']:
                val, J = X.jac(o['ast'], env, wrt)
                Jall.append(J)
                _, T = X.jac(o['ast'], env, wrt, am=True)
                Rs.append(np.asarray(val).ravel())
                Jx.append(np.hstack([J[n] for n in ins]))
                Js.append(np.hstack([J[n] for n in sts]))
                Tmax = max([Tmax] + [float(np.max(T[n], initial=0.0)) for n in wrt])
            R = np.concatenate(Rs)
            Jx, Js = np.vstack(Jx), np.vstack(Js)
            p.model.run_apply_nonlinear()
            own = np.asarray(p.model.c._residuals.asarray(), dtype=float)
            om_converged = bool(np.all(np.isfinite(own)) and np.max(np.abs(own), initial=0.0) <= 1e-10)
            mine_bad = not np.all(np.isfinite(R)) or np.max(np.abs(R), initial=0.0) > 1e-9
            if om_converged and mine_bad:
                res.fail(pre + 'converged-state-not-a-root', f"point {point}: OpenMDAO's residual norm at its solution is "
                         f"{np.max(np.abs(own), initial=0.0):.2e} but the wrapped function there gives {R.tolist()} "
                         f"(states {[(k_, v_.tolist()) for k_, v_ in star.items()]})")
                continue
            if mine_bad or not np.all(np.isfinite(Js)):
                res.discard = 'newton-not-converged'
                cls.append('not_converged')
                res.classes = cls
                return False
            cond = np.linalg.cond(Js)
            if not np.isfinite(cond) or cond > 1e6:
                res.discard = 'state-jacobian-ill-conditioned'
                res.classes = cls
                return False
            ref = -np.linalg.solve(Js, Jx)
            if case.get('coloring') and not case.get('matrix_free') and \
                    not _detectable(case, wrt, _env(case, 0), Jall, _thresh(case)):
                # the sparsity was determined at the initial state of the first Newton iteration
                if 'sparsity_not_detectable_at_first_linearization' not in cls:
                    cls.append('sparsity_not_detectable_at_first_linearization')
                continue
            # (3) totals at the converged state
            tot = p.compute_totals(of=['c.' + n for n in sts], wrt=['iv.' + n for n in ins], return_format='array')
            tot = np.asarray(tot, dtype=float)
            if point == 0 and p.model.c._coloring_info.coloring is not None:
                cls.append('colored')
            if tot.shape != ref.shape:
                res.fail(pre + 'total-shape', f"{tot.shape} expected {ref.shape}")
                continue
            scale = float(np.max(np.abs(ref), initial=0.0)) + 1e-6 + 1e-6 * Tmax
            tol = (1e-4 if fd else 1e-8) * (1.0 + cond) * (np.abs(ref) + scale)
            bad = ~(np.abs(tot - ref) <= tol)
            if np.any(bad):
                a, b = np.argwhere(bad)[0]
                tag = case['kind'] + ':' + case.get('method', 'jax') + (':colored' if case.get('coloring') else '') + \
                    (':matrix_free' if case.get('matrix_free') else '')
                res.fail(pre + 'total-value' + ('' if pre else ':' + tag), f"point {point}: ds/dx[{a},{b}] = {tot[a, b]!r} expected {ref[a, b]!r} "
                         f"(tol {tol[a, b]:.2e}, cond {cond:.1f}); residuals {[X.render(o['ast'], 'np') for o in case['outs']]}")
    except Exception as e:
        return _raised(case, res, pre, cls, e, 'implicit')
    return True


# ---------------------------------------------------------------------------------------------------------------
# generator
# ---------------------------------------------------------------------------------------------------------------

def strategy(tier, kinds=None):
    from hypothesis import strategies as st

    @st.composite
    def case(draw):
        def pick(seq):
            seq = list(seq)
            return seq[draw(st.integers(0, len(seq) - 1))]

        kind = pick(kinds or (['efc'] * 5 + ['ifc'] * 4 + ['jex'] * 3 + ['jim'] * 4))
        implicit = kind in ('ifc', 'jim')
        method = pick(['cs', 'cs', 'cs', 'fd', 'jax']) if kind in ('efc', 'ifc') else 'jax'
        names = list(draw(st.permutations(NAMES)))
        n = pick([2, 3, 4])
        m = pick([2, 3])
        pool = [(), (), (n,), (n,), (n,), (m, n), (n + 1,), (m,)]

        def vals(shape):
            k = _size(shape)
            a = [pick(NICE) for _ in range(k)]
            return a, [v + 0.01 * draw(st.integers(-2, 2)) for v in a]

        ins = []
        nin = pick([1, 2, 2, 3])
        for _ in range(nin):
            shp = pick(pool)
            a, b = vals(shp)
            ins.append({'name': names.pop(), 'shape': list(shp), 'val': a, 'val2': b})
        states = []
        if implicit:
            for _ in range(pick([1, 1, 2])):
                shp = pick([(), (n,), (n,), (m,), (m, n)])
                a, _b = vals(shp)
                states.append({'name': names.pop(), 'shape': list(shp), 'val': a})
        allv = ins + states
        shapes = {v['name']: tuple(v['shape']) for v in allv}
        e0 = {v['name']: np.array(v['val'], dtype=float).reshape(v['shape']) for v in allv}
        e1 = {v['name']: np.array(v.get('val2', v['val']), dtype=float).reshape(v['shape']) for v in allv}
        unary = UNARY_BASE
        f2 = F2_BASE
        if method != 'cs':
            unary = unary + ('abs',)
            f2 = f2 + ('arctan2',)
        if kind in ('jex', 'jim'):
            unary = unary + ('erf', 'erfc')
        c = {'kind': kind, 'method': method, 'mode': pick(['fwd', 'rev']), 'coloring': draw(st.booleans()),
             'use_jit': pick([True, False, False]) if method == 'jax' else True, 'npseed': draw(st.integers(0, 999))}
        static = None
        if kind in ('jex', 'jim') and draw(st.booleans()):
            static = [pick([1.0, 0.5, 2.0]), pick([2.5, -1.5, 3.0])]
            c['static'] = static
        outs = []
        if not implicit:
            for k in range(pick([1, 1, 2, 2, 3])):
                tgt = pick([tuple(i['shape']) for i in ins] * 2 + [()])
                g = X.Gen(draw, shapes, [e0, e1], unary=unary, f2=f2)
                ast = g.expr(tgt, pick([1, 2, 2, 3, 3, 4]))
                if not X.variables(ast):
                    ast = ['b', '+', ast, ['r', 'sum', ['u', 'sin', ['v', ins[0]['name']]]]]
                if static and k == 0:
                    ast = ['b', '*', ast, ['v', 'kst']]
                outs.append({'name': names.pop(), 'ast': ast, 'shape': list(tgt), 'used': sorted(g.used)})
        else:
            gs = []
            for s in states:
                g = X.Gen(draw, shapes, [e0, e1], unary=unary, f2=tuple(x for x in f2 if x in ('power', 'arctan2')),
                          local_ok=False, reductions=('sum', 'prod'))
                ast = g.expr(tuple(s['shape']), pick([1, 2, 2, 3]))
                if static and not gs:
                    ast = ['b', '*', ast, ['v', 'kst']]
                gs.append((ast, sorted(g.used)))
            # diagonal dominance: c * s - g(x, s) with c > 2 * (largest absolute row sum of dg/ds at the drawn points)
            sn = [s['name'] for s in states]
            worst = 0.0
            for env in (e0, e1):
                for k_ in (0, 1):
                    ev_ = dict(env)
                    if static:
                        ev_['kst'] = np.float64(static[k_])
                    for ast, _u in gs:
                        _, J = X.jac(ast, ev_, sn)
                        G = np.hstack([J[q] for q in sn])
                        if G.size:
                            worst = max(worst, float(np.max(np.sum(np.abs(G), axis=1))))
            cdom = float(np.ceil(2.0 * worst + 1.0))
            for s, (ast, u) in zip(states, gs):
                outs.append({'name': 'r_' + s['name'], 'shape': list(s['shape']), 'used': u,
                             'ast': ['b', '-', ['b', '*', ['c', cdom], ['v', s['name']]], ast]})
            if kind == 'ifc' and method == 'jax' and draw(st.integers(0, 7)) == 0:
                for s in states:
                    s['scalar_val'] = True
                    s['val'] = [s['val'][0]] * len(s['val'])
        # every input must be a function argument; unused ones are allowed for functions (zero partials)
        if kind == 'ifc':
            order = list(draw(st.permutations([v['name'] for v in allv])))
            if len(states) > 1 and draw(st.integers(0, 5)) != 0:
                # keep the states in the order of their residuals (F-C34-4 otherwise)
                it = iter([s['name'] for s in states])
                sn = {s['name'] for s in states}
                order = [next(it) if n_ in sn else n_ for n_ in order]
            c['argorder'] = order
        else:
            c['argorder'] = [v['name'] for v in allv]
        if kind in ('efc', 'ifc'):
            c['defaults'] = draw(st.integers(0, 3)) == 0
            if c['defaults'] and kind == 'ifc':
                # parameters with defaults must follow those without: put states first
                c['argorder'] = [s['name'] for s in states] + [i['name'] for i in ins]
            if kind == 'efc':
                c['decl'] = pick(['all', 'all', 'pairs'])
                c['out_shapes'] = draw(st.booleans())
        else:
            c['matrix_free'] = draw(st.integers(0, 3)) == 0
            c['decl'] = pick(['auto', 'auto', 'all'])
            for i in ins:
                i['by_val'] = draw(st.booleans())
        c.update(ins=ins, states=states, outs=outs)
        return c
    return case()


def units(tier, seed):
    n = 4 if tier == 'quick' else 64
    per = 72 if tier == 'quick' else 300
    return [{'kind': 'random', 'n': per, 'seed': core.shard_seed(seed, ID, i)} for i in range(n)]


def run_unit(unit, ctx):
    core.run_hypothesis(ctx, strategy(unit.get('tier'), unit.get('kinds')), check, unit['n'], unit['seed'],
                        shrink=unit.get('tier') == 'thorough')
