"""C06  Unit conversion is a consistent affine algebra.

Domain : every ordered pair of units of the shipped library, every triple inside a dimension class, every
         prefix x library-unit atom (fresh table, and after looking up each shorter reading of the same spelling),
         Hypothesis-generated composite / prefixed expressions (products, quotients, integer powers, roots,
         number factors) with compatible respellings, random values and random lookup histories.
Oracle : an independent evaluator of unit_library.ini (vfw/c06_ref.py: Decimal factors, Fraction dimension powers)
         gives (factor, powers, offset) of every expression; the laws (round trip, transitivity, equivalence
         relation, conversion succeeds <=> compatible, simplify_unit preserves the unit) are checked on the
         public functions convert_units / unit_conversion / is_compatible / simplify_unit / valid_units /
         conversion_to_base_units, always after `import_library` of the shipped file (fresh table) followed by
         the lookups listed in the case (warmed table).
"""
import io
import os
import re
from decimal import Decimal, localcontext

from vfw import core
from vfw import c06_ref as R
from vfw.core import Result

ID = 'C06'
LEVEL = 'exploration'
TECHNIQUE = ('exhaustive enumeration of library unit pairs / class triples / prefixed atoms + Hypothesis-driven grammar of '
             'composite unit expressions with lookup histories, independent Decimal/Fraction evaluator of '
             'unit_library.ini as reference')
RULE = ("case = {kind: pair|triple|expr|anchor, unit expression strings, values x, warm: strings looked up first on a "
        "freshly imported library}. Exhaustive: all pairs of the 140 library names, both directions (fresh table and warmed "
        "table), all triples inside each dimension class in every ordering, all 26x140 "
        "prefix+unit spellings alone and after looking up every proper suffix of the spelling that is itself a "
        "unit. Random: Hypothesis draws a 192-byte string that is decoded (two bytes per decision) into expression trees (atoms = library units with optional prefix; * / "
        "**k k in {+-1,+-2,+-3,4}; roots built so that dimensions stay integral; number factors incl. exponent literals), "
        "partners of the same dimension by respelling every atom inside its dimension class, values from "
        "{0,+-1,+-1e-30,+-1e30,offsets} and +-d.ddd*10**(-6..5), and warm lists from hot prefixed atoms, suffix readings of the "
        "case's own tokens and the case's own sub-expressions. Non-trivial = a compatible pair/triple with factor "
        "ratio != 1, or an offset unit, or a prefixed atom, or an expression of operator depth >= 2. Distinct = "
        "distinct canonical JSON of the case.")
ASSUMPTIONS = [
    "unit_library.ini is the specification of factors/dimensions; it is evaluated by an independent reader "
    "(prefix value x unit, 'unit names are matched before prefix names', 'as' = attosecond, offset units "
    "value_in_base = (x + offset) * factor) and anchored by exact physical conversion facts (anchor cases)",
    "a spelling prefix+unit is a unit whenever the prefix is in [prefixes] and the unit is a library unit; doubly "
    "prefixed spellings (e.g. 'kmm', which OpenMDAO accepts only after 'mm' was looked up) are outside the domain "
    "and not judged",
    "offset units inside products/quotients/powers/prefixes, roots that would give fractional dimensions, float "
    "exponents that are not inverse integers, non-positive number factors and factors outside 1e-150..1e150 are "
    "'unjudged': OpenMDAO may reject them; if it accepts them only simplify_unit self-consistency is checked",
    "tolerances: factors rel 1e-12 (reference carries 60 digits; OpenMDAO chains < 40 float operations); values "
    "rel 1e-12 of the magnitudes entering the affine map before cancellation (|x|, offsets scaled by factor ratio)",
    "the lookup history of a case is reproduced with import_library(shipped file) + valid_units(w) for w in warm; "
    "inside one worker the fresh state is restored by removing the names added to _UNIT_LIB.unit_table and clearing "
    "_UNIT_CACHE after checking that the 140 library entries are the identical unmodified objects (real import at "
    "the first case of every process, hence in every replay, and every 200 cases)",
]
EXHAUSTIVE = {'quick': False, 'thorough': False}
BOUND = {'quick': 'all 9870 unordered library pairs (both directions each) on a fresh and on a warmed table; all '
                  'multisets of 3 inside each dimension class (every ordering each); 3640 prefixed atoms fresh + '
                  'suffix-warmed; 12x6000 random composite cases of depth<=3',
         'thorough': 'same enumerations; 16x60000 random composite cases with Hypothesis shrinking'}
MIN_CLASS_FRACTION = {'compatible': 0.15, 'composite': 0.1, 'prefixed': 0.15, 'warm': 0.15, 'offset': 0.005,
                      'root': 0.01, 'number': 0.02}
UNIT_TIMEOUT = {'quick': 900, 'thorough': 7200}

RTOL = 1e-12

_STATE = {}


def _ctx():
    """(openmdao.utils.units module, reference Library) -- the ini file is the one next to the imported module."""
    import openmdao.utils.units as U
    if 'lib' not in _STATE:
        path = os.path.join(os.path.dirname(U.__file__), 'unit_library.ini')
        with open(path) as f:
            _STATE['text'] = f.read()
        _STATE['lib'] = R.Library(_STATE['text'])
    return U, _STATE['lib']


def _fingerprint(lib, keys):
    tbl = lib.unit_table
    return tuple((k, id(tbl[k]), tbl[k]._factor, tbl[k]._offset, tuple(tbl[k]._powers), tuple(tbl[k]._names.items()))
                 for k in keys if k in tbl)


def reset(U, warm):
    """Fresh table, then the case's lookup history.

    Fresh = the state `import_library(shipped file)` produces.  That call costs 2 ms (it dominates a case), so
    between cases of one process the same state is restored by deleting the names that lookups added to the unit
    table and emptying the lookup cache -- but only after verifying that the library entries are still the
    identical, unmodified objects of the last real import; otherwise, at the first case of a process (so always in
    a replay) and every 200 cases the real import is done.
    """
    st = _STATE
    lib = U._UNIT_LIB
    st['n'] = st.get('n', 0) + 1
    if st.get('libobj') is lib and st['n'] % 200 and _fingerprint(lib, st['keys']) == st['fp']:
        tbl = lib.unit_table
        for k in [k for k in tbl if k not in st['keyset']]:
            del tbl[k]
        U._UNIT_CACHE.clear()
    else:
        U.import_library(io.StringIO(st['text']))
        lib = U._UNIT_LIB
        st['libobj'] = lib
        st['keys'] = tuple(lib.unit_table)
        st['keyset'] = frozenset(st['keys'])
        st['fp'] = _fingerprint(lib, st['keys'])
    for w in warm:
        try:
            U.valid_units(w)
        except Exception:
            pass     # a history entry is not the judged expression; its own verdict comes from an 'expr' case


def ref_of(L, s):
    try:
        return 'valid', L.evaluate(s)
    except R.Unjudged as e:
        return 'unjudged', str(e)
    except R.Invalid as e:
        return 'invalid', str(e)


# ---------------------------------------------------------------------------------------------
# predicates over the input that name the root cause of confirmed findings
# ---------------------------------------------------------------------------------------------

def lookup_sim(L, strings):
    """Which name tokens the documented lookup rules put into the unit table, string after string.

    Returns one set of flags per string:
      'sci-literal'      the string needs the prefix-expansion pass (some name is not in the table yet) and contains
                         a number literal with an unsigned exponent ('1e3'): the expansion pass reads 'e3' as a name
      'underscore-name'  the string needs the expansion pass and contains a library name with an underscore
                         (arc_minute, arc_second, drag_count, bare or prefixed): the pass splits it at the underscore
      'da-shadowed'      a 'da'+unit token is expanded while 'a'+unit (atto) is already in the table: the
                         single-letter prefix 'd' is tried first and finds it
    """
    table = set(L.names)
    shadowed = set()      # tokens that entered the table with the wrong reading; they stay wrong for later lookups
    out = []
    for s in strings:
        fl = set()
        try:
            toks = R.tokenize(s)
        except R.Invalid:
            out.append(fl)
            continue
        names = [('as_' if v == 'as' else v) for k, v in toks if k == 'name']
        if any(n not in table for n in names):
            for k, v in toks:
                if k == 'num':
                    if re.search(r'[eE]\d', v):
                        fl.add('sci-literal')
                        break
                    continue
                if k != 'name':
                    continue
                n = 'as_' if v == 'as' else v
                if '_' in n and n != 'as_':
                    fl.add('underscore-name')
                    break
                if n in table:
                    continue
                if len(n) > 2 and n[:2] in L.prefixes and n[2:] in L.nameset and n[0] in L.prefixes \
                        and n[1:] in table:
                    shadowed.add(n)
                table.add(n)
        if any(n in shadowed for n in names):
            fl.add('da-shadowed')
        out.append(fl)
    return out


def known_sig(flags, clause):
    """Signature of a failed clause on an expression whose lookup carried `flags`."""
    if clause == 'rejects-valid':
        if 'underscore-name' in flags:
            return 'expansion-pass-splits-underscore-name'
        if 'sci-literal' in flags:
            return 'expansion-pass-reads-exponent-literal-as-name'
    if clause in ('rejects-valid', 'factor', 'value') and 'da-shadowed' in flags:
        return 'da-prefix-shadowed-by-atto-unit-in-table'
    return None


# ---------------------------------------------------------------------------------------------
# helpers
# ---------------------------------------------------------------------------------------------

def _close(a, b, rtol=RTOL, atol=0.0):
    a = float(a)
    b = float(b)
    if a == b:
        return True
    return abs(a - b) <= atol + rtol * max(abs(a), abs(b))


def _call(res, sig, f, *args):
    """Call an OpenMDAO function that must not raise on accepted units."""
    try:
        return True, f(*args)
    except Exception as e:
        res.fail(core.repo_frame_signature(e, sig) or f"{sig}:{type(e).__name__}", f"{f.__name__}{args!r}: "
                 f"{type(e).__name__}: {e}")
        return False, None


def _accept(res, U, L, s, status, flags, tag):
    """valid_units(s) must be True for reference-valid s.  Returns True when OpenMDAO accepts s."""
    try:
        ok = U.valid_units(s)
        err = None
    except Exception as e:
        ok = False
        err = e
    if status == 'valid' and not ok:
        sig = known_sig(flags, 'rejects-valid') or 'expr:rejects-valid-expression'
        res.fail(sig, f"{tag}={s!r}: " + (f"{type(err).__name__}: {err}" if err else 'valid_units is False'))
    return bool(ok)


def _info_classes(L, exprs, warm):
    cls = set()
    nontriv = False
    for s in exprs:
        try:
            inf = L.info(s)
        except R.Invalid:
            continue
        if inf['prefixed']:
            cls.add('prefixed')
            nontriv = True
        if inf['depth'] >= 1:
            cls.add('composite')
        if inf['depth'] >= 2:
            cls.add('depth>=2')
            nontriv = True
        if inf['has_root']:
            cls.add('root')
        if inf['numbers']:
            cls.add('number')
        if inf['offset_atoms']:
            cls.add('offset')
            nontriv = True
    cls.add('warm' if warm else 'fresh')
    return cls, nontriv


def _expr_clauses(res, U, L, s, ru, flags, tag):
    """s is accepted by both sides: absolute (factor, offset, dimension) against the reference."""
    ok, t = _call(res, 'expr:to-base', U.conversion_to_base_units, s)
    if not ok:
        return
    off, fac = t
    rf = float(ru.factor)
    if not _close(fac, rf):
        res.fail(known_sig(flags, 'factor') or 'expr:factor-differs-from-library-definition',
                 f"{tag}={s!r}: factor {fac!r}, reference {rf!r}")
    ro = float(ru.offset)
    if not _close(off, ro, atol=1e-12 * abs(ro)):
        res.fail('expr:offset-differs-from-library-definition', f"{tag}={s!r}: offset {off!r}, reference {ro!r}")
    be = L.base_expr(ru.powers)
    ok, c = _call(res, 'expr:is_compatible', U.is_compatible, s, be)
    if ok and c is not True:
        res.fail('expr:dimension-differs-from-reference', f"{tag}={s!r} not compatible with {be!r}")
    for k in (0, 2, len(ru.powers) - 1):
        wrong = L.base_expr(ru.powers, shift=k)
        ok, c = _call(res, 'expr:is_compatible', U.is_compatible, s, wrong)
        if ok and c is not False:
            res.fail('expr:compatible-with-different-dimension', f"{tag}={s!r} compatible with {wrong!r}")
    ok, t = _call(res, 'expr:unit_conversion', U.unit_conversion, s, be)
    if ok and not (_close(t[0], rf) and _close(t[1], ro, atol=1e-12 * abs(ro))):
        res.fail(known_sig(flags, 'factor') or 'expr:unit_conversion-to-base-differs-from-reference',
                 f"{tag}={s!r} -> {be!r}: {t!r}, reference ({rf!r}, {ro!r})")


def _simplify_clauses(res, U, L, s, status, ru, tag, flags=()):
    """simplify_unit(s) must name the same unit (OpenMDAO's own numbers, plus the reference where it can read r)."""
    try:
        r = U.simplify_unit(s)
    except Exception as e:
        res.fail(core.repo_frame_signature(e, 'simplify:raises') or 'simplify:raises',
                 f"{tag}={s!r}: {type(e).__name__}: {e}")
        return
    ok, t = _call(res, 'simplify:to-base', U.conversion_to_base_units, s)
    if not ok:
        return
    off, fac = t
    if r is None:
        # documented special case: unity becomes None
        okc, c = _call(res, 'simplify:is_compatible', U.is_compatible, s, 'm/m')
        if not (_close(fac, 1.0) and off == 0.0 and okc and c is True):
            res.fail('simplify:none-for-non-unity', f"{tag}={s!r} -> None but (offset, factor)={t!r}, "
                     f"dimensionless={c!r}")
        if status == 'valid' and (any(p != 0 for p in ru.powers) or not _close(float(ru.factor), 1.0)):
            res.fail('simplify:none-for-non-unity', f"{tag}={s!r} -> None but reference factor "
                     f"{float(ru.factor)!r} powers {[str(p) for p in ru.powers]}")
        return
    if not isinstance(r, str):
        res.fail('simplify:not-a-string', f"{tag}={s!r} -> {r!r}")
        return
    try:
        okr = U.valid_units(r)
        err = None
    except Exception as e:
        okr = False
        err = e
    if not okr:
        sig = 'simplify:result-is-not-a-valid-unit'
        try:
            has_root = L.info(s)['has_root']
            only_num = not any(k == 'name' for k, v in R.tokenize(r))
        except R.Invalid:
            has_root = only_num = False
        if has_root and re.search(r'\*\*-?\d+\.\d', r):
            sig = 'simplify:root-leaves-float-exponent-in-name'
        elif only_num:
            sig = 'simplify:names-cancel-number-left'
        res.fail(sig, f"{tag}={s!r} -> {r!r} which is rejected" + (f" ({type(err).__name__}: {err})" if err else ''))
        return
    ok, t2 = _call(res, 'simplify:to-base', U.conversion_to_base_units, r)
    if ok and not (_close(t2[1], fac) and _close(t2[0], off, atol=1e-12 * abs(off))):
        res.fail('simplify:changes-factor-or-offset', f"{tag}={s!r} (offset, factor)={t!r} -> {r!r} {t2!r}")
    ok, c = _call(res, 'simplify:is_compatible', U.is_compatible, s, r)
    if ok and c is not True:
        res.fail('simplify:changes-dimension', f"{tag}={s!r} -> {r!r} not compatible")
    if status == 'valid':
        st2, r2 = ref_of(L, r)
        if st2 == 'valid':
            if r2.powers != ru.powers:
                res.fail('simplify:changes-dimension', f"{tag}={s!r} -> {r!r}: reference dimensions differ")
            elif not (_close(float(r2.factor), float(ru.factor)) and r2.offset == ru.offset):
                res.fail(known_sig(flags, 'factor') or 'simplify:changes-factor-or-offset', f"{tag}={s!r} -> {r!r}: reference "
                         f"({float(ru.factor)!r},{float(ru.offset)!r}) vs ({float(r2.factor)!r},{float(r2.offset)!r})")


def _ref_convert(x, ua, ub):
    """Reference value of x [a] in [b] and the magnitude entering the affine map (for the tolerance)."""
    with localcontext() as ctx:
        ctx.prec = R.PREC
        dx = Decimal(x)
        ratio = ua.factor / ub.factor
        y = (dx + ua.offset) * ratio - ub.offset
        mag = (abs(dx) + abs(ua.offset)) * ratio + abs(ub.offset)
        return float(y), float(mag)


def _ratio_ok(ua, ub):
    with localcontext() as ctx:
        ctx.prec = R.PREC
        r = ua.factor / ub.factor
        return Decimal('1e-120') < r < Decimal('1e120')


# ---------------------------------------------------------------------------------------------
# oracle
# ---------------------------------------------------------------------------------------------

def check(case):
    kind = case['kind']
    if kind == 'anchor':
        return check_anchor(case)
    U, L = _ctx()
    warm = list(case.get('warm', []))
    if kind == 'expr':
        exprs = [case['s']]
    elif kind == 'pair':
        exprs = [case['a'], case['b']]
    else:
        exprs = [case['a'], case['b'], case['c']]
    refs = [ref_of(L, s) for s in exprs]
    flags = lookup_sim(L, warm + exprs)[len(warm):]
    cls, nontriv = _info_classes(L, exprs, warm)
    cls.add(kind)
    res = Result(classes=sorted(cls))

    if any(st == 'invalid' for st, _ in refs):
        res.discard = 'reference-cannot-read-expression'
        return res

    reset(U, warm)
    tags = ['s'] if kind == 'expr' else ['a', 'b', 'c'][:len(exprs)]
    accepted = [_accept(res, U, L, s, st, fl, tag) for s, (st, _), fl, tag in zip(exprs, refs, flags, tags)]

    if kind == 'expr':
        s = exprs[0]
        st, ru = refs[0]
        if st == 'unjudged':
            res.classes.append('unjudged:' + ru)
            res.classes.append('unjudged-accepted' if accepted[0] else 'unjudged-rejected')
        if not accepted[0]:
            return res
        if st == 'unjudged' and ru == 'extreme-magnitude':
            return res      # float overflow/underflow territory: nothing is demanded
        if st == 'valid':
            _expr_clauses(res, U, L, s, ru, flags[0], 's')
        _simplify_clauses(res, U, L, s, st, ru if st == 'valid' else None, 's', flags[0])
        res.nontrivial = nontriv and st == 'valid'
        return res

    if any(st == 'unjudged' for st, _ in refs):
        res.discard = 'unjudged:' + [r for st, r in refs if st == 'unjudged'][0]
        return res
    if not all(accepted):
        return res      # the rejection has been reported by _accept
    us = [r for _, r in refs]
    xs = [float(x) for x in case.get('x', [1.0])]

    # every expression on its own: absolute factor / offset / dimension
    for s, u, fl, tag in zip(exprs, us, flags, tags):
        ok, t = _call(res, 'expr:to-base', U.conversion_to_base_units, s)
        if ok:
            if not _close(t[1], float(u.factor)):
                res.fail(known_sig(fl, 'factor') or 'expr:factor-differs-from-library-definition',
                         f"{tag}={s!r}: factor {t[1]!r}, reference {float(u.factor)!r}")
            if not _close(t[0], float(u.offset), atol=1e-12 * abs(float(u.offset))):
                res.fail('expr:offset-differs-from-library-definition',
                         f"{tag}={s!r}: offset {t[0]!r}, reference {float(u.offset)!r}")

    # compatibility relation on the set
    n = len(exprs)
    comp = {}
    for i in range(n):
        for j in range(n):
            ok, c = _call(res, 'compat:raises', U.is_compatible, exprs[i], exprs[j])
            if not ok:
                return res
            comp[i, j] = c
            if not isinstance(c, bool):
                res.fail('compat:not-a-bool', f"is_compatible({exprs[i]!r},{exprs[j]!r}) = {c!r}")
            refc = us[i].powers == us[j].powers
            if bool(c) != refc:
                res.fail('compat:differs-from-reference-dimensions',
                         f"is_compatible({exprs[i]!r},{exprs[j]!r}) = {c!r}, reference {refc}")
    for i in range(n):
        if not comp[i, i]:
            res.fail('compat:not-reflexive', f"{exprs[i]!r}")
        for j in range(n):
            if bool(comp[i, j]) != bool(comp[j, i]):
                res.fail('compat:not-symmetric', f"{exprs[i]!r} {exprs[j]!r}")
            for k in range(n):
                if comp[i, j] and comp[j, k] and not comp[i, k]:
                    res.fail('compat:not-transitive', f"{exprs[i]!r} {exprs[j]!r} {exprs[k]!r}")

    # conversion succeeds <=> compatible ; values
    anyc = False
    for i in range(n):
        for j in range(n):
            if i == j and kind == 'triple':
                continue
            a, b = exprs[i], exprs[j]
            try:
                y0 = U.convert_units(xs[0], a, b)
                err = None
            except TypeError as e:
                err = e
            except Exception as e:
                res.fail(core.repo_frame_signature(e, 'convert:raises') or 'convert:raises',
                         f"convert_units({xs[0]!r},{a!r},{b!r}): {type(e).__name__}: {e}")
                continue
            if err is not None and comp[i, j]:
                res.fail('convert:fails-although-compatible', f"convert_units(x,{a!r},{b!r}): TypeError: {err}")
            if err is None and not comp[i, j]:
                res.fail('convert:succeeds-although-incompatible', f"convert_units({xs[0]!r},{a!r},{b!r}) = {y0!r}")
            try:
                fo = U.unit_conversion(a, b)
                err2 = None
            except TypeError as e:
                err2 = e
            except Exception as e:
                res.fail(core.repo_frame_signature(e, 'unit_conversion:raises') or 'unit_conversion:raises',
                         f"unit_conversion({a!r},{b!r}): {type(e).__name__}: {e}")
                continue
            if (err2 is None) != (err is None):
                res.fail('convert:unit_conversion-and-convert_units-disagree-on-success', f"{a!r} {b!r}")
            if err is not None or err2 is not None:
                continue
            if us[i].powers != us[j].powers or not _ratio_ok(us[i], us[j]):
                continue
            if a != b:
                anyc = True
            fl = flags[i] | flags[j]
            for x in xs:
                ok, y = _call(res, 'convert:raises', U.convert_units, x, a, b)
                if not ok:
                    break
                yref, mag = _ref_convert(x, us[i], us[j])
                if not _close(y, yref, atol=RTOL * mag):
                    res.fail(known_sig(fl, 'value') or 'convert:value-differs-from-reference',
                             f"convert_units({x!r},{a!r},{b!r}) = {y!r}, reference {yref!r}")
                # unit_conversion is the same affine map
                y2 = (x + fo[1]) * fo[0]
                if not _close(y, y2, atol=RTOL * mag):
                    res.fail('convert:unit_conversion-inconsistent-with-convert_units',
                             f"({x!r}+{fo[1]!r})*{fo[0]!r} = {y2!r} vs convert_units = {y!r} ({a!r}->{b!r})")
                # round trip (tolerance in units of a)
                ok, xb = _call(res, 'convert:raises', U.convert_units, y, b, a)
                if ok:
                    _, magb = _ref_convert(yref, us[j], us[i])
                    if not _close(xb, x, atol=RTOL * (magb + abs(x))):
                        # (with a shadowed 'da' unit the tolerance, built from the reference factors, is meaningless)
                        res.fail(known_sig(fl, 'value') or 'convert:round-trip',
                                 f"{x!r} [{a!r}] -> {y!r} [{b!r}] -> {xb!r}")
    cmask = [us[0].powers == u.powers for u in us]
    if kind == 'triple' and all(cmask) and all(_ratio_ok(us[i], us[j]) for i in range(3) for j in range(3)):
        import itertools
        for (i, j, k) in itertools.permutations(range(3)):
            a, b, c = exprs[i], exprs[j], exprs[k]
            for x in xs:
                try:
                    y_ab = U.convert_units(x, a, b)
                    y_abc = U.convert_units(y_ab, b, c)
                    y_ac = U.convert_units(x, a, c)
                except Exception:
                    break        # reported above
                yab_ref, m1 = _ref_convert(x, us[i], us[j])
                _, m2 = _ref_convert(yab_ref, us[j], us[k])
                _, m3 = _ref_convert(x, us[i], us[k])
                with localcontext() as ctx:
                    ctx.prec = R.PREC
                    m1c = float(Decimal(m1) * us[j].factor / us[k].factor)     # first-leg magnitude, in units of c
                if not _close(y_abc, y_ac, atol=RTOL * (m1c + m2 + m3)):
                    res.fail(known_sig(flags[0] | flags[1] | flags[2], 'value') or 'convert:not-transitive',
                             f"{x!r}: {a!r}->{b!r}->{c!r} = {y_abc!r}, {a!r}->{c!r} = {y_ac!r}")

    if all(cmask):
        res.classes.append('compatible')
    else:
        res.classes.append('incompatible')
    with localcontext() as ctx:
        ctx.prec = R.PREC
        diff = any(cmask[i] and i > 0 and us[i].factor != us[0].factor for i in range(n))
    res.nontrivial = bool((anyc and diff) or (anyc and 'offset' in cls) or (nontriv and ('depth>=2' in cls)) or
                          (anyc and 'prefixed' in cls))
    return res


# exact conversion facts (definitions of the units, independent of the ini file):  x [a] = y [b]
ANCHORS = [
    (1.0, 'inch', 'cm', 2.54), (1.0, 'ft', 'inch', 12.0), (1.0, 'mi', 'ft', 5280.0), (1.0, 'NM', 'm', 1852.0),
    (1.0, 'lb', 'kg', 0.45359237), (1.0, 'oz', 'g', 28.349523125), (1.0, 'h', 's', 3600.0), (1.0, 'd', 'h', 24.0),
    (1.0, 'wk', 'd', 7.0), (180.0, 'deg', 'rad', 3.141592653589793), (1.0, 'rev', 'deg', 360.0),
    (1.0, 'atm', 'Pa', 101325.0), (1.0, 'bar', 'kPa', 100.0), (1.0, 'atm', 'torr', 760.0), (1.0, 'L', 'cm**3', 1000.0),
    (1.0, 'cal', 'J', 4.184), (1.0, 'kW*h', 'MJ', 3.6), (1.0, 'acre', 'm**2', 4046.8564224),
    (3600.0, 'kn', 'm/s', 1852.0), (100.0, 'degC', 'degF', 212.0), (0.0, 'degC', 'K', 273.15),
    (-40.0, 'degC', 'degF', -40.0), (32.0, 'degF', 'K', 273.15), (491.67, 'degR', 'degC', 0.0),
    (1.0, 'percent', 'unitless', 0.01), (1.0, 'Mibyte', 'byte', 1048576.0), (60.0, 'rpm', 'rad/s', 6.283185307179586),
    (1.0, 'ha', 'm**2', 1.0e4), (1.0, 't', 'kg', 1000.0), (1.0, 'ton', 'lb', 2000.0), (1.0, 'ly', 'm', 9460730472580800.0),
    (1.0, 'pc', 'm', 3.0856775814913673e16), (1.0, 'dam', 'm', 10.0), (1.0, 'as', 's', 1e-18), (1.0, 'N', 'kg*m/s**2', 1.0),
    (1.0, 'W', 'kg*m**2/s**3', 1.0), (1.0, 'Hz', '1/s', 1.0), (1.0, 'ohm', 'kg*m**2/(s**3*A**2)', 1.0),
    (1.0, 'arc_second', 'deg', 1.0 / 3600.0), (1.0, 'qt', 'cup', 4.0), (1.0, 'min', 's', 60.0),
    (1.0, 'psi', 'psf', 144.0), (1.0, 'lbm', 'lb', 1.0), (1.0, 'tbsp', 'tsp', 3.0), (1.0, 'floz', 'tbsp', 2.0),
    (1.0, 'cup', 'floz', 8.0), (1.0, 'pt', 'floz', 16.0), (1.0, 'qt', 'pt', 2.0), (12.0, 'mo', 'yr', 1.0),
    (1.0, 'arc_minute', 'arc_second', 60.0), (1.0, 'deg', 'arc_minute', 60.0), (1.0, 'nmi', 'NM', 1.0),
    (1.0, 'knot', 'kn', 1.0), (1.0, 'degK', 'K', 1.0), (1.0, 'MMBtu', 'Btu', 1.0e6), (1.0, 'u', 'Da', 1.0),
    (1.0, 'ua', 'AU', 1.0), (1.0, 'week', 'wk', 1.0), (1.0, 'month', 'mo', 1.0), (1.0, 'year', 'yr', 1.0),
    (1.0, 'yr', 'a', 1.0), (1.0, 'kat', 'mol/s', 1.0), (1.0, 'Gy', 'J/kg', 1.0), (1.0, 'Sv', 'J/kg', 1.0),
    (1.0, 'lx', 'lm/m**2', 1.0), (1.0, 'lm', 'cd*sr', 1.0), (1.0, 'T', 'Wb/m**2', 1.0), (1.0, 'Wb', 'V*s', 1.0),
    (1.0, 'H', 'Wb/A', 1.0), (1.0, 'S', 'A/V', 1.0), (1.0, 'F', 'C/V', 1.0), (1.0, 'C', 'A*s', 1.0),
    (1.0, 'V', 'W/A', 1.0), (1.0, 'J', 'N*m', 1.0), (1.0, 'Pa', 'N/m**2', 1.0), (1.0, 'Bq', '1/s', 1.0),
    (1.0, 'g', 'kg', 0.001), (1.0, 'erg', 'J', 1.0e-7), (1.0, 'dyn', 'N', 1.0e-5), (10.0, 'P', 'Pa*s', 1.0),
    (1.0, 'St', 'cm**2/s', 1.0), (1.0, 'Ang', 'nm', 0.1), (1.0, 'b', 'fm**2', 100.0), (1.0, 'Mx', 'Wb', 1.0e-8),
    (1.0, 'gauss', 'T', 1.0e-4), (1.0, 'drag_count', 'unitless', 1.0e-4), (1.0, 'ph', 'lx', 1.0e4),
    (1.0, 'sb', 'cd/cm**2', 1.0), (1.0, 'rps', 'rpm', 60.0), (1.0, 'degR', 'K', 5.0 / 9.0), (1.0, 'eV', 'e*V', 1.0),
]


def check_anchor(case):
    U, L = _ctx()
    x, a, b, y = case['x'], case['a'], case['b'], case['y']
    res = Result(nontrivial=True, classes=['anchor'])
    reset(U, case.get('warm', []))
    try:
        got = U.convert_units(x, a, b)
    except Exception as e:
        return res.fail(f"anchor:{a}->{b}", f"{type(e).__name__}: {e}")
    if not _close(got, y, rtol=1e-12, atol=1e-10 if y == 0.0 or a.startswith('deg') and len(a) == 4 else 0.0):
        res.fail(f"anchor:{a}->{b}", f"convert_units({x!r},{a!r},{b!r}) = {got!r}, exact value {y!r}")
    # the reference evaluator is held to the same facts: when OpenMDAO meets the fact and the reference does not,
    # the harness is wrong
    ua, ub = L.evaluate(a), L.evaluate(b)
    yref, mag = _ref_convert(x, ua, ub)
    if not res.violations and not _close(yref, y, rtol=1e-12, atol=1e-12 * mag):
        res.classes.append('reference-disagrees-with-anchor')
    return res


# ---------------------------------------------------------------------------------------------
# enumeration
# ---------------------------------------------------------------------------------------------

XS_ENUM = [0.0, 1.0, -37.5, 1e30, -1e-30]
STD_WARM = ['mm', 'km', 'ms', 'kN', 'MPa', 'mK', 'kJ/kg', 'um', 'Mibyte', 'as', 'dam', 'kW*h', 'mm**2', 'ft*lbf',
            'ug/mL', '(m**2/s**2)**0.5', '1000*kg', 'GHz', 'cm/s', 'mdeg']


def enum_libpairs(part, nparts, warm, same_class_only=False):
    _, L = _ctx()
    k = 0
    for ia, a in enumerate(L.names):
        for b in L.names[ia:]:       # check() evaluates both directions of a pair
            if same_class_only and L.lib_unit(a).powers != L.lib_unit(b).powers:
                continue
            k += 1
            if k % nparts != part:
                continue
            yield {'kind': 'pair', 'a': a, 'b': b, 'x': XS_ENUM, 'warm': warm}


def enum_classtriples(part, nparts):
    _, L = _ctx()
    k = 0
    for powers, names in L.classes_by_dimension().items():
        for ia, a in enumerate(names):       # check() evaluates every ordering of a triple
            for ib in range(ia, len(names)):
                for ic in range(ib, len(names)):
                    k += 1
                    if k % nparts != part:
                        continue
                    yield {'kind': 'triple', 'a': a, 'b': names[ib], 'c': names[ic], 'x': [1.0, -273.0], 'warm': []}


def enum_atoms(part, nparts):
    _, L = _ctx()
    k = 0
    for n in L.names:
        k += 1
        if k % nparts == part:
            yield {'kind': 'expr', 's': n, 'warm': []}
    for p in L.prefixes:
        for n in L.names:
            s = p + n
            k += 1
            if k % nparts != part:
                continue
            yield {'kind': 'expr', 's': s, 'warm': []}
            # every shorter reading of the same spelling, looked up first
            for cut in range(1, len(s)):
                t = s[cut:]
                if t != n and L.resolutions(t):
                    yield {'kind': 'expr', 's': s, 'warm': [t]}
            if p in HOT_PREFIXES[:6]:
                yield {'kind': 'pair', 'a': s, 'b': n, 'x': [1.0, -2.5], 'warm': [n]}


def enum_anchors():
    for x, a, b, y in ANCHORS:
        yield {'kind': 'anchor', 'x': x, 'a': a, 'b': b, 'y': y, 'warm': []}
        yield {'kind': 'anchor', 'x': x, 'a': a, 'b': b, 'y': y, 'warm': STD_WARM}


# ---------------------------------------------------------------------------------------------
# Hypothesis grammar
# ---------------------------------------------------------------------------------------------

COMMON = ['m', 's', 'kg', 'g', 'N', 'Pa', 'J', 'W', 'ft', 'inch', 'lb', 'lbf', 'h', 'min', 'K', 'rad', 'deg', 'byte',
          'USD', 'L', 'mi', 'psi', 'A', 'V', 'Hz', 'arc_second', 'percent', 'unitless',
          'degR', 'mol', 't', 'd', 'a', 'u', 'e', 'b', 'P', 'T', 'C', 'F', 'H', 'S', 'R', 'degK', 'cd', 'pax', 'sr']
HOT_PREFIXES = ['da', 'a', 'd', 'm', 'k', 'M', 'c', 'u', 'n', 'Ki', 'Mi', 'h', 'E', 'P', 'T', 'G']
NUMBERS = ['2', '3', '10', '100', '1000', '0.5', '2.5', '1e-3', '0.001', '60', '3600', '1.0', '2.54e-2', '12', '0.1',
           '4', '1.5', '1000.0', '1e3', '1E6']      # few unsigned exponent literals: they hit a listed finding
ROOT_TEXT = {2: ['0.5', '(1/2)', '(1./2)'], 3: ['(1/3)', '(1./3)', '0.3333333333333333'], 4: ['0.25'], 5: ['0.2'],
             -2: ['-0.5', '(-1/2)']}
VALUES = [0.0, 1.0, -1.0, 1e-30, -1e-30, 1e30, -1e30, 273.15, -459.67, 100.0]


class _Src(object):
    """Decision source decoded from one Hypothesis-drawn byte string (two bytes per decision), in the manner of a
    fuzzer's data provider: one draw per case keeps generation cheaper than the oracle."""

    def __init__(self, data):
        self.d = data
        self.i = 0

    def below(self, n):
        k = self.i % (len(self.d) - 1)
        v = self.d[k] * 256 + self.d[k + 1] + 7919 * (self.i // (len(self.d) - 1))
        self.i += 2
        return v % n

    def pick(self, seq):
        return seq[self.below(len(seq))]

    def bit(self):
        return self.below(2) == 1


def build_case(data, G):
    """bytes -> case (pure)."""
    L = G['L']
    src = _Src(data)
    hot, prefixes, common, nonoffset = G['hot'], G['prefixes'], G['common'], G['nonoffset']
    by_dim, temp_class, offset_names = G['by_dim'], G['temp_class'], G['offset_names']

    def prefix():
        return src.pick(hot) if src.below(3) else src.pick(prefixes)

    def atom(pool=None):
        if pool is None:
            pool = common if src.below(3) else nonoffset
        u = src.pick(pool)
        if src.below(10) < 4:
            return ('a', prefix() + u)
        return ('a', u)

    def tree(depth):
        if depth <= 0 or src.below(10) < 2:
            return atom()
        k = src.pick(['mul', 'mul', 'div', 'div', 'div', 'pow', 'root', 'num', 'num'])
        if k in ('mul', 'div'):
            return (k, tree(depth - 1), tree(depth - 1))
        if k == 'pow':
            return ('pow', tree(depth - 1), src.pick([2, 3, -1, -2, -3, 2, -1, 4]))
        if k == 'root':
            n = src.pick([2, 2, 2, 3, 4, 5, -2])
            e = tree(depth - 2)
            form = src.below(3)
            if form == 0 or abs(n) != 2:
                inner = ('pow', e, abs(n) * src.pick([1, 1, 1, 2]))
            elif form == 1:
                inner = ('mul', e, respell(e))
            else:
                inner = ('div', e, respell(e))
            return ('root', inner, n, src.pick(ROOT_TEXT[n]))
        num = src.pick(NUMBERS)
        return (src.pick(['nmul', 'nmul', 'muln', 'divn', 'ndiv']), num, tree(depth - 1))

    def respell(t):
        """Same tree, every atom replaced by a unit of the same dimension (random prefix)."""
        if t[0] == 'a':
            st_, r = ref_of(L, t[1])
            if st_ != 'valid':
                return t
            return atom(by_dim.get(r.powers) or [t[1]])
        if t[0] in ('mul', 'div'):
            return (t[0], respell(t[1]), respell(t[2]))
        if t[0] == 'pow':
            return ('pow', respell(t[1]), t[2])
        if t[0] == 'root':
            return ('root', respell(t[1]), t[2], src.pick(ROOT_TEXT[t[2]]))
        return (t[0], src.pick(NUMBERS) if src.bit() else t[1], respell(t[2]))

    def render(t, tight=False):
        k = t[0]
        if k == 'a':
            return t[1]
        if k == 'mul':
            s = render(t[1]) + '*' + render(t[2], True)
        elif k == 'div':
            s = render(t[1]) + '/' + render(t[2], True)
        elif k == 'pow':
            e = str(t[2]) if (t[2] > 0 or src.bit()) else f"({t[2]})"
            if t[1][0] == 'a':
                return t[1][1] + '**' + e
            return '(' + render(t[1]) + ')**' + e
        elif k == 'root':
            return ('(' + render(t[1]) + ')' if t[1][0] != 'a' else t[1][1]) + '**' + t[3]
        elif k == 'nmul':
            s = t[1] + '*' + render(t[2], True)
        elif k == 'muln':
            s = render(t[2], True) + '*' + t[1]
        elif k == 'divn':
            s = render(t[2], True) + '/' + t[1]
        else:
            s = t[1] + '/' + render(t[2], True)
        if tight or src.below(10) == 0:
            return '(' + s + ')'
        return s

    def spaced(s):
        if src.below(15) == 0:
            s = re.sub(r'(?<!\*)([*/])(?!\*)', r' \1 ', s)
            if src.bit():
                s = ' ' + s + ' '
        return s

    def temperature():
        u = src.pick(temp_class + offset_names)
        if u not in offset_names and src.below(4) == 0:
            return prefix() + u
        return u

    def warm_list(exprs):
        if src.below(10) < 3:
            return []
        cands = []
        for s in exprs:
            for t in L.info(s)['unit_names']:
                for cut in (1, 2):
                    if len(t) > cut and L.resolutions(t[cut:]):
                        cands.append(t[cut:])
                cands.append(t)
                for p in ('a', 'k', 'm'):
                    r = L.resolutions(p + t)
                    if r and r[0][0] == 'pre':
                        cands.append(p + t)
            cands.append(s)
        out = []
        for _ in range(1 + src.below(4)):
            w = src.below(6)
            if w <= 2 and cands:
                out.append(src.pick(cands))
            elif w == 3:
                out.append(src.pick(hot) + src.pick(common))
            elif w == 4:
                out.append(src.pick(STD_WARM))
            else:
                out.append(render(tree(1)))
        return out

    def values():
        # special values, or +-(1.000 .. 9.999) * 10**(-6..5): no subnormal products at factor ratios <= 1e120
        out = []
        for _ in range(1 + src.below(2)):
            if src.below(3) == 0:
                out.append(src.pick(VALUES))
            else:
                v = (1000 + src.below(9000)) / 1000.0 * 10.0 ** (src.below(12) - 6)
                out.append(-v if src.bit() else v)
        return out

    kind = src.pick(['pair', 'pair', 'pair', 'triple', 'expr', 'expr'])
    n = {'expr': 1, 'pair': 2, 'triple': 3}[kind]
    if kind != 'expr' and src.below(8) == 0:
        exprs = [temperature() for _ in range(n)]
    else:
        t = tree(src.pick([1, 2, 2, 3]))
        exprs = [spaced(render(t))]
        for _ in range(n - 1):
            how = src.below(10)
            if how < 6:
                t2 = respell(t)
            elif how < 7:
                t2 = ('mul', respell(t), ('div', atom(['m', 'ft', 'inch']), atom(['m', 'mi'])))
            elif how < 8:
                t2 = t
            else:
                t2 = tree(src.pick([0, 1, 2]))
            exprs.append(spaced(render(t2)))
        if kind == 'expr' and src.below(12) == 0:
            # unjudged region: an offset unit inside a composite
            exprs = [render((src.pick(['mul', 'div']), tree(1), ('a', src.pick(offset_names))))]
    c = {'kind': kind, 'warm': warm_list(exprs)}
    if kind == 'expr':
        c['s'] = exprs[0]
    else:
        c['a'], c['b'] = exprs[0], exprs[1]
        if kind == 'triple':
            c['c'] = exprs[2]
        c['x'] = values()
    return c


def grammar_tables():
    _, L = _ctx()
    nonoffset = [n for n in L.names if L.lib_unit(n).offset == 0]
    return {'L': L, 'nonoffset': nonoffset,
            'offset_names': [n for n in L.names if L.lib_unit(n).offset != 0],
            'common': [n for n in COMMON if n in L.nameset and n in nonoffset],
            'prefixes': list(L.prefixes), 'by_dim': L.classes_by_dimension(nonoffset),
            'temp_class': [n for n in L.names if L.lib_unit(n).powers == L.lib_unit('K').powers],
            'hot': [p for p in HOT_PREFIXES if p in L.prefixes]}


def strategy():
    from hypothesis import strategies as st
    G = grammar_tables()
    return st.binary(min_size=192, max_size=192).map(lambda data: build_case(data, G))


# ---------------------------------------------------------------------------------------------
# work units
# ---------------------------------------------------------------------------------------------

def units(tier, seed):
    # a worker costs 1-2 s of imports, so the cheap enumerations share four workers
    us = [{'kind': 'enum', 'what': [['anchors'], ['classtriples', 0, 1], ['libpairs', 0, 2, False]]},
          {'kind': 'enum', 'what': [['libpairs', 1, 2, False], ['atoms', 0, 2]]},
          {'kind': 'enum', 'what': [['libpairs', 0, 2, True], ['atoms', 1, 2]]},
          {'kind': 'enum', 'what': [['libpairs', 1, 2, True]]}]
    nrand = 12 if tier == 'quick' else 16
    per = 6000 if tier == 'quick' else 60000
    for i in range(nrand):
        us.append({'kind': 'random', 'n': per, 'seed': core.shard_seed(seed, ID, i)})
    return us


def run_unit(unit, ctx):
    if unit['kind'] == 'random':
        core.run_hypothesis(ctx, strategy(), check, unit['n'], unit['seed'], shrink=unit.get('tier') == 'thorough')
        return
    for w in unit['what']:
        if w[0] == 'anchors':
            core.run_cases(ctx, enum_anchors(), check)
            if ctx.classes.get('reference-disagrees-with-anchor'):
                ctx.harness_error('the reference evaluator of unit_library.ini disagrees with an exact anchor fact')
        elif w[0] == 'libpairs':
            core.run_cases(ctx, enum_libpairs(w[1], w[2], STD_WARM if w[3] else []), check)
        elif w[0] == 'classtriples':
            core.run_cases(ctx, enum_classtriples(w[1], w[2]), check)
        elif w[0] == 'atoms':
            core.run_cases(ctx, enum_atoms(w[1], w[2]), check)
