"""C26  Stock math components compute their formulas and exact partials.

Domain : per component family, option sets drawn from the docstrings (vec_size, length/shape, scaling factors, several
         products / equations, unit options with real conversions at the connection, normalize / use_mult / mult_val /
         rhs_val / add_constraint + ref/ref0/scaler/adder, vectorize_A, spline methods) and integer-coded inputs.
Oracle : the NumPy formula of each docstring written independently (vfw/c26_fams.py, vfw/c26_impl.py), closed-form
         partials, compared with run_model values and compute_totals (fwd and rev) of the isolated component fed by
         IndepVarComps; documented residuals and numpy.linalg.solve for the implicit ones; InterpND / np.interp /
         scipy BSpline for SplineComp.
"""
import hashlib

import numpy as np

from vfw import core
from vfw.core import Result
from vfw import c26_lib as L
from vfw import c26_fams as F
from vfw import c26_impl as I

ID = 'C26'
LEVEL = 'exploration'
TECHNIQUE = ('Hypothesis-generated option sets and integer-coded inputs per stock component; independent NumPy formula and '
             'closed-form Jacobian as reference oracle; compute_totals of the isolated component in fwd and rev; '
             'differential InterpND / np.interp / scipy BSpline oracles for SplineComp')
RULE = ("case = (component family, option set, inputs). Families: AddSubtractComp (1-3 equations, shared inputs, scaling "
        "factors as list/tuple/array, vec_size, length, units, ref/ref0), MuxComp (vec_size 1-4, 1-2 variables, input rank "
        "0-2, every axis 0..rank, shape as tuple/list/int/val-array), DotProductComp / CrossProductComp / "
        "MatrixVectorProductComp / VectorMagnitudeComp (first product via constructor options, more via add_product / "
        "add_magnitude, shared inputs, independent a/b/c unit labels), EQConstraintComp and BalanceComp (1-2 outputs, "
        "shapes of rank 1-2, rhs values on both sides of and exactly at |rhs| = 2 and 0, use_mult, mult_val / rhs_val "
        "defaults left unconnected, normalize on/off, add_constraint with ref/ref0 or scaler/adder, lhs/rhs/mult_kwargs), "
        "LinearSystemComp (size 1-4, vec_size 1-3, vectorize_A) and SplineComp (9 methods, vec_size 1-3, x_cp_val or "
        "num_cp, 1-2 splines, interp_options). Every connected input comes from an IndepVarComp output that may carry a "
        "different compatible unit (factor and offset conversions). Values are n/(4*10^e), |n| <= 4000, e in 0..3. "
        "Non-trivial = more than one point (vec_size > 1 or shape size > 1) and at least two terms / products / outputs "
        "(LinearSystemComp: size >= 2) and a non-default unit conversion or scaling (scaling factors, mult, normalize "
        "branch mix, vectorize_A, non-slinear method). Distinct = distinct canonical JSON.")
ASSUMPTIONS = [
    "units options of the product components are labels: the output in c_units is numerically the product of the inputs "
    "expressed in a_units and b_units (no implicit conversion), as the docstrings state the bare NumPy formula",
    "unit conversion factors come from the harness's own table (SI definitions), not from openmdao.utils.units",
    "tolerance: 1e-10 times the sum of the magnitudes of the terms of the formula (so cancellation is not judged "
    "relatively); LinearSystemComp additionally times cond(A) (cases with cond > 1e6 are discarded)",
    "VectorMagnitudeComp is not judged at a zero vector (derivative undefined)",
    "BalanceComp / LinearSystemComp partials are read through Problem.check_partials (J_fwd) with the documented "
    "OPENMDAO_CHECK_ALL_PARTIALS override; BalanceComp totals in fwd and rev go through a feedback lhs = state + q with "
    "a DirectSolver because the isolated component has a singular dR/dstate",
    "SplineComp: akima is not linear in the control points, its partials are compared with gated central differences of "
    "InterpND (1e-3 relative); the other methods by the response to unit control-point vectors",
    "MuxComp axis is drawn in 0..rank (the documented range); negative axes are not judged",
]
BOUND = {'quick': '4 units x 75 cases per family (10 families)', 'thorough': '16 units x 625 cases per family'}
MIN_CLASS_FRACTION = {'judged': 0.8, 'addsub': 0.07, 'mux': 0.07, 'dot': 0.07, 'cross': 0.07, 'matvec': 0.07,
                      'vmag': 0.07, 'eq': 0.07, 'bal': 0.07, 'linsys': 0.07, 'spline': 0.07,
                      'unit_conversion': 0.2, 'eq_branch_mix': 0.03}
UNIT_TIMEOUT = {'quick': 1800, 'thorough': 14400}

FAMILY_NAMES = ['addsub', 'mux', 'dot', 'cross', 'matvec', 'vmag', 'eq', 'bal', 'linsys', 'spline']


# ---------------------------------------------------------------------------------------------------------------
# check
# ---------------------------------------------------------------------------------------------------------------

def _unit_classes(inputs):
    cls = []
    if any(d.converted and d.f != 1.0 for d in inputs.values()):
        cls.append('unit_conversion')
    if any(d.enc is not None and d.su in ('degC', 'degF', 'degK', 'degR') and d.su != d.cu for d in inputs.values()):
        cls.append('unit_offset')
    if any(d.enc is None for d in inputs.values()):
        cls.append('default_input')
    return cls


def check(case):
    fam = case['comp']
    res = Result(classes=[fam])
    if fam in ('addsub', 'mux', 'dot', 'cross', 'matvec', 'vmag', 'eq'):
        f = getattr(F, 'fam_' + fam)(case)
        res.classes += _unit_classes(f.inputs)
        if fam == 'vmag' and f.degenerate:
            res.discard = 'zero vector: derivative undefined'
            return res
        post = None
        if fam == 'eq':
            post = _eq_post(case, res)
        L.judge_explicit(f, res, post=post)
        _classify_explicit(case, f, res)
    elif fam == 'bal':
        I.judge_bal(case, res)
        _classify_bal(case, res)
    elif fam == 'linsys':
        I.judge_linsys(case, res)
        if case['vec'] > 1:
            res.classes.append('vec>1')
        if case['vecA'] and case['vec'] > 1:
            res.classes.append('vectorize_A')
        res.nontrivial = case['vec'] > 1 and case['size'] >= 2
    elif fam == 'spline':
        I.judge_spline(case, res)
        res.classes.append('spline_' + case['method'])
        if case['vec'] > 1:
            res.classes.append('vec>1')
        if I.known_spline_xinterp_list(case) or I.known_spline_ycp_list(case) or I.known_spline_bsplines_square(case):
            res.classes.append('known_input')
        res.nontrivial = case['vec'] > 1 and (len(case['splines']) > 1 or case['method'] not in ('slinear',))
    else:
        raise ValueError(fam)
    if not res.discard:
        res.classes.append('judged')
    return res


def _eq_post(case, res):
    outs = [o for o in case['outs'] if o['add_constraint']]

    def post(mode, got, J, p, wrt):
        if not outs:
            return
        cons = p.model.get_constraints()
        vals = p.driver.get_constraint_values(driver_scaling=True)
        for o in outs:
            key = 'c.' + o['name']
            if key not in cons:
                res.fail('eq:constraint-not-added', f"{key} not in {sorted(cons)}")
                continue
            if cons[key]['equals'] is None or np.any(np.asarray(cons[key]['equals']) != 0.0):
                res.fail('eq:constraint-not-equality-zero', repr(cons[key]['equals']))
            adder, scaler = F.eq_constraint_expect(o)
            v = got[o['name']]
            exp = (v + adder) * scaler
            msg = L.worst(np.asarray(vals[key], dtype=float).reshape(exp.shape), exp, (np.abs(v) + abs(adder)) * abs(scaler))
            if msg:
                res.fail('eq:constraint-driver-scaling', f"{key} ({mode}): {msg}")
        for o in case['outs']:
            if not o['add_constraint'] and ('c.' + o['name']) in cons:
                res.fail('eq:constraint-added-without-option', o['name'])
    return post


def _classify_explicit(case, f, res):
    fam = case['comp']
    cls = res.classes
    conv = 'unit_conversion' in cls
    if fam == 'addsub':
        n = len(case['eqs'])
        vec = any(e['vec'] > 1 for e in case['eqs'])
        scal = any(e['sf'] is not None for e in case['eqs'])
        if any(F.known_addsub_dup(e) for e in case['eqs']):
            cls.append('known_input')
        res.nontrivial = vec and (n >= 2 or any(len(e['ins']) >= 3 for e in case['eqs'])) and (conv or scal)
    elif fam == 'mux':
        vec = case['vec'] > 1
        if any(v['shk'] in ('int', 'val') for v in case['vars']):
            cls.append('known_input')
        if any(v['axis'] > 0 for v in case['vars']):
            cls.append('mux_axis>0')
        res.nontrivial = vec and any(len(v['shape']) >= 1 for v in case['vars']) and \
            (conv or any(v['axis'] > 0 for v in case['vars']))
    elif fam in ('dot', 'cross', 'matvec'):
        n = len(case['prods'])
        vec = any(pr['vec'] > 1 for pr in case['prods'])
        if fam != 'matvec' and any(pr['a'] == pr['b'] for pr in case['prods']):
            cls.append('known_input')
        res.nontrivial = vec and n >= 2 and conv
    elif fam == 'vmag':
        res.nontrivial = any(g['vec'] > 1 for g in case['mags']) and len(case['mags']) >= 2 and conv
    elif fam == 'eq':
        mix = _branch_mix(case['outs'], f.inputs, lambda o: o.get('rhs_name') or f"rhs:{o['name']}")
        if mix:
            cls.append('eq_branch_mix')
        if any(o['add_constraint'] for o in case['outs']):
            cls.append('add_constraint')
        if any(o['use_mult'] for o in case['outs']):
            cls.append('use_mult')
        big = any(int(np.prod(o['shape'])) > 1 for o in case['outs'] if o['shape'] is not None)
        res.nontrivial = big and len(case['outs']) >= 2 and (conv or mix or any(o['use_mult'] for o in case['outs']))
    if any(getattr(d, 'size', 1) > 1 for d in f.inputs.values()):
        cls.append('vec>1')
    if fam in ('addsub', 'dot', 'cross', 'matvec', 'vmag', 'eq') and \
            len(case.get('eqs') or case.get('prods') or case.get('mags') or case.get('outs')) >= 2:
        cls.append('multi')


def _branch_mix(outs, inputs, rhs_name):
    """normalize=True and rhs entries on both sides of |rhs| = 2 inside one variable."""
    for o in outs:
        if not o['normalize']:
            continue
        r = np.abs(inputs[rhs_name(o)].val)
        if np.any(r < 2.0) and np.any(r >= 2.0):
            return True
    return False


def _classify_bal(case, res):
    cls = res.classes
    bals = case['bals']
    if any(b['use_mult'] for b in bals):
        cls.append('use_mult')
    if any(len(I.bal_shape(b)) >= 2 for b in bals):
        cls.append('bal_rank2')
    if I.known_bal_ctor_rhs_kwargs(case) or I.known_bal_shared_kwargs(case):
        cls.append('known_input')
    if case.get('fb'):
        cls.append('bal_feedback')
    conv = False
    mix = False
    for b in bals:
        shape = I.bal_shape(b)
        rn = b.get('rhs_name') or f"rhs:{b['name']}"
        for nm in (b.get('lhs_name') or f"lhs:{b['name']}", rn, b.get('mult_name') or f"mult:{b['name']}"):
            v = case['vals'].get(nm)
            if v is not None and v.get('su') is not None:
                conv = True
        v = case['vals'].get(rn)
        if b['normalize'] and v is not None:
            r = np.abs(L.dec(v))
            # before conversion; good enough for the class label
            if np.any(r < 2.0) and np.any(r >= 2.0):
                mix = True
    if conv:
        cls.append('unit_conversion')
    if mix:
        cls.append('eq_branch_mix')
    big = any(int(np.prod(I.bal_shape(b))) > 1 for b in bals)
    res.nontrivial = big and len(bals) >= 2 and (conv or mix or any(b['use_mult'] for b in bals))


# ---------------------------------------------------------------------------------------------------------------
# strategies
# ---------------------------------------------------------------------------------------------------------------

SPECIAL_RHS = [0, 8, -8, 7, 9, -7, -9, 4, -4, 6, -6, 10, -10, 12, 20, -20, 1, -1, 400, -400]


def strategy(fam):
    from hypothesis import strategies as st

    ints = st.integers(-4000, 4000)

    def roll(draw, n):
        """uniform integer in 0..n (st.integers is biased towards small values)"""
        return draw(st.sampled_from(range(n + 1)))

    def rare(draw, n):
        """True with probability about 1/(n+1); not tied to index 0, which Hypothesis over-represents"""
        return draw(st.sampled_from(range(n + 1))) == (n + 1) // 2
    nz = st.integers(1, 4000).flatmap(lambda n: st.sampled_from([n, -n]))

    def arr(draw, size, nonzero=False, e=None):
        el = nz if nonzero else ints
        return {'n': draw(st.lists(el, min_size=size, max_size=size)),
                'e': draw(st.integers(0, 3)) if e is None else e}

    def units_pair(draw, p_none=0.35, fams=None, allow_temp=True):
        """(component unit, source unit) of one family, or (None, None)."""
        if draw(st.floats(0, 1)) < p_none:
            return None, None
        names = sorted(L.FAMILIES)
        if not allow_temp:
            names = [n for n in names if n != 'temp']
        fm = draw(st.sampled_from(fams or names))
        return draw(st.sampled_from(L.FAMILIES[fm])), draw(st.sampled_from(L.FAMILIES[fm]))

    def src(draw, enc, cu):
        """attach a source unit to an encoded input of component unit cu."""
        if cu is None or cu not in L.UNIT:
            enc['su'] = None
        else:
            fm = L.UNIT[cu][0]
            enc['su'] = draw(st.sampled_from(L.FAMILIES[fm] + [cu, cu]))
        return enc

    # ---- AddSubtractComp --------------------------------------------------------------------------------
    @st.composite
    def addsub(draw):
        ngroups = draw(st.sampled_from([1, 1, 2]))
        groups = []
        for g in range(ngroups):
            cu, _ = units_pair(draw)
            groups.append({'vec': draw(st.integers(1, 4)), 'len': draw(st.sampled_from([1, 1, 2, 3])), 'units': cu,
                           'pool': [f"g{g}i{k}" for k in range(draw(st.integers(2, 4)))]})
        neq = draw(st.integers(1, 3))
        eqs = []
        used = {}
        for i in range(neq):
            g = groups[draw(st.integers(0, ngroups - 1))]
            k = draw(st.integers(2, len(g['pool'])))
            ins = draw(st.permutations(g['pool']))[:k]
            if rare(draw, 29):
                ins = ins + [ins[0]]                       # the same input twice (accepted with a warning)
            sf = None
            if (not rare(draw, 3)):
                sf = [draw(st.sampled_from([4, -4, 4, -4, 2, 10, -6, 1, 0, 400, -1])) if draw(st.booleans())
                      else draw(st.integers(-40, 40)) for _ in ins]
            e = {'out': f"o{i}", 'ins': list(ins), 'vec': g['vec'], 'len': g['len'], 'units': g['units'], 'sf': sf,
                 'sfk': draw(st.sampled_from(['list', 'tuple', 'array'])), 'ins_tuple': draw(st.booleans()),
                 'ctor': draw(st.booleans()), 'explicit_defaults': draw(st.booleans())}
            if rare(draw, 4):
                e['ref'] = draw(st.sampled_from([8, 40, 2, -4]))
            if rare(draw, 4):
                e['ref0'] = draw(st.sampled_from([1, 6, -2]))        # never equal to ref
            eqs.append(e)
            for n in ins:
                used[n] = g
        vals = {}
        for n, g in sorted(used.items()):
            vals[n] = src(draw, arr(draw, g['vec'] * g['len']), g['units'])
        return {'comp': 'addsub', 'eqs': eqs, 'vals': vals, 'complex': rare(draw, 9)}

    # ---- MuxComp ----------------------------------------------------------------------------------------
    @st.composite
    def mux(draw):
        k = draw(st.integers(1, 4))
        nv = draw(st.sampled_from([1, 1, 2]))
        vs, vals = [], {}
        for i in range(nv):
            rank = draw(st.sampled_from([0, 1, 1, 2, 2, 3]))
            shape = [draw(st.integers(1, 3)) for _ in range(rank)]
            cu, _ = units_pair(draw)
            if rank == 0:
                shk = draw(st.sampled_from(['scalar', 'scalar', 'tuple']))
            else:
                shk = draw(st.sampled_from(['tuple'] * 10 + ['list'] * 8 + (['int'] if rank == 1 else ['val']) + ['val']))
            v = {'name': f"y{i}", 'shape': shape, 'shk': shk, 'axis': draw(st.integers(0, rank)), 'units': cu,
                 'explicit_axis': draw(st.booleans())}
            vs.append(v)
            size = int(np.prod(shape)) if shape else 1
            for j in range(k):
                vals[f"y{i}_{j}"] = src(draw, arr(draw, size), cu)
        return {'comp': 'mux', 'vec': k, 'vars': vs, 'vals': vals, 'explicit_vec': draw(st.booleans())}

    # ---- Dot / Cross ------------------------------------------------------------------------------------
    def two_operand(fam_name, with_len):
        @st.composite
        def gen(draw):
            ngroups = draw(st.sampled_from([1, 1, 2]))
            groups = []
            for g in range(ngroups):
                pool = {}
                for kk in range(draw(st.integers(2, 3))):
                    pool[f"g{g}v{kk}"] = units_pair(draw)[0]
                groups.append({'vec': draw(st.integers(1, 4)), 'len': draw(st.integers(1, 4)) if with_len else 3,
                               'pool': pool})
            nprod = draw(st.integers(1, 3))
            prods, used = [], {}
            for i in range(nprod):
                g = groups[draw(st.integers(0, ngroups - 1))]
                names = sorted(g['pool'])
                a = draw(st.sampled_from(names))
                if rare(draw, 24):
                    b = a
                else:
                    b = draw(st.sampled_from([n for n in names if n != a]))
                pr = {'c': f"c{i}", 'a': a, 'b': b, 'au': g['pool'][a], 'bu': g['pool'][b],
                      'cu': draw(st.sampled_from(L.LABEL_UNITS)), 'vec': g['vec']}
                if with_len:
                    pr['len'] = g['len']
                prods.append(pr)
                used[a] = g
                used[b] = g
            vals = {}
            for n, g in sorted(used.items()):
                vals[n] = src(draw, arr(draw, g['vec'] * g['len']), g['pool'][n])
            return {'comp': fam_name, 'prods': prods, 'vals': vals}
        return gen()

    # ---- MatrixVectorProductComp ------------------------------------------------------------------------
    @st.composite
    def matvec(draw):
        v = draw(st.integers(1, 3))
        nprod = draw(st.integers(1, 3))
        prods, vals = [], {}
        Apool, xpool = {}, {}
        for i in range(nprod):
            reuse_A = Apool and rare(draw, 3)
            if reuse_A:
                A = draw(st.sampled_from(sorted(Apool)))
                n, m, Au = Apool[A]
            else:
                A = f"A{i}"
                n, m, Au = draw(st.integers(1, 3)), draw(st.integers(1, 3)), units_pair(draw)[0]
                Apool[A] = (n, m, Au)
            cands = [x for x in sorted(xpool) if xpool[x][0] == m]
            if cands and rare(draw, 2):
                x = draw(st.sampled_from(cands))
                xu = xpool[x][1]
            else:
                x = f"x{i}"
                xu = units_pair(draw)[0]
                xpool[x] = (m, xu)
            prods.append({'b': f"b{i}", 'A': A, 'x': x, 'Au': Au, 'xu': xu, 'bu': draw(st.sampled_from(L.LABEL_UNITS)),
                          'vec': v, 'shape': [n, m]})
        for A, (n, m, Au) in sorted(Apool.items()):
            vals[A] = src(draw, arr(draw, v * n * m), Au)
        for x, (m, xu) in sorted(xpool.items()):
            if any(pr['x'] == x for pr in prods):
                vals[x] = src(draw, arr(draw, v * m), xu)
        return {'comp': 'matvec', 'prods': prods, 'vals': vals}

    # ---- VectorMagnitudeComp ----------------------------------------------------------------------------
    @st.composite
    def vmag(draw):
        nm = draw(st.integers(1, 3))
        mags, vals, pool = [], {}, {}
        for i in range(nm):
            if pool and rare(draw, 3):
                nin = draw(st.sampled_from(sorted(pool)))
            else:
                nin = f"a{i}"
                pool[nin] = (draw(st.integers(1, 4)), draw(st.integers(1, 4)), units_pair(draw, allow_temp=False)[0])
            v, ln, u = pool[nin]
            mags.append({'mag': f"m{i}", 'in': nin, 'vec': v, 'len': ln, 'units': u})
        for nin, (v, ln, u) in sorted(pool.items()):
            enc = arr(draw, v * ln)
            for r in range(v):                        # no all-zero vector (derivative undefined there)
                row = enc['n'][r * ln:(r + 1) * ln]
                if not any(row):
                    enc['n'][r * ln] = draw(nz)
            vals[nin] = src(draw, enc, u)
        return {'comp': 'vmag', 'mags': mags, 'vals': vals}

    # ---- EQConstraintComp / BalanceComp -----------------------------------------------------------------
    def rhs_arr(draw, size):
        kind = draw(st.sampled_from(['special', 'special', 'small', 'any']))
        out = []
        for _ in range(size):
            if kind == 'special' or rare(draw, 2):
                out.append(draw(st.sampled_from(SPECIAL_RHS)))
            elif kind == 'small':
                out.append(draw(st.integers(-16, 16)))
            else:
                out.append(draw(ints))
        return {'n': out, 'e': 0}

    def eq_like(draw, i, is_bal):
        rank = draw(st.sampled_from([0, 1, 1, 1, 2, 2]))
        shape = None if rank == 0 else [draw(st.integers(1, 3)) for _ in range(rank)]
        size = int(np.prod(shape)) if shape else 1
        eq_units = units_pair(draw, p_none=0.5, allow_temp=False)[0]
        o = {'name': f"e{i}", 'eq_units': eq_units, 'shape': shape,
             'use_mult': draw(st.booleans()), 'normalize': draw(st.sampled_from([True, True, True, False])),
             'rhs_val': None, 'mult_val': None}
        if rare(draw, 3):
            o['lhs_name'] = f"L{i}"
        if rare(draw, 3):
            o['rhs_name'] = f"R{i}"
        if o['use_mult'] and rare(draw, 3):
            o['mult_name'] = f"M{i}"
        if draw(st.booleans()):
            o['rhs_val'] = draw(st.sampled_from(SPECIAL_RHS)) if (draw(st.booleans()) or shape is None) \
                else [draw(st.sampled_from(SPECIAL_RHS)) for _ in range(size)]
        if o['use_mult'] and draw(st.booleans()):
            o['mult_val'] = draw(st.sampled_from([8, -4, 2, 6, 40])) if (draw(st.booleans()) or shape is None) \
                else [draw(st.sampled_from([8, -4, 2, 6, 40, 1])) for _ in range(size)]
        o['units'] = draw(st.sampled_from([None, None, 'm', 'N', 'kg']))
        o['ctor'] = draw(st.booleans())
        return o, shape, size

    def eq_vals(draw, o, size, vals, lhs_u, rhs_u, mult_u, prefix_names):
        ln, rn, mn = prefix_names
        if (not rare(draw, 5)):
            vals[ln] = src(draw, arr(draw, size), lhs_u)
        if (not rare(draw, 3)):
            enc = rhs_arr(draw, size)
            vals[rn] = src(draw, enc, rhs_u)
        if o['use_mult'] and (not rare(draw, 3)):
            vals[mn] = src(draw, arr(draw, size, nonzero=(not rare(draw, 5))), mult_u)

    @st.composite
    def eq(draw):
        n = draw(st.sampled_from([1, 2, 2, 3]))
        outs, vals = [], {}
        for i in range(n):
            o, shape, size = eq_like(draw, i, False)
            o['shk'] = draw(st.sampled_from(['shape', 'shape', 'val']))
            o['add_constraint'] = rare(draw, 2)
            o['cons'] = {}
            if o['add_constraint']:
                kind = draw(st.sampled_from(['none', 'ref', 'ref0', 'refs', 'scaler', 'adder', 'both']))
                if kind in ('ref', 'refs'):
                    o['cons']['ref'] = draw(st.sampled_from([8, 40, 2, -4, 400]))
                if kind in ('ref0', 'refs'):
                    o['cons']['ref0'] = draw(st.sampled_from([1, -2, 6]))
                if kind in ('scaler', 'both'):
                    o['cons']['scaler'] = draw(st.sampled_from([8, 2, -4, 400]))
                if kind in ('adder', 'both'):
                    o['cons']['adder'] = draw(st.sampled_from([4, -2, 6]))
            outs.append(o)
            nm = o['name']
            names = (o.get('lhs_name') or f"lhs:{nm}", o.get('rhs_name') or f"rhs:{nm}", o.get('mult_name') or f"mult:{nm}")
            eq_vals(draw, o, size, vals, o['eq_units'], o['eq_units'], None, names)
        return {'comp': 'eq', 'outs': outs, 'vals': vals}

    @st.composite
    def bal(draw):
        n = draw(st.sampled_from([1, 2, 2]))
        bals, vals, state = [], {}, {}
        for i in range(n):
            b, shape, size = eq_like(draw, i, True)
            if shape is None:
                b['sizing'] = draw(st.sampled_from(['scalar', 'scalar_val']))
            else:
                opts = ['shape', 'shape', 'val']
                if isinstance(b['rhs_val'], list):
                    opts += ['rhs_val', 'rhs_val', 'rhs_val']
                b['sizing'] = draw(st.sampled_from(opts))
            fam_units = L.FAMILIES[L.UNIT[b['eq_units']][0]] if b['eq_units'] else ['m', 'cm', 'ft']
            for side, p in (('lhs', 6), ('rhs', 6), ('mult', 8)):
                if rare(draw, p):
                    d = {}
                    if side == 'mult':
                        d['units'] = draw(st.sampled_from(['s', 'kg', 'm']))
                    elif (not rare(draw, 3)):
                        d['units'] = draw(st.sampled_from(fam_units))
                    if side == 'rhs' and rare(draw, 2) and not isinstance(b['rhs_val'], list):
                        d['val'] = draw(st.sampled_from(SPECIAL_RHS))
                    b[side + '_kw'] = d
            if i > 0 and rare(draw, 14) and bals[0].get('lhs_kw') is not None:
                b['share_lhs_kw'] = True
            if b['ctor'] and i == 0 and (b.get('rhs_kw') is not None or b.get('lhs_kw') is not None) and (not rare(draw, 2)):
                b['ctor'] = False                          # keep the constructor + rhs_kwargs combination rare
            bals.append(b)
            nm = b['name']
            names = (b.get('lhs_name') or f"lhs:{nm}", b.get('rhs_name') or f"rhs:{nm}", b.get('mult_name') or f"mult:{nm}")
            lu, ru, mu = I.bal_units(b)
            eq_vals(draw, b, size, vals, lu, ru, mu, names)
            state[nm] = arr(draw, size)
        return {'comp': 'bal', 'bals': bals, 'vals': vals, 'state': state, 'fb': draw(st.booleans())}

    # ---- LinearSystemComp -------------------------------------------------------------------------------
    @st.composite
    def linsys(draw):
        n = draw(st.integers(1, 4))
        v = draw(st.integers(1, 3))
        vecA = draw(st.booleans())
        nA = v if (vecA and v > 1) else 1
        A = []
        for k in range(nA):
            for i in range(n):
                for j in range(n):
                    if i == j:
                        d = draw(st.integers(40 * n + 1, 40 * n + 400))
                        A.append(d if draw(st.booleans()) else -d)
                    else:
                        A.append(draw(st.integers(-40, 40)))
        return {'comp': 'linsys', 'size': n, 'vec': v, 'vecA': vecA, 'A': {'n': A, 'e': draw(st.integers(0, 2))},
                'b': arr(draw, v * n), 'x0': arr(draw, v * n), 'explicit_vec': draw(st.booleans())}

    # ---- SplineComp -------------------------------------------------------------------------------------
    @st.composite
    def spline(draw):
        method = draw(st.sampled_from(['slinear', 'slinear', 'lagrange2', 'lagrange3', 'cubic', 'akima', 'bsplines',
                                       'scipy_cubic', 'scipy_slinear', 'scipy_quintic']))
        v = draw(st.integers(1, 3))
        opts = {}
        order = 4
        if method == 'bsplines' and draw(st.booleans()):
            order = draw(st.integers(2, 5))
            opts['order'] = order
        ncp = draw(st.integers(max(I.MIN_CP[method], order if method == 'bsplines' else 0), 8))
        use_num = method == 'bsplines' or rare(draw, 3)
        if use_num:
            x_cp, num_cp = None, ncp
            lo, hi = 0, 8                                   # x_interp in eighths
        else:
            steps = draw(st.lists(st.integers(1, 12), min_size=ncp - 1, max_size=ncp - 1))
            x0 = draw(st.integers(-40, 40))
            x_cp = [x0]
            for s_ in steps:
                x_cp.append(x_cp[-1] + s_)
            num_cp = None
            lo, hi = 2 * x_cp[0], 2 * x_cp[-1]
        ni = draw(st.integers(2, 7))
        pts = set()
        extrap = method != 'bsplines' and rare(draw, 3)
        pad = max(1, (hi - lo) // 4) if extrap else 0
        for _ in range(ni):
            if x_cp is not None and rare(draw, 2):
                pts.add(2 * draw(st.sampled_from(x_cp)))       # exactly on a node
            else:
                pts.add(draw(st.integers(lo - pad, hi + pad)))
        pts = sorted(pts)
        if len(pts) < 2:
            pts = sorted({lo, hi})
        if method == 'bsplines' and draw(st.booleans()):
            pts = sorted(set(pts) | {lo, hi})
        ns = draw(st.sampled_from([1, 1, 2]))
        splines, vals = [], {}
        for i in range(ns):
            u = units_pair(draw)[0]
            s_ = {'cp': f"ycp{i}", 'out': f"y{i}", 'units': u}
            if rare(draw, 2):
                s_['ycp'] = arr(draw, v * ncp)
                s_['ycp2d'] = True if v > 1 else draw(st.booleans())
                s_['ycpk'] = 'list' if rare(draw, 5) else 'array'
            if s_.get('ycp') is None or draw(st.booleans()):
                vals[s_['cp']] = src(draw, arr(draw, v * ncp), u)
            splines.append(s_)
        return {'comp': 'spline', 'method': method, 'vec': v, 'x_cp': x_cp, 'num_cp': num_cp, 'x_interp': pts,
                'xik': 'list' if rare(draw, 11) else 'array', 'xck': draw(st.sampled_from(['list', 'array'])),
                'opts': opts, 'splines': splines, 'vals': vals}

    return {'addsub': addsub(), 'mux': mux(), 'dot': two_operand('dot', True), 'cross': two_operand('cross', False),
            'matvec': matvec(), 'vmag': vmag(), 'eq': eq(), 'bal': bal(), 'linsys': linsys(), 'spline': spline()}[fam]


# ---------------------------------------------------------------------------------------------------------------
# work units
# ---------------------------------------------------------------------------------------------------------------

def units(tier, seed):
    nunits = 4 if tier == 'quick' else 16
    per = 75 if tier == 'quick' else 625
    return [{'kind': 'random', 'n': per, 'seed': core.shard_seed(seed, ID, i), 'families': FAMILY_NAMES}
            for i in range(nunits)]


def run_unit(unit, ctx):
    for k, fam in enumerate(unit['families']):
        fseed = int(hashlib.sha256(f"{unit['seed']}:{fam}".encode()).hexdigest()[:8], 16)
        core.run_hypothesis(ctx, strategy(fam), check, unit['n'], fseed, shrink=unit.get('tier') == 'thorough')
