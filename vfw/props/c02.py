"""C02  Forward and reverse linear operators are exact adjoints.

Oracle : the dot-product identity <w, J v> = <J^T w, v> on total jvp/vjp products, on apply_linear of every group and on
         solve_linear of the root; paired with the absolute check  J v == J_ref v  (reference of C01) so that two
         consistently wrong operators cannot pass.
"""
import numpy as np

from vfw import core
from vfw.core import Result

ID = 'C02'
LEVEL = 'exploration'
TECHNIQUE = 'Hypothesis-generated model programs and seed vectors; dot-product (adjoint) identity as metamorphic oracle + reference J_ref v as absolute oracle'
RULE = ("case = model spec (see C01; duplicated source positions in src_indices, unit factors, matrix-free components, "
        "assembled jacobians, implicit components) + integer-coded seed vectors v (design-variable space), w (response "
        "space) and seeds for the linear vectors of every group. Judged: total jvp vs vjp, run_apply_linear fwd vs rev of "
        "the root and of every sub-group (external inputs as free variables), run_solve_linear fwd vs rev of the root. "
        "Non-trivial = a src_indices connection with a repeated source position, or an assembled jacobian, or a sub-group "
        "operator with external inputs, or a matrix-free component. Distinct = distinct canonical JSON.")
ASSUMPTIONS = [
    "serial vectors/transfers only",
    "problems are set up with mode 'rev' or 'auto' (a problem set up with mode='fwd' has no reverse transfers by design)",
    "linear solvers run with err_on_non_converge=True; AnalysisError discards the case",
    "identity tolerance 1e-10 * max(1, cond) * (|lhs| + |rhs| + norm products); reference tolerance as in C01",
]
MIN_CLASS_FRACTION = {'judged': 0.5}


def _dup_positions(spec):
    from vfw.refmodel import RefModel
    ref = RefModel(spec)
    for m in ref.inmap.values():
        if m['kind'] != 'const' and len(set(m['pos'].tolist())) < len(m['pos']):
            return True
    return False


def _seed(vals, n):
    v = np.array([(vals[i % len(vals)] if vals else 1) for i in range(n)], dtype=float) / 4.0
    return v


def check(case):
    import openmdao.api as om
    from vfw.gen_model import build_problem
    from vfw.refmodel import RefModel
    from vfw.props.c01 import spec_flags, known_sigs_for, tag
    spec = case['spec']
    q = case['query']
    res = Result()
    flags = spec_flags(spec)
    cls = sorted(flags)
    known = known_sigs_for(spec, flags, q)
    ref = RefModel(spec)
    try:
        p, groups = build_problem(spec, mode=case.get('mode', 'auto'))
        p.final_setup()
        p.run_model()
        p.model.run_linearize()
    except om.AnalysisError:
        res.discard = 'nonconverged'
        res.classes = cls + ['nonconverged']
        return res
    except Exception as e:
        sig = core.repo_frame_signature(e, 'setup-or-run')
        if sig is None:
            raise
        res.fail(tag(known, sig), f"{type(e).__name__}: {e}")
        res.classes = cls
        return res
    u_om = np.zeros(ref.nu)
    for n, m in ref.uvars.items():
        u_om[m['off']:m['off'] + m['size']] = np.asarray(p.get_val(n)).ravel()
    if not np.all(np.isfinite(u_om)) or (u_om.size and float(np.max(np.abs(u_om))) > 1e12):
        res.discard = 'nonfinite'
        return res
    u_ref, rn = ref.solve(u_om, ref.x0)
    if not rn < 1e-10:
        res.discard = 'reference-newton-failed'
        return res
    dudx, cond = ref.totals(u_ref, ref.x0)
    ref_scale = ref.totals_scale(u_ref, ref.x0)
    if not np.isfinite(cond) or cond > 1e8:
        res.discard = 'ill-conditioned'
        return res
    ofs = [ref.var_positions(n) for n in q['of']]
    wrts = [ref.var_positions(n) for n in q['wrt']]
    Jref = np.block([[ref.total_block(dudx, (ok, op), (wk, wp)) for (wk, wp, _) in wrts] for (ok, op, _) in ofs])
    nv = sum(len(wp) for _, wp, _ in wrts)
    nw = sum(len(op) for _, op, _ in ofs)
    v = _seed(case['v'], nv)
    w = _seed(case['w'], nw)

    def split(vec, metas):
        out, o = [], 0
        for (_, pos, m) in metas:
            out.append(vec[o:o + len(pos)].reshape(m['shape']))
            o += len(pos)
        return out

    try:
        jv = p.compute_jacvec_product(q['of'], q['wrt'], 'fwd', split(v, wrts))
        jtw = p.compute_jacvec_product(q['of'], q['wrt'], 'rev', split(w, ofs))
    except om.AnalysisError:
        res.discard = 'linear-nonconverged'
        res.classes = cls + ['nonconverged']
        return res
    except Exception as e:
        sig = core.repo_frame_signature(e, 'jacvec')
        if sig is None:
            raise
        res.fail(tag(known, sig), f"{type(e).__name__}: {e}")
        res.classes = cls
        return res
    Jv = np.concatenate([np.asarray(jv[n]).ravel() for n in q['of']])
    JTw = np.concatenate([np.asarray(jtw[n]).ravel() for n in q['wrt']])
    lhs = float(w @ Jv)
    rhs = float(JTw @ v)
    scale = abs(lhs) + abs(rhs) + float(np.linalg.norm(w) * np.linalg.norm(Jv) + np.linalg.norm(JTw) * np.linalg.norm(v))
    # plus the round-off floor of the linear solves, which is relative to the largest total derivative of the whole model
    # (a product that is zero in exact arithmetic is obtained by cancelling terms of that size)
    big = 1.0 + ref_scale
    floor = 8 * np.finfo(float).eps * max(1.0, cond) * big * float(np.linalg.norm(w) * np.linalg.norm(v))
    # (and the absolute tolerance of the iterative linear solvers, 1e-14 on scaled residuals, which output/residual
    # scaling factors of up to 250/0.01 turn into ~1e-12 on physical values)
    tol = 1e-10 * max(1.0, cond) * scale + 1e-12 * (1.0 + float(np.linalg.norm(w) * np.linalg.norm(v))) + floor
    if not abs(lhs - rhs) <= tol:
        res.fail(tag(known, 'totals:jvp-vjp-not-adjoint'), f"<w,Jv>={lhs!r} <JTw,v>={rhs!r} tol={tol:.2e} cond={cond:.2e}")
    rt = 1e-9 * max(1.0, cond)
    for name, got, exp in (('jvp', Jv, Jref @ v), ('vjp', JTw, Jref.T @ w)):
        t = rt * (float(np.max(np.abs(exp))) if exp.size else 0.0) + 1e-11 + \
            8 * np.finfo(float).eps * max(1.0, cond) * big * float(np.linalg.norm(v if name == 'jvp' else w))
        if got.shape != exp.shape or (got.size and float(np.max(np.abs(got - exp))) > t):
            res.fail(tag(known, f"totals:{name}-differs-from-reference"), f"{name}: got {got.tolist()} expected {exp.tolist()}")

    # ---- internal operators ------------------------------------------------------------------------------------------
    nsub = 0
    for gi, (key, g) in enumerate(sorted(groups.items())):
        outs = list(g._var_allprocs_abs2meta['output'])
        ins = list(g._var_allprocs_abs2meta['input'])
        conn = p.model._conn_global_abs_in2out
        pre = key + '.' if key else ''
        ext_ins = [n for n in ins if not conn.get(n, '').startswith(pre) or (key == '' and False)]
        if key == '':
            ext_ins = [n for n in ins if n not in conn]
        nout = sum(g._var_allprocs_abs2meta['output'][n]['size'] for n in outs)

        def setv(vec, names, data):
            o = 0
            for n in names:
                sz = vec._abs_get_val(n).size
                vec._abs_get_val(n, flat=True)[:] = data[o:o + sz]
                o += sz

        def getv(vec, names):
            return np.concatenate([np.asarray(vec._abs_get_val(n)).ravel() for n in names]) if names else np.zeros(0)

        nin_ext = sum(g._dinputs._abs_get_val(n).size for n in ext_ins)
        xo = _seed(case['s1'][gi:] + case['s1'][:gi], nout)
        xi = _seed(case['s2'][gi:] + case['s2'][:gi], nin_ext)
        r = _seed(case['s3'][gi:] + case['s3'][:gi], nout)
        try:
            # forward:  d_residuals = A (d_outputs, d_inputs_ext)
            g._dinputs.set_val(0.0)
            g._dresiduals.set_val(0.0)
            setv(g._doutputs, outs, xo)
            setv(g._dinputs, ext_ins, xi)
            g.run_apply_linear('fwd')
            Ax = getv(g._dresiduals, outs).copy()
            # reverse:  (d_outputs, d_inputs) = A^T d_residuals
            g._dinputs.set_val(0.0)
            g._doutputs.set_val(0.0)
            setv(g._dresiduals, outs, r)
            g.run_apply_linear('rev')
            ATr_o = getv(g._doutputs, outs).copy()
            ATr_i = getv(g._dinputs, ext_ins).copy()
        except Exception as e:
            sig = core.repo_frame_signature(e, 'apply_linear')
            if sig is None:
                raise
            res.fail(tag(known, sig), f"group {key!r}: {type(e).__name__}: {e}")
            continue
        lhs = float(r @ Ax)
        rhs = float(ATr_o @ xo + ATr_i @ xi)
        scale = abs(lhs) + abs(rhs) + float(np.linalg.norm(r) * np.linalg.norm(Ax)) + 1e-300
        if not abs(lhs - rhs) <= 1e-11 * scale + 1e-13:
            res.fail(tag(known, 'apply_linear:fwd-rev-not-adjoint'),
                     f"group {key!r}: <r,Ax>={lhs!r} <ATr,x>={rhs!r}")
        if key and ext_ins:
            nsub += 1
    # root solve_linear duality
    root = p.model
    outs = list(root._var_allprocs_abs2meta['output'])
    n = sum(root._var_allprocs_abs2meta['output'][k]['size'] for k in outs)
    a = _seed(case['s1'], n)
    b = _seed(case['s3'], n)
    try:
        root._doutputs.set_val(0.0)
        root._dresiduals.set_val(a)
        root.run_solve_linear('fwd')
        Sa = root._doutputs.asarray().copy()
        root._dresiduals.set_val(0.0)
        root._doutputs.set_val(b)
        root.run_solve_linear('rev')
        STb = root._dresiduals.asarray().copy()
        lhs, rhs = float(b @ Sa), float(STb @ a)
        scale = abs(lhs) + abs(rhs) + float(np.linalg.norm(b) * np.linalg.norm(Sa)) + 1e-300
        if not abs(lhs - rhs) <= 1e-10 * max(1.0, cond) * scale + 1e-13:
            res.fail(tag(known, 'solve_linear:fwd-rev-not-adjoint'), f"<b,Sa>={lhs!r} <STb,a>={rhs!r} cond={cond:.2e}")
    except om.AnalysisError:
        pass
    except Exception as e:
        sig = core.repo_frame_signature(e, 'solve_linear')
        if sig is None:
            raise
        res.fail(tag(known, sig), f"{type(e).__name__}: {e}")
    dup = _dup_positions(spec)
    res.nontrivial = dup or bool(flags & {'assembled', 'matfree'}) or nsub > 0
    res.classes = cls + ['judged'] + (['dup_src_positions'] if dup else []) + (['subgroup_ext_inputs'] if nsub else [])
    return res


def strategy(tier):
    from hypothesis import strategies as st
    from vfw.gen_spec import model_spec, profile

    @st.composite
    def case(draw):
        spec = draw(model_spec(profile(out_scaling=draw(st.booleans()), auto_ivc=0.1, promotions=0.2)))
        outs = ['.'.join(c['path'] + [c['name'], v['name']]) for c in spec['comps'] if c['kind'] != 'ivc' for v in c['outputs']]
        ins = ['.'.join(c['path'] + [c['name'], v['name']]) for c in spec['comps'] if c['kind'] == 'ivc' for v in c['outputs']]
        of = draw(st.lists(st.sampled_from(outs), min_size=1, max_size=3, unique=True))
        wrt = draw(st.lists(st.sampled_from(ins), min_size=1, max_size=3, unique=True))
        sv = st.lists(st.integers(-8, 8), min_size=3, max_size=9)
        return {'spec': spec, 'query': {'of': of, 'wrt': wrt}, 'v': draw(sv), 'w': draw(sv), 's1': draw(sv), 's2': draw(sv),
                's3': draw(sv), 'mode': draw(st.sampled_from(['auto', 'rev']))}
    return case()


def units(tier, seed):
    n = 16 if tier == 'quick' else 32
    per = 60 if tier == 'quick' else 400
    return [{'kind': 'random', 'n': per, 'seed': core.shard_seed(seed, ID, i)} for i in range(n)]


def run_unit(unit, ctx):
    core.run_hypothesis(ctx, strategy(unit.get('tier')), check, unit['n'], unit['seed'], shrink=unit.get('tier') == 'thorough')
