"""C25  KS aggregation brackets the extremum and has exact gradients.

Domain : constraint arrays (vec_size 1-4 x width 1-8; ties at the extremum, magnitudes up to +-2e6, spreads from 0
         to 2e6), rho in [1e-2, 1e3], KSComp options upper / lower_flag / minimum / units / vec_size / width / rho /
         add_constraint, the helper KSfunction.compute / derivatives and the jax functions ks_max / ks_min.
Oracle : bracket  max(s) <= KS <= max(s) + ln(n)/rho  (mirrored for the minimum), a numpy.longdouble log-sum-exp
         reference (textbook un-shifted form wherever it cannot overflow), softmax weights of that reference for
         the partials / totals / jax.grad.
"""
import math

import numpy as np

from vfw import core
from vfw.core import Result

ID = 'C25'
LEVEL = 'exploration'
TECHNIQUE = ('Hypothesis-generated constraint arrays, aggregation factors and option sets; long-double log-sum-exp '
             'reference, bracket inequalities and softmax-weight derivative oracle')
RULE = ("case = (a) KSfunction.compute/derivatives on a 1-D or 2-D array with given or defaulted rho, (b) a Problem "
        "IndepVarComp -> KSComp with drawn options (vec_size, width, rho, upper, lower_flag, minimum, units with a unit "
        "conversion on the connection, add_constraint, options passed to the constructor or set on the instance "
        "before setup), evaluated by run_model, compute_partials and compute_totals in fwd or rev mode, or (c) jax "
        "ks_max / ks_min and jax.grad on an array of size 1, 3, 8 or shape (2,3). Each row is base + sigma*u with "
        "base in {0, +-1, +-1e3, +-1e6, random}, sigma in {0, 1e-9, 1e-6, 1e-3, 1, 1e3, 1e6}, u in [-1,1] or {-1,0,1}, "
        "and with drawn probability several elements are set equal to the row extremum (ties). Non-trivial = some row "
        "has a tie at the aggregated extremum with width>=2, or rho*spread > 700 (the un-shifted formula would "
        "overflow). Distinct = distinct canonical JSON of the case.")
ASSUMPTIONS = [
    "s = sign-adjusted (g - upper) as documented by the options: lower_flag negates the input, minimum negates input and output",
    "the aggregate is judged against (1/rho)*ln(sum(exp(rho*s))) evaluated in numpy.longdouble (64-bit mantissa); the shifted "
    "form is cross-checked against the textbook un-shifted form whenever |rho*s| < 5000 (harness error if they disagree)",
    "tolerances: value 16*eps*(|extremum| + (n+2)/rho) (rounding of the shift, of rho*diff and of the log), weights 16*eps*(n+1), "
    "bracket with the same slack; the reference is built from the component's own input vector, the unit conversion of the connection is "
    "verified separately (8 eps for linear factors, 1e-12 relative for the affine degC->degF conversion)",
    "rho > 0; rho is a python float or int; inputs are finite doubles",
    "jax: XLA exp/log trusted to 4 eps; jax.grad must equal the softmax weights although jnp.max splits its own gradient between ties",
    "KSfunction.derivatives documents its second return value as dKS_drho: it is judged against the exact d/drho of the value "
    "returned by KSfunction.compute",
]
BOUND = {'quick': '15k helper cases + 7k component models + 3.6k jax cases',
         'thorough': '2.4e5 helper cases + 1.2e5 component models + 4e4 jax cases'}
MIN_CLASS_FRACTION = {'ties_at_extremum': 0.1, 'overflow_region': 0.05, 'minimum': 0.05, 'lower_flag': 0.05}

EPS = float(np.finfo(float).eps)
LD = np.longdouble

# source unit, component unit, a, b : value seen by the component = a*x + b
UNITS = {
    'none': (None, None, 1.0, 0.0),
    'm_m': ('m', 'm', 1.0, 0.0),
    'cm_m': ('cm', 'm', 0.01, 0.0),
    'km_m': ('km', 'm', 1000.0, 0.0),
    'ft_m': ('ft', 'm', 0.3048, 0.0),
    'degC_degF': ('degC', 'degF', 1.8, 32.0),
}


# ---------------------------------------------------------------------------------------------
# reference
# ---------------------------------------------------------------------------------------------

class HarnessInconsistency(Exception):
    pass


def reference(s, rho):
    """s: 2-D float array of sign-adjusted values, aggregated per row towards the maximum.
    Returns (ks, weights, dks_drho, rowmax) in long double."""
    sl = np.asarray(s, dtype=float).astype(LD)
    r = LD(rho)
    m = sl.max(axis=1, keepdims=True)
    a = r * (sl - m)
    e = np.exp(a)
    S = e.sum(axis=1, keepdims=True)
    ks = m + np.log(S) / r
    w = e / S
    drho = (-np.log(S) + (a * w).sum(axis=1, keepdims=True)) / (r * r)
    if sl.size and float(np.max(np.abs(r * sl))) < 5000.0:
        # textbook definition, no shift
        E = np.exp(r * sl)
        T = E.sum(axis=1, keepdims=True)
        ks2 = np.log(T) / r
        w2 = E / T
        n = sl.shape[1]
        if not (np.all(np.abs(ks2 - ks) <= 1e-15 * (np.abs(m) + (n + 2) / r))
                and np.all(np.abs(w2 - w) <= 1e-15 * (n + 1))):
            raise HarnessInconsistency(f"shifted and un-shifted long-double references disagree: {ks} vs {ks2}")
    return ks, w, drho, m


def row_stats(s, rho):
    s = np.asarray(s, dtype=float)
    n = s.shape[1]
    mx = s.max(axis=1, keepdims=True)
    ties = bool(n >= 2 and np.any(np.sum(s == mx, axis=1) >= 2))
    spread = float(np.max(mx - s.min(axis=1, keepdims=True))) if s.size else 0.0
    return ties, spread, rho * spread > 700.0


def classify(res, s, rho, extra=()):
    ties, spread, over = row_stats(s, rho)
    cls = list(extra)
    if ties:
        cls.append('ties_at_extremum')
    if over:
        cls.append('overflow_region')
    if np.max(np.abs(s)) >= 1e5:
        cls.append('large_magnitude')
    if 0 < spread <= 1e-6:
        cls.append('tiny_spread')
    if s.shape[0] > 1:
        cls.append('vec>1')
    cls.append(f"width{1 if s.shape[1] == 1 else ('2-3' if s.shape[1] <= 3 else '4-8')}")
    res.classes = cls
    res.nontrivial = ties or over


def vtol(m, n, rho):
    return 16 * EPS * (np.abs(np.asarray(m, dtype=float)) + (n + 2) / rho)


def judge_value(res, sig, got, ks, m, n, rho, sgn=1.0, extra_tol=0.0):
    """got: (rows,1) float; ks, m long double references for the *maximum* form; sgn=-1 mirrors to the minimum."""
    got = np.asarray(got, dtype=float)
    if got.shape != ks.shape:
        res.fail(f"{sig}:value-shape", f"got {got.shape} expected {ks.shape}")
        return
    tol = vtol(m, n, rho) + extra_tol
    if not np.all(np.isfinite(got)):
        res.fail(f"{sig}:value-not-finite", f"{got.tolist()}")
        return
    gl = got.astype(LD)
    err = np.abs(gl - sgn * ks)
    if np.any(err > tol):
        i = int(np.argmax(err > tol))
        res.fail(f"{sig}:value", f"row {i}: got {got.ravel()[i]!r} reference {float((sgn * ks).ravel()[i])!r} "
                                 f"err {float(err.ravel()[i]):.3g} tol {float(np.ravel(tol)[i]):.3g}")
    # bracket on the max form: m <= sgn*got <= m + ln(n)/rho
    v = sgn * gl
    hi = m + LD(math.log(n)) / LD(rho)
    if np.any(v < m - tol) or np.any(v > hi + tol):
        res.fail(f"{sig}:bracket", f"{'-' if sgn < 0 else ''}KS={v.astype(float).ravel().tolist()} not in "
                                   f"[{m.astype(float).ravel().tolist()}, {hi.astype(float).ravel().tolist()}]")


def judge_weights(res, sig, got, w, scale=1.0, extra=0.0):
    got = np.asarray(got, dtype=float)
    if got.shape != w.shape:
        res.fail(f"{sig}-shape", f"got {got.shape} expected {w.shape}")
        return
    n = w.shape[1]
    tol = (16 * EPS * (n + 1) + extra) * abs(scale)
    err = np.abs(got.astype(LD) - LD(scale) * w)
    if not np.all(err <= tol):
        i = int(np.argmax(~(err <= tol)))
        res.fail(sig, f"element {i}: got {got.ravel()[i]!r} reference {float((LD(scale) * w).ravel()[i])!r} tol {tol:.3g}")


# ---------------------------------------------------------------------------------------------
# (a) KSfunction
# ---------------------------------------------------------------------------------------------

def known_drho(case):
    """F1: KSfunction.derivatives()[1] omits the -ln(sum)/rho^2 term; visible whenever a row has >= 2 elements."""
    if case.get('kind') != 'func':
        return False
    g = np.asarray(case['g'], dtype=float)
    return g.shape[-1] >= 2


def check_func(case, res):
    from openmdao.components.ks_comp import KSfunction
    g = np.asarray(case['g'], dtype=float)
    rho_given = case.get('rho') is not None
    rho = case['rho'] if rho_given else 50.0
    s = np.atleast_2d(g)
    n = s.shape[1]
    classify(res, s, float(rho), ['func', 'g1d' if g.ndim == 1 else 'g2d', 'rho_given' if rho_given else 'rho_default',
                                 'rho_int' if isinstance(rho, int) else 'rho_float'])
    ks, w, drho, m = reference(s, rho)
    try:
        with np.errstate(all='ignore'):
            val = KSfunction.compute(g, rho) if rho_given else KSfunction.compute(g)
            dg, dr = KSfunction.derivatives(g, rho) if rho_given else KSfunction.derivatives(g)
    except Exception as e:
        res.fail(core.repo_frame_signature(e, 'func') or f"func:raises-{type(e).__name__}", f"{type(e).__name__}: {e}")
        return
    judge_value(res, 'func', np.asarray(val), ks, m, n, float(rho))
    judge_weights(res, 'func:dKS_dg', np.asarray(dg), w)
    rs = np.sum(np.asarray(dg, dtype=float), axis=-1)
    if not np.all(np.abs(rs - 1.0) <= 16 * EPS * (n + 1)):
        res.fail('func:dKS_dg-rowsum', f"row sums {rs.tolist()} != 1")
    # dKS/drho
    dr = np.asarray(dr, dtype=float)
    tol = 32 * EPS * (n + 1) / float(rho) ** 2
    if dr.shape != drho.shape:
        res.fail('func:dKS_drho-shape', f"got {dr.shape} expected {drho.shape}")
    else:
        err = np.abs(dr.astype(LD) - drho)
        if not np.all(err <= tol):
            i = int(np.argmax(~(err <= tol)))
            # is the discrepancy exactly the omitted term?
            sl = s.astype(LD)
            S = np.exp(LD(rho) * (sl - m)).sum(axis=1, keepdims=True)
            missing = -np.log(S) / LD(rho) ** 2
            only_missing = bool(np.all(np.abs(dr.astype(LD) + missing - drho) <= tol))
            sig = 'func:F1-dKS_drho-omits-log-term' if (known_drho(case) and only_missing) else 'func:dKS_drho'
            res.fail(sig, f"row {i}: got {dr.ravel()[i]!r} exact d/drho of the returned value {float(drho.ravel()[i])!r} "
                          f"(omitted -ln(sum)/rho^2 = {float(missing.ravel()[i])!r})")


# ---------------------------------------------------------------------------------------------
# (b) KSComp in a model
# ---------------------------------------------------------------------------------------------

def check_comp(case, res):
    import openmdao.api as om
    x = np.asarray(case['x'], dtype=float)
    vs, w_ = x.shape
    opts = dict(case['opts'])
    late = dict(case.get('late') or {})
    allopts = dict(opts)
    allopts.update(late)
    rho = allopts.get('rho', 50.0)
    upper = allopts.get('upper', 0.0)
    lower_flag = allopts.get('lower_flag', False)
    minimum = allopts.get('minimum', False)
    src_u, ks_u, a, b = UNITS[case.get('units') or 'none']
    if ks_u is not None:
        opts['units'] = ks_u
    mode = case.get('mode', 'fwd')

    extra = ['comp', 'mode_' + mode]
    if minimum:
        extra.append('minimum')
    if lower_flag:
        extra.append('lower_flag')
    if minimum and lower_flag:
        extra.append('both_flags')
    if upper != 0:
        extra.append('upper_nonzero')
    if ks_u is not None:
        extra.append('units')
    if a != 1.0 or b != 0.0:
        extra.append('unit_conversion')
    if late:
        extra.append('late_options')
    if allopts.get('add_constraint'):
        extra.append('add_constraint')
    if 'rho' not in allopts:
        extra.append('rho_default')

    # what the component must see and aggregate
    g_exp = a * x + b
    con = g_exp - upper
    flip = (-1.0 if lower_flag else 1.0) * (-1.0 if minimum else 1.0)
    s = flip * con
    out_sgn = -1.0 if minimum else 1.0
    classify(res, s, float(rho), extra)

    try:
        p = om.Problem(reports=False)
        p.model.add_subsystem('ivc', om.IndepVarComp('x', val=np.zeros((vs, w_)), units=src_u))
        ks = p.model.add_subsystem('ks', om.KSComp(**opts))
        for k, v in late.items():
            ks.options[k] = v
        p.model.connect('ivc.x', 'ks.g')
        p.setup(mode=mode)
        p.set_val('ivc.x', x)
        with np.errstate(all='ignore'):
            p.run_model()
            got = np.array(p.get_val('ks.KS'))
            # the component's own input vector (p.get_val('ks.g') re-converts from the source and may differ by an ulp,
            # which the weights amplify by rho)
            g_seen = np.array(ks._inputs['g']).reshape(vs, w_)
            J = {}
            ks.compute_partials(ks._inputs, J)
            tot = p.compute_totals(of=['ks.KS'], wrt=['ivc.x'], return_format='array')
            cons = p.model.get_constraints() if allopts.get('add_constraint') else None
    except Exception as e:
        res.fail(core.repo_frame_signature(e, 'comp') or f"comp:raises-{type(e).__name__}", f"{type(e).__name__}: {e}")
        return

    # the unit conversion on the connection (precondition of the rest, judged on its own)
    # (linear factors are applied with one rounding; OpenMDAO derives the offset of affine temperature conversions
    #  from 273.15 and 459.67 with cancellation, so only 1e-12 relative is demanded there - units are not C25's subject)
    ctol = 8 * EPS * np.abs(a * x) if b == 0.0 else 1e-12 * (np.abs(a * x) + abs(b))
    if g_seen.shape != g_exp.shape or np.any(np.abs(g_seen - g_exp) > ctol):
        res.fail('comp:input-conversion', f"ks.g={g_seen.tolist()} expected {g_exp.tolist()}")
        return
    # reference built from the values the component really received (so conversion rounding is not double counted)
    s_seen = flip * (g_seen - upper)
    ks_ref, wts, _, m = reference(s_seen, rho)
    sub = 4 * EPS * (np.abs(g_seen) + abs(upper)).max(axis=1, keepdims=True)     # rounding of g - upper
    judge_value(res, 'comp', got, ks_ref, m, w_, float(rho), sgn=out_sgn, extra_tol=sub)
    # absolute statement of the property in terms of the user's numbers: bracket around the extremum of (g - upper)
    ext = (con.max(axis=1, keepdims=True) if not (minimum ^ lower_flag) else con.min(axis=1, keepdims=True))
    # default: KS ~ max(con); lower_flag: KS ~ max(-con) = -min(con); minimum: KS ~ min(con); both: KS ~ -max(con)
    target = ext * (-1.0 if lower_flag else 1.0)
    slack = math.log(w_) / float(rho)
    t = vtol(ext, w_, float(rho)) + sub + ctol.max(axis=1, keepdims=True)
    conservative_up = not minimum         # the max form over-estimates, the min form under-estimates
    lo = target - t - (0 if conservative_up else slack)
    hi = target + t + (slack if conservative_up else 0)
    if got.shape == target.shape and (np.any(got < lo) or np.any(got > hi)):
        res.fail('comp:bracket-user-terms', f"KS={got.ravel().tolist()} not in [{lo.ravel().tolist()}, {hi.ravel().tolist()}] "
                                            f"(extremum of g-upper {target.ravel().tolist()}, ln(n)/rho={slack:.3g})")

    # partials: d KS / d g = out_sgn * flip * softmax weights
    dsgn = out_sgn * flip
    if ('KS', 'g') not in J:
        res.fail('comp:partials-missing', f"keys {list(J)}")
    else:
        Jg = np.asarray(J['KS', 'g'], dtype=float)
        if Jg.shape != (vs * w_,):
            res.fail('comp:partials-shape', f"got {Jg.shape} expected {(vs * w_,)}")
        else:
            judge_weights(res, 'comp:partials', Jg.reshape(vs, w_), wts, scale=dsgn)
    # totals through the connection: block diagonal, scaled by the unit factor
    tot = np.asarray(tot, dtype=float)
    if tot.shape != (vs, vs * w_):
        res.fail('comp:totals-shape', f"got {tot.shape} expected {(vs, vs * w_)}")
    else:
        blocks = np.stack([tot[i, i * w_:(i + 1) * w_] for i in range(vs)])
        judge_weights(res, 'comp:totals', blocks, wts, scale=dsgn * a, extra=8 * EPS)
        off = tot.copy()
        for i in range(vs):
            off[i, i * w_:(i + 1) * w_] = 0.0
        if np.any(off != 0.0):
            res.fail('comp:totals-off-block', f"non-zero coupling between rows: {off.tolist()}")
    if cons is not None:
        meta = [v for k, v in cons.items() if k.endswith('KS') or v.get('name', '').endswith('KS')]
        if len(meta) != 1:
            res.fail('comp:add_constraint-missing', f"constraints: {list(cons)}")
        else:
            md = meta[0]
            # KSComp documents: constraint KS <= 0 with the scaler / adder / ref / ref0 given as options
            if not (md.get('upper') == 0.0 and md.get('equals') is None and md.get('lower', -1e30) <= -1e29):
                res.fail('comp:add_constraint-bounds', f"upper={md.get('upper')} lower={md.get('lower')} equals={md.get('equals')}")
            for k in ('scaler', 'adder'):
                if md.get(k) != allopts.get(k):
                    res.fail('comp:add_constraint-scaling', f"{k}={md.get(k)!r} expected {allopts.get(k)!r}")


# ---------------------------------------------------------------------------------------------
# (c) jax
# ---------------------------------------------------------------------------------------------

_G = {}


def _jgrad(fn, nargs):
    key = (fn, nargs)
    if key not in _G:
        import jax
        from openmdao.jax_funcs import ks as jks
        _G[key] = jax.jit(jax.grad(getattr(jks, fn), argnums=tuple(range(nargs))))
    return _G[key]


def check_jax(case, res):
    from openmdao.jax_funcs import ks as jks
    fn = case['fn']
    x = np.array(case['x'], dtype=float).reshape(case['shape'])
    rho_given = case.get('rho') is not None
    rho = float(case['rho']) if rho_given else 100.0
    sgn = 1.0 if fn == 'ks_max' else -1.0
    s = (sgn * x).reshape(1, -1)
    n = s.shape[1]
    classify(res, s, rho, ['jax', fn, 'rho_given' if rho_given else 'rho_default', f"shape{'x'.join(map(str, case['shape']))}"])
    ks, w, drho, m = reference(s, rho)
    args = (x, rho) if rho_given else (x,)
    try:
        val = np.asarray(getattr(jks, fn)(*args))
        grads = [np.asarray(g) for g in _jgrad(fn, len(args))(*args)]
    except Exception as e:
        res.fail(core.repo_frame_signature(e, fn) or f"{fn}:raises-{type(e).__name__}", f"{type(e).__name__}: {e}")
        return
    if val.shape != ():
        res.fail(f"{fn}:value-shape", f"got {val.shape} expected a scalar")
        return
    judge_value(res, fn, val.reshape(1, 1), ks, m, n, rho, sgn=sgn)
    gx = grads[0]
    if gx.shape != x.shape:
        res.fail(f"{fn}:grad-shape", f"got {gx.shape} expected {x.shape}")
    else:
        # d/dx of sgn*KS(sgn*x) = softmax weights (positive for both functions)
        judge_weights(res, f"{fn}:grad-x", gx.reshape(1, -1), w)
    if rho_given:
        tol = 32 * EPS * (n + 1) / rho ** 2
        ref = sgn * drho.ravel()[0]
        if not abs(LD(float(grads[1])) - ref) <= tol:
            res.fail(f"{fn}:grad-rho", f"got {float(grads[1])!r} reference {float(ref)!r} tol {tol:.3g}")


def check(case):
    res = Result()
    k = case['kind']
    if k == 'func':
        check_func(case, res)
    elif k == 'comp':
        check_comp(case, res)
    else:
        check_jax(case, res)
    return res


# ---------------------------------------------------------------------------------------------
# strategies
# ---------------------------------------------------------------------------------------------

def _st():
    from hypothesis import strategies as st

    rho_st = st.one_of(st.sampled_from([50.0, 100.0, 1.0, 0.01, 1000.0]),
                       st.floats(-2, 3, allow_nan=False).map(lambda e: 10.0 ** e),
                       st.floats(-2, 3, allow_nan=False).map(lambda e: 10.0 ** e))

    @st.composite
    def row(draw, n, want_min=False):
        base = draw(st.one_of(st.sampled_from([0.0, 1.0, -1.0, 1e3, -1e3, 1e6, -1e6]),
                              st.floats(-1e3, 1e3, allow_nan=False)))
        sigma = draw(st.sampled_from([0.0, 1e-9, 1e-6, 1e-3, 1.0, 1.0, 1e3, 1e6]))
        if draw(st.booleans()):
            us = [draw(st.floats(-1, 1, allow_nan=False)) for _ in range(n)]
        else:
            us = [draw(st.sampled_from([-1.0, 0.0, 1.0])) for _ in range(n)]
        vals = [base + sigma * u for u in us]
        if n >= 2 and draw(st.integers(0, 2)) == 0:
            ext = min(vals) if want_min else max(vals)
            k = draw(st.integers(1, n - 1))
            idx = draw(st.permutations(list(range(n))))[:k]
            for i in idx:
                vals[i] = ext
        return vals

    return st, rho_st, row


def func_strategy():
    st, rho_st, row = _st()

    @st.composite
    def case(draw):
        n = draw(st.integers(1, 8))
        if draw(st.integers(0, 3)) == 0:
            g = draw(row(n))
        else:
            vs = draw(st.integers(1, 4))
            g = [draw(row(n)) for _ in range(vs)]
        rho = draw(st.one_of(st.none(), rho_st, rho_st, rho_st, st.sampled_from([1, 50, 1000])))
        return {'kind': 'func', 'g': g, 'rho': rho}
    return case()


def comp_strategy():
    st, rho_st, row = _st()

    @st.composite
    def case(draw):
        vs = draw(st.sampled_from([1, 1, 2, 3, 4]))
        w = draw(st.integers(1, 8))
        minimum = draw(st.sampled_from([False, False, True]))
        lower_flag = draw(st.sampled_from([False, False, True]))
        want_min = minimum ^ lower_flag
        units = draw(st.sampled_from(['none', 'none', 'm_m', 'cm_m', 'km_m', 'ft_m', 'degC_degF']))
        x = [draw(row(w, want_min)) for _ in range(vs)]
        if UNITS[units][2] > 1.0:
            x = [[v / 1000.0 for v in r] for r in x]       # keep the converted magnitudes in the stated range
        o = {}
        if vs != 1 or draw(st.booleans()):
            o['vec_size'] = vs
        if w != 1 or draw(st.booleans()):
            o['width'] = w
        if minimum or draw(st.integers(0, 3)) == 0:
            o['minimum'] = minimum
        if lower_flag or draw(st.integers(0, 3)) == 0:
            o['lower_flag'] = lower_flag
        if draw(st.integers(0, 4)) > 0:
            o['rho'] = draw(st.one_of(rho_st, rho_st, st.sampled_from([1, 50, 1000])))
        if draw(st.booleans()):
            o['upper'] = draw(st.one_of(st.sampled_from([0.0, 1.0, -16.0, 1e6]), st.floats(-1e3, 1e3, allow_nan=False),
                                        st.sampled_from(x[0])))
        if draw(st.integers(0, 3)) == 0:
            o['add_constraint'] = True
            if draw(st.booleans()):
                o['scaler'] = draw(st.sampled_from([2.0, 0.5, 10]))
            if draw(st.booleans()):
                o['adder'] = draw(st.sampled_from([1.0, -3.0]))
        late = {}
        if draw(st.integers(0, 2)) == 0:
            for k in ('rho', 'upper', 'lower_flag', 'minimum'):
                if k in o and draw(st.booleans()):
                    late[k] = o.pop(k)
        return {'kind': 'comp', 'x': x, 'opts': o, 'late': late, 'units': units,
                'mode': draw(st.sampled_from(['fwd', 'rev']))}
    return case()


def jax_strategy():
    st, rho_st, row = _st()

    @st.composite
    def case(draw):
        fn = draw(st.sampled_from(['ks_max', 'ks_min']))
        shape = draw(st.sampled_from([[1], [3], [3], [8], [8], [2, 3]]))
        n = int(np.prod(shape))
        x = draw(row(n, fn == 'ks_min'))
        rho = draw(st.one_of(st.none(), rho_st, rho_st, rho_st))
        return {'kind': 'jax', 'fn': fn, 'shape': shape, 'x': x, 'rho': rho}
    return case()


# ---------------------------------------------------------------------------------------------
# work units
# ---------------------------------------------------------------------------------------------

def units(tier, seed):
    if tier == 'quick':
        plan = [('func', 6, 2500), ('comp', 7, 1000), ('jax', 3, 1200)]
    else:
        plan = [('func', 8, 30000), ('comp', 16, 7500), ('jax', 8, 5000)]
    us = []
    k = 0
    for kind, cnt, per in plan:
        for _ in range(cnt):
            us.append({'kind': kind, 'n': per, 'seed': core.shard_seed(seed, ID, k)})
            k += 1
    # longest units first
    us.sort(key=lambda u: {'comp': 0, 'jax': 1, 'func': 2}[u['kind']])
    return us


def run_unit(unit, ctx):
    strat = {'func': func_strategy, 'comp': comp_strategy, 'jax': jax_strategy}[unit['kind']]()
    core.run_hypothesis(ctx, strat, check, unit['n'], unit['seed'], shrink=unit.get('tier') == 'thorough')
