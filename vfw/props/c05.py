"""C05  Index objects follow NumPy indexing semantics.

Domain : index specs from a bounded grammar x source shapes x flat flag (exhaustive inside the
         bound, Hypothesis beyond it) ; all small int arrays for array2slice.
Oracle : NumPy itself applied to arange(size).reshape(shape)  (or the flat arange).
"""
import itertools

import numpy as np

from vfw import core
from vfw.core import Result

ID = 'C05'
LEVEL = 'exploration'
TECHNIQUE = 'exhaustive enumeration of a bounded index grammar + Hypothesis random indices, NumPy as reference oracle'
RULE = ("case = (index spec, source shape, flat_src flag, construction path) or an int array for array2slice. "
        "Quick: every single-atom index (ints -3..3, 448 slices, arrays of length<=2, Ellipsis) on every shape of "
        "rank<=2/extent<=3 with flat_src in {True,False,None}, all 2-tuples over a reduced atom alphabet, all int "
        "arrays of length<=4 over [-2,6] for array2slice, plus Hypothesis-drawn indices on rank<=3/extent<=4 "
        "(tuples with Ellipsis, N-D arrays inside tuples, lists vs ndarrays). Thorough: all 2-tuples over the full "
        "alphabet. Non-trivial = accepted by OpenMDAO and (source rank>=2 with a non-tuple index, or a negative / "
        "open slice bound, or a negative int, or Ellipsis); for array2slice: a slice was returned. Distinct = "
        "distinct canonical JSON of the case.")
ASSUMPTIONS = [
    "NumPy's own indexing of arange(size).reshape(shape) is the specification of positions and result shape",
    "an exception raised by indexer()/set_src_shape() is a rejection, not a violation (OpenMDAO documents that "
    "out-of-range slices are errors); after acceptance every accessor must work",
    "as_array() is compared modulo the source size (a negative position that selects the same element is accepted)",
    "flat() is judged only for flat sources (its only caller uses it under flat_src)",
    "non-tuple N-D array indices are excluded: OpenMDAO documents (deprecation warning) that it reads them as tuples",
]
EXHAUSTIVE = {'quick': False, 'thorough': False}
BOUND = {'quick': 'single atoms exhaustive on rank<=2 extent<=3; pairs over reduced alphabet; array2slice len<=4 in [-2,6]',
         'thorough': 'pairs over the full alphabet (512 atoms squared x 9 rank-2 shapes) + 2e5 random'}
MIN_CLASS_FRACTION = {'accepted': 0.2}


# ---------------------------------------------------------------------------------------------
# case encoding
# ---------------------------------------------------------------------------------------------

def dec(e):
    if e == '...':
        return Ellipsis
    if 'i' in e:
        return int(e['i'])
    if 's' in e:
        return slice(*e['s'])
    if 'a' in e:
        if e.get('list'):
            return e['a']
        return np.array(e['a'], dtype=int)
    if 't' in e:
        return tuple(dec(x) for x in e['t'])
    raise ValueError(e)


def _is_neg_or_open(e):
    if e == '...':
        return True
    if 'i' in e:
        return e['i'] < 0
    if 's' in e:
        a, b, c = e['s']
        return a is None or b is None or (a is not None and a < 0) or (b is not None and b < 0)
    if 'a' in e:
        return bool(np.any(np.asarray(e['a']) < 0)) if np.asarray(e['a']).size else False
    if 't' in e:
        return any(_is_neg_or_open(x) for x in e['t'])
    return False


def must_accept(e, shape, flat):
    """True when nothing documented allows OpenMDAO to reject the index: NumPy accepts it (checked by the
    caller), every slice bound lies inside [-n, n] of its dimension, the tuple is not longer than the rank and
    a flat source is not given a multi-index."""
    if flat:
        dims = [int(np.prod(shape))]
    else:
        dims = list(shape)
    parts = e['t'] if (e != '...' and 't' in e) else [e]
    if flat and len([p for p in parts if p != '...']) > 1:
        return False
    nreal = len([p for p in parts if p != '...'])
    if nreal > len(dims):
        return False
    # map parts to dimensions
    if '...' in parts:
        k = parts.index('...')
        front, back = parts[:k], parts[k + 1:]
        pd = list(zip(front, dims[:len(front)])) + list(zip(back, dims[len(dims) - len(back):]))
    else:
        pd = list(zip(parts, dims))
    for p, n in pd:
        if 's' in p:
            a, b, c = p['s']
            for v in (a, b):
                if v is not None and not (-n <= v <= n):
                    return False
            if a is not None and a == n:   # start == size is out of range unless start == stop
                return False
        elif 'a' in p:
            arr = np.asarray(p['a'])
            if arr.size == 0 and p.get('list'):
                return False     # an empty python list has float dtype: rejected by the documented type check
            if arr.size and (arr.max() >= n or arr.min() < -n):
                return False     # NumPy skips the bounds check when the broadcast result is empty
            if arr.ndim > 1 and not ('t' in e if e != '...' else False):
                return False
    return True


def known_f15(case):
    """F15: a tuple whose Ellipsis expands to zero dimensions and separates advanced indices (NumPy then moves
    the advanced dimensions to the front; OpenMDAO replaces the Ellipsis by nothing and keeps them in place)."""
    e = case['idx']
    if e == '...' or 't' not in e or '...' not in e['t']:
        return False
    parts = e['t']
    k = parts.index('...')
    if len(parts) - 1 != len(case['shape']):
        return False
    adv = lambda p: ('a' in p) or ('i' in p)
    if not (any(adv(p) for p in parts[:k]) and any(adv(p) for p in parts[k + 1:])):
        return False
    return any('a' in p for p in parts if p != '...')


def known_f4(case):
    """F4: non-tuple int / 1-D int array on a non-flat source of rank >= 2."""
    e = case['idx']
    if e == '...' or not ('i' in e or 'a' in e):
        return False
    flat = case['flat_src'] is True or (case['flat_src'] is None and len(case['shape']) <= 1)
    return (not flat) and len(case['shape']) >= 2


# ---------------------------------------------------------------------------------------------
# oracle
# ---------------------------------------------------------------------------------------------

def check(case):
    if case.get('kind') == 'a2s':
        return check_a2s(case)
    from openmdao.utils.indexer import indexer
    shape = tuple(case['shape'])
    size = int(np.prod(shape)) if shape else 1
    fs = case['flat_src']
    flat = fs is True or (fs is None and len(shape) <= 1)
    idx = dec(case['idx'])
    res = Result()
    cls = ['flat' if flat else 'nonflat', f"rank{len(shape)}"]
    ref = np.arange(size) if flat else np.arange(size).reshape(shape)

    # NumPy reference
    try:
        sel = ref[idx]
        np_err = None
    except IndexError as e:
        sel = None
        np_err = e

    # construction (the two documented paths)
    try:
        if case.get('via') == 'getitem':
            ix = indexer[idx]
            ix._flat_src = fs
            ix.set_src_shape(shape)
        else:
            ix = indexer(idx, src_shape=shape, flat_src=fs)
    except Exception as e:
        res.classes = cls + ['rejected']
        if np_err is None and must_accept(case['idx'], shape, flat):
            res.fail('idx:rejects-valid-index', f"{type(e).__name__}: {e}")
        return res
    cls.append('accepted')
    sigbase = 'F4-nontuple-on-nd-nonflat' if known_f4(case) else 'idx'
    if known_f15(case):
        sigbase = 'F15-zerolen-ellipsis-between-advanced'

    def getter(name, f):
        try:
            return True, f()
        except Exception as e:
            if np_err is not None and isinstance(e, IndexError):
                return False, None       # both raise: fine
            res.fail(f"{sigbase}:{name}-raises", f"{type(e).__name__}: {e}")
            return False, None

    if np_err is not None:
        # NumPy says the index is invalid for this shape: OpenMDAO must not silently produce positions
        ok, val = getter('shaped_array', lambda: ix.shaped_array())
        if ok:
            res.fail(f"{sigbase}:accepts-index-numpy-rejects", f"numpy: {np_err}; shaped_array={val!r}")
        res.classes = cls + ['numpy_rejects']
        return res

    expect = np.asarray(sel).ravel()
    eshape = np.asarray(sel).shape

    ok, val = getter('shaped_array', lambda: np.asarray(ix.shaped_array()).ravel())
    if ok and not (val.shape == expect.shape and np.array_equal(val, expect)):
        res.fail(f"{sigbase}:shaped_array", f"got {val.tolist()} expected {expect.tolist()}")

    ok, val = getter('as_array', lambda: np.asarray(ix.as_array()).ravel())
    if ok and size > 0:
        if not (val.shape == expect.shape and np.array_equal(np.mod(val, size), expect)):
            res.fail(f"{sigbase}:as_array", f"got {val.tolist()} expected {expect.tolist()} (mod {size})")

    ok, val = getter('indexed_src_shape', lambda: tuple(ix.indexed_src_shape))
    if ok and tuple(val) != tuple(eshape):
        # an int index yields a 0-d result in NumPy; OpenMDAO may describe the scalar as shape (1,)
        if not (eshape == () and tuple(val) in ((), (1,))):
            res.fail(f"{sigbase}:indexed_src_shape", f"got {val} expected {eshape}")
    ok, val = getter('indexed_src_size', lambda: int(ix.indexed_src_size))
    if ok and val != expect.size:
        res.fail(f"{sigbase}:indexed_src_size", f"got {val} expected {expect.size}")

    data = (np.arange(size, dtype=float) * 3.0 + 1.0).reshape(shape)
    ok, val = getter('indexed_val', lambda: np.asarray(ix.indexed_val(data)))
    if ok:
        exp = data.ravel()[idx] if flat else data[idx]
        if not np.array_equal(np.asarray(val).ravel(), np.asarray(exp).ravel()):
            res.fail(f"{sigbase}:indexed_val", f"got {np.asarray(val).tolist()} expected {np.asarray(exp).tolist()}")

    def do_set():
        d = data.copy()
        ix.indexed_val_set(d, -7.0)
        return d
    ok, val = getter('indexed_val_set', do_set)
    if ok:
        exp = data.copy()
        if flat:
            exp.ravel()[idx] = -7.0    # ravel of a fresh contiguous copy is a view
        else:
            exp[idx] = -7.0
        if not np.array_equal(val, exp):
            res.fail(f"{sigbase}:indexed_val_set", f"got {val.tolist()} expected {exp.tolist()}")

    def shaped_call():
        s = ix.shaped_instance()
        return np.asarray(ref[s()]).ravel()
    ok, val = getter('shaped_instance', shaped_call)
    if ok and not np.array_equal(val, expect):
        res.fail(f"{sigbase}:shaped_instance", f"got {val.tolist()} expected {expect.tolist()}")

    if flat:
        ok, val = getter('flat', lambda: np.asarray(np.arange(size)[ix.flat()]).ravel())
        if ok and not np.array_equal(val, expect):
            res.fail(f"{sigbase}:flat", f"got {val.tolist()} expected {expect.tolist()}")


    # try_slice must never change the selected positions
    if not isinstance(idx, tuple) and idx is not Ellipsis:
        try:
            ix2 = indexer(idx, src_shape=shape, flat_src=fs, try_slice=True)
            v2 = np.asarray(ix2.shaped_array()).ravel()
            if not np.array_equal(v2, expect):
                res.fail(f"{sigbase}:try_slice", f"got {v2.tolist()} expected {expect.tolist()}")
        except Exception as e:
            res.fail(f"{sigbase}:try_slice-raises", f"{type(e).__name__}: {e}")

    e = case['idx']
    nontuple = e == '...' or 't' not in e
    res.nontrivial = (len(shape) >= 2 and nontuple) or _is_neg_or_open(e)
    if len(shape) >= 2 and nontuple:
        cls.append('nd_nontuple')
    if _is_neg_or_open(e):
        cls.append('neg_or_open')
    if e != '...' and 't' in e:
        cls.append('tuple')
    res.classes = cls
    return res


def check_a2s(case):
    from openmdao.utils.indexer import array2slice
    a = np.array(case['arr'], dtype=int)
    res = Result(classes=['a2s'])
    try:
        s = array2slice(a)
    except Exception as e:
        return res.fail('a2s:raises', f"{type(e).__name__}: {e}")
    if s is None:
        res.classes.append('a2s_none')
        return res
    if not isinstance(s, slice):
        return res.fail('a2s:not-a-slice', repr(s))
    res.nontrivial = True
    res.classes.append('a2s_slice')
    lo = max(int(a.max()) + 1 if a.size else 0, -int(a.min()) if a.size else 0, 0)
    for n in range(lo, lo + 4):
        ref = np.arange(n)
        try:
            exp = ref[a]
        except IndexError:
            continue
        got = ref[s]
        if not np.array_equal(got, exp):
            return res.fail('a2s:positions-differ', f"n={n} slice={s} got {got.tolist()} expected {exp.tolist()}")
    return res


# ---------------------------------------------------------------------------------------------
# enumeration
# ---------------------------------------------------------------------------------------------

def atoms(full):
    out = []
    rng = range(-3, 4)
    for i in rng:
        out.append({'i': i})
    if full:
        vals = [None, -3, -2, -1, 0, 1, 2, 3]
        steps = [None, -3, -2, -1, 1, 2, 3]
    else:
        vals = [None, -2, -1, 0, 1, 2]
        steps = [None, -1, 1, 2]
    for a in vals:
        for b in vals:
            for c in steps:
                out.append({'s': [a, b, c]})
    ar = rng if full else range(-2, 3)
    for i in ar:
        out.append({'a': [i]})
    for i in ar:
        for j in ar:
            out.append({'a': [i, j], 'list': (i + j) % 2 == 0})
    out.append('...')
    return out


SHAPES1 = [[1], [2], [3]]
SHAPES2 = [[a, b] for a in (1, 2, 3) for b in (1, 2, 3)]


def enum_single():
    for e in atoms(True):
        for shape in SHAPES1 + SHAPES2 + [[2, 3, 2]]:
            for fs in (True, False, None):
                yield {'idx': e, 'shape': shape, 'flat_src': fs, 'via': 'call'}
                if e != '...' and ('s' in e or 'i' in e) and fs is False:
                    yield {'idx': {'t': [e]}, 'shape': shape, 'flat_src': fs, 'via': 'getitem'}


def enum_pairs(full, part, nparts):
    at = atoms(full)
    k = 0
    for e1 in at:
        for e2 in at:
            if e1 == '...' and e2 == '...':
                continue
            k += 1
            if k % nparts != part:
                continue
            for shape in SHAPES2:
                yield {'idx': {'t': [e1, e2]}, 'shape': shape, 'flat_src': False, 'via': 'call'}


def enum_a2s():
    for n in range(0, 5):
        for tup in itertools.product(range(-2, 7), repeat=n):
            yield {'kind': 'a2s', 'arr': list(tup)}


# ---------------------------------------------------------------------------------------------
# Hypothesis strategy for the random tier
# ---------------------------------------------------------------------------------------------

def strategy():
    from hypothesis import strategies as st

    @st.composite
    def case(draw):
        rank = draw(st.integers(1, 3))
        shape = [draw(st.integers(1, 4)) for _ in range(rank)]
        fs = draw(st.sampled_from([True, False, False, None]))
        flat = fs is True or (fs is None and rank <= 1)

        def atom(ext, allow_nd):
            kind = draw(st.sampled_from(['i', 's', 's', 'a', 'a']))
            lim = ext + 1
            if kind == 'i':
                return {'i': draw(st.integers(-lim, lim))}
            if kind == 's':
                ends = st.one_of(st.none(), st.integers(-lim - 1, lim + 1))
                step = draw(st.one_of(st.none(), st.integers(-3, 3).filter(lambda v: v != 0)))
                return {'s': [draw(ends), draw(ends), step]}
            n = draw(st.integers(0, 4))
            vals = [draw(st.integers(-ext, ext - 1)) if draw(st.integers(0, 9)) else draw(st.integers(-lim, lim))
                    for _ in range(n)]
            return {'a': vals, 'list': draw(st.booleans())}

        size = int(np.prod(shape))
        if flat:
            ntup = draw(st.sampled_from([0, 0, 0, 1]))
            e = atom(size, False)
            if ntup:
                e = {'t': [e]}
        else:
            form = draw(st.sampled_from(['single', 'tuple', 'tuple', 'tuple', 'ellipsis', 'bcast']))
            if form == 'single':
                e = atom(shape[0], False) if draw(st.booleans()) else '...'
            elif form == 'tuple':
                k = draw(st.integers(1, rank))
                e = {'t': [atom(shape[d], False) for d in range(k)]}
            elif form == 'ellipsis':
                k = draw(st.integers(0, rank))
                pos = draw(st.integers(0, k))
                front = [atom(shape[d], False) for d in range(pos)]
                back = [atom(shape[rank - (k - pos) + j], False) for j in range(k - pos)]
                e = {'t': front + ['...'] + back}
            else:
                # broadcastable N-D integer arrays in every dimension (outer-product style indexing)
                parts = []
                r, c = draw(st.integers(1, 3)), draw(st.integers(1, 3))
                for d in range(rank):
                    ext = shape[d]
                    if d == 0:
                        arr = [[draw(st.integers(-ext, ext - 1))] for _ in range(r)]
                    elif d == 1:
                        arr = [[draw(st.integers(-ext, ext - 1)) for _ in range(c)]]
                    else:
                        arr = [[draw(st.integers(-ext, ext - 1)) for _ in range(c)] for _ in range(r)]
                    parts.append({'a': arr, 'list': False})
                e = {'t': parts}
        via = draw(st.sampled_from(['call', 'call', 'getitem']))
        return {'idx': e, 'shape': shape, 'flat_src': fs, 'via': via}

    return case()


# ---------------------------------------------------------------------------------------------
# work units
# ---------------------------------------------------------------------------------------------

def units(tier, seed):
    us = [{'kind': 'single'}, {'kind': 'a2s'}]
    nparts = 6 if tier == 'quick' else 40
    for p in range(nparts):
        us.append({'kind': 'pairs', 'full': tier != 'quick', 'part': p, 'nparts': nparts})
    nrand = 8 if tier == 'quick' else 16
    per = 2500 if tier == 'quick' else 15000
    for i in range(nrand):
        us.append({'kind': 'random', 'n': per, 'seed': core.shard_seed(seed, ID, i)})
    return us


def run_unit(unit, ctx):
    k = unit['kind']
    if k == 'single':
        core.run_cases(ctx, enum_single(), check)
    elif k == 'a2s':
        core.run_cases(ctx, enum_a2s(), check)
    elif k == 'pairs':
        core.run_cases(ctx, enum_pairs(unit['full'], unit['part'], unit['nparts']), check)
    elif k == 'random':
        core.run_hypothesis(ctx, strategy(), check, unit['n'], unit['seed'], shrink=unit.get('tier') == 'thorough')
