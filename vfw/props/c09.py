"""C09  Iterative solvers honour their termination contract.

Tier A (scripted): the real solver object iterates on a real 2-component coupled model, but the residual norm it
         *sees* is scripted: that instance's `_iter_get_norm` is wrapped (the original still runs for its side
         effects, its return value is replaced).  All histories over an abstract alphabet are enumerated as a
         trie (a history is only extended behind symbols the solver actually consumed).
Tier B (end to end): Hypothesis-drawn coupled models, real norms (the same seam in observe-only mode), the norms
         and the final residual are recomputed independently with NumPy.
Oracle : a reference automaton written from the property text (clauses 1-5 below), three-valued where the text is
         silent.
"""
import contextlib
import io
import itertools
import math
import time

import numpy as np

from vfw import core
from vfw.core import Result

ID = 'C09'
LEVEL = 'exploration'
TECHNIQUE = ('exhaustive trie enumeration of scripted residual-norm histories x option grid x 6 solver classes against a '
             'reference termination automaton; Hypothesis end-to-end tier with NumPy-recomputed residual norms')
RULE = ("scripted case = (solver class in {Newton, Broyden, NLBGS, NLBJ, LNBGS, LNBJ}, maxiter, atol, rtol, stall_limit, "
        "stall_tol_type, stall_tol, err_on_non_converge, complex-step flag (nonlinear only), fwd/rev (linear only), scale of "
        "the initial norm, history). History symbols are instantiated from the option values: Z=0, A=atol/2, "
        "R=rtol*n0/2 (only when that is above atol), J=just above both tolerances (1.5..2 x the larger threshold, so that it "
        "can lie within stall_tol of a converged value), B=far above both (scale/2^i), E=bitwise equal to the previous norm, "
        "N=NaN, I=+inf. Every history of length cap+1 (cap = maxiter, or max(maxiter,1) under complex step) is covered: "
        "histories are enumerated in lexicographic order and one that shares the prefix the solver consumed in the "
        "previous run is skipped because it is the same experiment. Scale 0.5 with halving makes n1/n0 numerically equal "
        "to n0 (relative and absolute readings of the first stall comparison collide), scale 1024 keeps them apart. "
        "Non-trivial = the consumed history contains NaN/inf, or two norms identical within stall_tol while stall detection "
        "is on, or convergence exactly at the last allowed iterate, or a complex-step forced iteration after a converged "
        "initial norm. A random tier adds histories of explicit floats (maxiter<=8, stall_limit<=4, norms placed relative to the "
        "thresholds, to the previous norm and to stall_tol). Distinct = distinct canonical JSON of the case. End-to-end case = (solver class, vector size, "
        "coupling coefficients, start point, options); non-trivial = at least two iterations or a reported failure.")
ASSUMPTIONS = [
    "the norm the solver acts on is what its own _iter_get_norm() returns; the scripted tier replaces that value on the "
    "instance (no repository edit), everything else (loops, _iter_initialize, Recording contexts, report_failure) is the real code",
    "an iterate 'meets a tolerance' iff norm <= atol or norm/n0 <= rtol with n0 the first norm evaluated before any iteration; "
    "when the solver evaluates no initial norm (block linear solvers with maxiter<=1, NLBGS/NLBJ with maxiter=0), when n0 is 0 "
    "or non-finite, the relative test is not judged (three-valued oracle) unless rtol=0 decides it",
    "failure reported := AnalysisError raised (required iff err_on_non_converge) or a message on stdout at iprint=0 (iprint 0 "
    "prints nothing but failures)",
    "an early stop (fewer than maxiter iterations, finite norm above both tolerances) is legitimate only for nonlinear solvers "
    "with stall_limit>0 whose last max(stall_limit,2) norms are identical within stall_tol under the chosen stall_tol_type, "
    "under either reading of 'identical' (chain of consecutive differences, or all against the first of the run); stopping or "
    "continuing on +inf is both accepted",
    "the solver must not iterate on when the last stall_limit+1 norms are bitwise identical, finite and unconverged (every "
    "reading of the stall_limit/stall_tol documentation agrees there); this clause comes from the option's description "
    "('then terminate as if max iterations were reached'), the rest from the property statement",
    "iterations are counted class-independently as calls of _single_iteration, and additionally through the solver's own "
    "_iter_count (NonlinearBlockGS counts the sweep it performs inside its initial norm evaluation)",
    "the exact boundary norm == atol is not probed (the text does not say whether the comparison is strict)",
    "serial runs only; iprint other than 0, debug_print, restart_from_successful, Aitken relaxation and linesearches other "
    "than Newton's default BoundsEnforceLS are outside the enumerated grid",
    "end-to-end tier: NonlinearBlockGS with use_apply_nonlinear=False defines its residual as the change of the outputs over "
    "one sweep (documented in the solver); the recomputation follows that definition and the run_apply_nonlinear comparison "
    "is made only for solvers whose norm is the true residual",
]
EXHAUSTIVE = {'quick': True, 'thorough': True}
BOUND = {
    'quick': 'all histories (8-symbol alphabet) for maxiter 0..3 (NLBGS 0..4) on the option grid atol{1e-10,0} x rtol{1e-10,0} x '
             '[stall off | stall_limit{1,2} x type{abs,rel} x stall_tol{1e-12,1e-3}] x err{F,T} x cs{F,T} x scale{1024,0.5} '
             '(deepest level: (err,scale) in {(T,0.5),(F,1024)} only; Broyden: that half everywhere, depth 3 on (T,0.5)); '
             'maxiter 4 with stall_limit 3 on 8 points for Newton/NLBGS/NLBJ; block linear solvers maxiter 0..4 x fwd/rev; '
             'plus 12000 random explicit-float histories (maxiter<=8) and 1600 end-to-end models',
    'thorough': 'all histories for maxiter 0..4 (NLBGS and block linear solvers 0..6) with stall_limit 0..3 on the full grid, '
                'maxiter 5 with stall_limit 3 on 8 points per class; 640000 random histories; 60800 end-to-end models',
}
MIN_CLASS_FRACTION = {'nonfinite-seen': 0.05, 'stall-stop': 0.003, 'converged': 0.2, 'hit-maxiter': 0.05,
                      'stall-coincides-with-convergence': 0.003, 'e2e-success-verified': 0.001}
UNIT_TIMEOUT = {'quick': 600, 'thorough': 7200}

NL = ('Newton', 'Broyden', 'NLBGS', 'NLBJ')
LN = ('LNBGS', 'LNBJ')
SYMS0 = 'ZAJBNI'
SYMS = 'ZARJBENI'


# ---------------------------------------------------------------------------------------------
# models
# ---------------------------------------------------------------------------------------------

_COMPS = {}


def _comps():
    if _COMPS:
        return _COMPS
    import openmdao.api as om

    class D1(om.ExplicitComponent):
        """y1 = p*y2 + q*y2**2 + a  (elementwise)."""

        def initialize(self):
            self.options.declare('n', types=int, default=1)
            self.options.declare('p', default=0.3)
            self.options.declare('q', default=0.05)

        def setup(self):
            n = self.options['n']
            self.add_input('a', np.ones(n))
            self.add_input('y2', np.zeros(n))
            self.add_output('y1', np.zeros(n))
            ar = np.arange(n)
            self.declare_partials('y1', ['a', 'y2'], rows=ar, cols=ar)

        def compute(self, inputs, outputs):
            p = np.asarray(self.options['p'])
            q = np.asarray(self.options['q'])
            outputs['y1'] = p * inputs['y2'] + q * inputs['y2'] ** 2 + inputs['a']

        def compute_partials(self, inputs, J):
            p = np.asarray(self.options['p'])
            q = np.asarray(self.options['q'])
            J['y1', 'a'] = 1.0
            J['y1', 'y2'] = (p + 2.0 * q * inputs['y2']).real

    class D2(om.ExplicitComponent):
        """y2 = r*y1 + c  (elementwise)."""

        def initialize(self):
            self.options.declare('n', types=int, default=1)
            self.options.declare('r', default=0.4)
            self.options.declare('c', default=-0.5)

        def setup(self):
            n = self.options['n']
            self.add_input('y1', np.zeros(n))
            self.add_output('y2', np.zeros(n))
            ar = np.arange(n)
            self.declare_partials('y2', 'y1', rows=ar, cols=ar)

        def compute(self, inputs, outputs):
            outputs['y2'] = np.asarray(self.options['r']) * inputs['y1'] + np.asarray(self.options['c'])

        def compute_partials(self, inputs, J):
            J['y2', 'y1'] = np.asarray(self.options['r']) * np.ones(self.options['n'])

    _COMPS.update(D1=D1, D2=D2, om=om)
    return _COMPS


def build(kind, n=1, p=0.3, q=0.05, r=0.4, c=-0.5, a=1.0, solver_kwargs=None):
    """A problem whose sub-group 'g' holds the two-component cycle and the solver under test."""
    cm = _comps()
    om = cm['om']
    prob = om.Problem(reports=False)
    m = prob.model
    m.add_subsystem('ivc', om.IndepVarComp('a', np.ones(n) * a))
    g = m.add_subsystem('g', om.Group())
    g.add_subsystem('c1', cm['D1'](n=n, p=p, q=q), promotes=['*'])
    g.add_subsystem('c2', cm['D2'](n=n, r=r, c=c), promotes=['*'])
    m.connect('ivc.a', 'g.a')
    kw = dict(solver_kwargs or {})
    if kind == 'Newton':
        g.nonlinear_solver = s = om.NewtonSolver(solve_subsystems=False, **kw)
        g.linear_solver = om.DirectSolver()
    elif kind == 'Broyden':
        g.nonlinear_solver = s = om.BroydenSolver(**kw)
        g.linear_solver = om.DirectSolver()
    elif kind == 'NLBGS':
        g.nonlinear_solver = s = om.NonlinearBlockGS(**kw)
    elif kind == 'NLBJ':
        g.nonlinear_solver = s = om.NonlinearBlockJac(**kw)
    elif kind == 'LNBGS':
        g.linear_solver = s = om.LinearBlockGS(**kw)
    elif kind == 'LNBJ':
        g.linear_solver = s = om.LinearBlockJac(**kw)
    else:
        raise ValueError(kind)
    prob.setup(force_alloc_complex=True)
    prob.set_solver_print(-1)
    prob.final_setup()
    return prob, g, s


class _ScriptExhausted(Exception):
    """The solver asked for more norms than the script holds (harness-private)."""


class Rig(object):
    """One problem with the observation seams installed on the solver instance."""

    def __init__(self, kind, cs=False, **model):
        self.kind = kind
        self.cs = cs
        self.prob, self.g, self.s = build(kind, **model)
        s = self.s
        self.script = None          # list of floats or None (observe only)
        self.events = []
        self.snap = None            # callable returning a state snapshot for the end-to-end tier
        orig_norm = s._iter_get_norm
        orig_iter = s._single_iteration

        def norm():
            real = orig_norm()      # keep side effects (Broyden caches fxm, block linear solvers touch the rhs)
            if self.script is None:
                v = float(real)
            else:
                k = sum(1 for e in self.events if e[0] == 'n')
                if k >= len(self.script):
                    raise _ScriptExhausted()
                v = self.script[k]
            self.events.append(('n', v, self.snap() if self.snap else None))
            return v

        def single():
            self.events.append(('i', None, self.snap() if self.snap else None))
            return orig_iter()

        s._iter_get_norm = norm
        s._single_iteration = single
        self.sweeps = None
        if kind in ('NLBGS', 'NLBJ'):
            # block solvers: one iteration = one solve of every subsystem; count the solves of the last subsystem
            # (NonlinearBlockGS performs its first sweep inside the initial norm evaluation, not in _single_iteration)
            self.sweeps = 0
            comp = self.g.c2
            orig_sub = comp._solve_nonlinear

            def sub_solve():
                self.sweeps += 1
                return orig_sub()

            comp._solve_nonlinear = sub_solve
        if kind in LN:
            self.prob.model.run_linearize()
        if cs:
            self.prob.set_complex_step_mode(True)
        self.out0 = self.prob.model._outputs.asarray(copy=True)
        self.depth0 = len(self.prob.model._problem_meta['recording_iter'].stack)

    def clean(self):
        return len(self.prob.model._problem_meta['recording_iter'].stack) == self.depth0

    def solve(self, opts, script, mode='fwd', rhs=None):
        """Run one solve.  Returns the observation dict."""
        cm = _comps()
        om = cm['om']
        s = self.s
        for k, v in opts.items():
            s.options[k] = v
        s.options['iprint'] = 0
        self.script = script
        self.events = []
        if self.sweeps is not None:
            self.sweeps = 0
        model = self.prob.model
        model._outputs.set_val(self.out0)
        if self.kind == 'Broyden':
            s._recompute_jacobian = True       # what _setup_solvers does: start every case from a fresh Jacobian
        buf = io.StringIO()
        raised = False
        exhausted = False
        other = None
        with contextlib.redirect_stdout(buf):
            try:
                if self.kind in LN:
                    model._doutputs.set_val(0.0)
                    model._dresiduals.set_val(0.0)
                    # right-hand side on the variables of the group that owns the solver under test
                    b = self.g._dresiduals if mode == 'fwd' else self.g._doutputs
                    b.set_val(1.0 if rhs is None else rhs)
                    model.run_solve_linear(mode)
                else:
                    model.run_solve_nonlinear()
            except om.AnalysisError:
                raised = True
            except _ScriptExhausted:
                exhausted = True
            except Exception as e:     # judged by the caller (violation with a repo-frame signature, or harness error)
                other = e
        return {'events': self.events, 'iter_count': int(s._iter_count), 'raised': raised, 'exhausted': exhausted,
                'other': other, 'out': buf.getvalue(), 'sweeps': self.sweeps}


_RIGS = {}
_CONFIRMED = set()


def get_rig(kind, cs, fresh=False):
    key = (kind, bool(cs))
    if fresh:
        _RIGS.pop(key, None)
        return Rig(kind, cs)
    rig = _RIGS.get(key)
    if rig is None:
        rig = _RIGS[key] = Rig(kind, cs)
    return rig


# ---------------------------------------------------------------------------------------------
# history instantiation
# ---------------------------------------------------------------------------------------------

def cap_of(case):
    mi = case['maxiter']
    return max(mi, 1) if case.get('cs') else mi


def instantiate(hist, atol, rtol, scale):
    """Concrete floats for a symbol string.  Returns (values, None) or (None, index of the first infeasible symbol)."""
    vals = []
    n0 = None
    for i, sym in enumerate(hist):
        v = None
        if i == 0:
            if sym == 'Z':
                v = 0.0
            elif sym == 'A':
                v = atol / 2 if atol > 0 else None
            elif sym == 'J':
                v = 1.5 * atol if atol > 0 else 1.5e-30
            elif sym == 'B':
                v = float(scale)
            elif sym == 'N':
                v = math.nan
            elif sym == 'I':
                v = math.inf
            n0 = v
        else:
            thr_r = rtol * n0 if (math.isfinite(n0) and n0 > 0) else 0.0
            thr = max(atol, thr_r)
            if sym == 'Z':
                v = 0.0
            elif sym == 'A':
                v = atol / 2 if atol > 0 else None
            elif sym == 'R':
                v = thr_r / 2 if thr_r / 2 > atol else None
            elif sym == 'J':
                v = (thr if thr > 0 else 1e-30) * (1.5 + i / 8.0)
            elif sym == 'B':
                v = float(scale) * 2.0 ** (-i)
                if not v > 4 * thr:
                    v = None
            elif sym == 'E':
                v = vals[i - 1]
            elif sym == 'N':
                v = math.nan
            elif sym == 'I':
                v = math.inf
        if v is None:
            return None, i
        vals.append(v)
    return vals, None


# ---------------------------------------------------------------------------------------------
# reference automaton (three-valued: True / False / None = the text does not decide)
# ---------------------------------------------------------------------------------------------

class Ref(object):
    def __init__(self, cfg, norms, has_init):
        self.atol = cfg['atol']
        self.rtol = cfg['rtol']
        self.linear = cfg['solver'] in LN
        self.sl = 0 if self.linear else int(cfg.get('stall_limit', 0))
        self.stol = cfg.get('stall_tol', 1e-12)
        self.stype = cfg.get('stall_tol_type', 'rel')
        self.v = norms
        self.n0 = norms[0] if (has_init and norms) else None

    def n0_usable(self):
        n0 = self.n0
        return n0 is not None and math.isfinite(n0) and n0 > 0

    def meets(self, v):
        if math.isnan(v):
            return False
        if v <= self.atol:
            return True
        if self.n0_usable():
            return (v / self.n0) <= self.rtol
        if self.n0 is not None and not math.isfinite(self.n0):
            return None          # the text is silent on a relative test against a NaN / infinite initial norm
        # n0 is a placeholder or zero (some positive finite normalisation is used): v > atol >= 0 here, so the relative
        # norm is positive, which decides the test when rtol == 0 or v is infinite
        if self.rtol == 0 or math.isinf(v):
            return False
        return None

    def within(self, a, b):
        va, vb = self.v[a], self.v[b]
        if not (math.isfinite(va) and math.isfinite(vb)):
            return False
        if va == vb:
            return True
        if self.stype == 'rel':
            if not self.n0_usable():
                return None
            d = abs(va / self.n0 - vb / self.n0)
        else:
            d = abs(va - vb)
        if self.stol > 0 and abs(d - self.stol) <= 1e-6 * self.stol:
            return None
        return d <= self.stol

    def run_permissive(self, k):
        """Longest run ending at k of norms 'identical within stall_tol' under either reading (None counts as identical)."""
        rc = 0
        j = k
        while j >= 1 and self.within(j, j - 1) is not False:
            rc += 1
            j -= 1
        rr = 0
        for s in range(k - 1, -1, -1):
            if all(self.within(j, s) is not False for j in range(s + 1, k + 1)):
                rr = k - s
        return max(rc, rr)

    def stall_legit(self, k):
        return self.sl > 0 and k >= 1 and self.run_permissive(k) + 1 >= max(self.sl, 2)

    def stall_sure(self, k):
        """Every reading agrees that the solver has stalled at evaluation k."""
        if self.sl <= 0 or k < self.sl:
            return False
        x = self.v[k]
        return math.isfinite(x) and all(self.v[j] == x for j in range(k - self.sl, k))

    def _stall_index(self, ref, metric):
        """Evaluation index at which the documented stall counter (reference = first norm of the run, reset on a change)
        trips when the initial reference is `ref`; None if it never does."""
        count = 0
        for k in range(1, len(self.v)):
            if not math.isfinite(self.v[k]):
                return None
            cur = metric(self.v[k])
            if abs(ref - cur) <= self.stol:
                count += 1
                if count >= self.sl:
                    return k
            else:
                count = 0
                ref = cur
        return None

    def first_rel_comparison_differs(self):
        """Predicate of F6b: the stall counter trips at a different iterate when its initial reference is the solver's
        normalisation factor norm0 (the absolute initial norm, or 1.0 when that norm is 0) than when it is the initial
        norm in the metric the later comparisons use (n0/n0 = 1 for stall_tol_type='rel', n0 itself for 'abs')."""
        if self.sl <= 0 or len(self.v) < 2 or self.n0 is None or not math.isfinite(self.n0):
            return False
        norm0 = self.n0 if self.n0 != 0 else 1.0
        if self.stype == 'rel':
            metric = lambda x: x / norm0
        else:
            metric = lambda x: x
        true_ref = metric(self.n0)
        if true_ref == norm0:
            return False
        return self._stall_index(true_ref, metric) != self._stall_index(norm0, metric)


def known_f6(cfg, norms, has_init, forced_first):
    """F6: the first iterate that meets a tolerance is at the same time a legitimate stall point."""
    ref = Ref(cfg, norms, has_init)
    for k, v in enumerate(norms):
        if ref.meets(v) is True:
            if k == 0 and forced_first:
                continue
            return ref.stall_legit(k) or ref.first_rel_comparison_differs()
    return False


def judge(cfg, obs, res, e2e=False):
    """Apply clauses (1)-(5) to one observed solve; appends violations to res and returns the class labels."""
    maxiter = cfg['maxiter']
    cs = bool(cfg.get('cs'))
    cap = max(maxiter, 1) if cs else maxiter
    ev = obs['events']
    norms = [e[1] for e in ev if e[0] == 'n']
    n_iter = sum(1 for e in ev if e[0] == 'i')
    m = len(norms)
    has_init = bool(ev) and ev[0][0] == 'n'
    cls = []
    out = obs['out']
    msg = bool(out.strip())
    raised = obs['raised']
    err = bool(cfg['err'])
    sweeps = obs.get('sweeps')
    detail = lambda: (f"norms seen={norms} iterations={n_iter} _iter_count={obs['iter_count']} raised={raised} "
                      f"stdout={out.strip()!r}" + (f" subsystem sweeps={sweeps}" if sweeps is not None else ''))

    # (1) iteration cap
    if obs['exhausted'] or n_iter > cap or obs['iter_count'] > cap or m > cap + 1 or (sweeps is not None and sweeps > cap):
        res.fail('c1:iteration-cap-exceeded', f"cap={cap} " + detail())
        cls.append('cap-exceeded')
        if obs['exhausted']:
            return cls
    if m == 0:
        cls.append('no-norm-evaluated')
        return cls

    ref = Ref(cfg, norms, has_init)
    forced_first = cs and has_init
    if any(not math.isfinite(v) for v in norms):
        cls.append('nonfinite-seen')
    if not has_init:
        cls.append('placeholder-n0')

    # (2) stop at the first iterate meeting a tolerance
    for i in range(m - 1):
        if ref.meets(norms[i]) is True and not (forced_first and i == 0):
            res.fail('c2:continued-after-convergence', f"index {i} " + detail())
            break
    if forced_first and m >= 2 and ref.meets(norms[0]) is True:
        cls.append('cs-forced-after-converged')

    last = norms[-1]
    mt = ref.meets(last)
    reported = raised or msg

    # reporting channel
    if raised and not err:
        res.fail('c3:AnalysisError-without-err_on_non_converge', detail())
    if msg and err and not raised:
        res.fail('c3:failure-printed-but-not-raised', detail())

    # (3)/(5) failure reported iff the last norm meets no tolerance
    if mt is True:
        cls.append('converged')
        if obs['iter_count'] >= maxiter and m >= 2:
            cls.append('converged-at-last-iterate')
        if reported:
            sig = 'c3:failure-reported-although-converged'
            if 'stalled' in out and known_f6(cfg, norms, has_init, forced_first):
                sig = 'F6-stall-coincides-with-convergence:failure-reported-although-converged'
            res.fail(sig, detail())
    elif mt is False:
        cls.append('unconverged')
        if not reported:
            res.fail('c5:success-reported-above-both-tolerances', detail())
    else:
        cls.append('rtol-unjudged')

    # (4) an early stop needs a cause
    early = obs['iter_count'] < maxiter and n_iter < maxiter
    if early and mt is False and math.isfinite(last):
        if ref.stall_legit(m - 1):
            cls.append('stall-stop')
        else:
            sig = 'c4:early-stop-without-cause'
            if ref.first_rel_comparison_differs():
                sig = 'F6b-rel-stall-reference-is-abs-norm0:early-stop-without-cause'
            res.fail(sig, detail())
    elif early and mt is False:
        cls.append('nonfinite-stop')
    elif not early and mt is False:
        cls.append('hit-maxiter')
    if mt is True and ref.stall_legit(m - 1):
        cls.append('stall-coincides-with-convergence')

    # (4b) no iteration after a stall on which every reading agrees
    for i in range(m - 1):
        if ref.stall_sure(i) and ref.meets(norms[i]) is False:
            sig = 'c4b:iterated-on-after-certain-stall'
            if ref.first_rel_comparison_differs():
                sig = 'F6b-rel-stall-reference-is-abs-norm0:iterated-on-after-certain-stall'
            res.fail(sig, f"index {i} " + detail())
            break
    if ref.sl > 0 and any(ref.within(j, j - 1) is not False for j in range(1, m)):
        cls.append('near-identical-norms')
    return cls


# ---------------------------------------------------------------------------------------------
# check
# ---------------------------------------------------------------------------------------------

def solver_opts(case):
    o = {'maxiter': int(case['maxiter']), 'atol': case['atol'], 'rtol': case['rtol'],
         'err_on_non_converge': bool(case['err'])}
    if case['solver'] in NL:
        o['stall_limit'] = int(case.get('stall_limit', 0))
        o['stall_tol'] = case.get('stall_tol', 1e-12)
        o['stall_tol_type'] = case.get('stall_tol_type', 'rel')
    return o


def _eval_script(case, fresh):
    """Returns (Result, number of symbols consumed or index of the infeasible symbol, feasible flag)."""
    res = Result()
    if 'norms' in case:          # random tier: the concrete floats are part of the case ('nan' / 'inf' as strings)
        vals = [float(x) for x in case['norms']]
        hist = vals
    else:
        hist = case['hist']
        vals, bad = instantiate(hist, case['atol'], case['rtol'], case['scale'])
        if vals is None:
            res.discard = 'infeasible-symbol'
            return res, bad + 1, False
    kind = case['solver']
    cs = bool(case.get('cs')) and kind in NL
    rig = get_rig(kind, cs, fresh=fresh)
    obs = rig.solve(solver_opts(case), vals, mode=case.get('mode', 'fwd'))
    if obs['other'] is not None or obs['exhausted'] or not rig.clean():
        _RIGS.pop((kind, cs), None)          # never reuse a problem after an abnormal exit
    if obs['other'] is not None:
        sig = core.repo_frame_signature(obs['other'])
        if sig is None:
            raise obs['other']
        res.fail(sig, f"{type(obs['other']).__name__}: {obs['other']}")
        return res, len(hist), True
    cfg = dict(case)
    cfg['cs'] = cs
    cls = judge(cfg, obs, res)
    m = sum(1 for e in obs['events'] if e[0] == 'n')
    res.classes = [kind, f"maxiter{case['maxiter']}"] + cls + (['cs'] if cs else [])
    res.nontrivial = any(c in cls for c in ('nonfinite-seen', 'near-identical-norms', 'converged-at-last-iterate',
                                            'cs-forced-after-converged', 'stall-stop'))
    return res, m, True


def check_script(case):
    res, m, ok = _eval_script(case, fresh=False)
    key = (case['solver'], bool(case.get('cs')), case['maxiter'], tuple(sorted(s for s, _ in res.violations)))
    if res.violations and key not in _CONFIRMED:
        # confirm on a freshly built problem: the verdict must not depend on earlier cases run in this process
        # (done for the first case of every distinct failure pattern per solver class; replay always starts fresh)
        _CONFIRMED.add(key)
        res2, m2, ok2 = _eval_script(case, fresh=True)
        if sorted(s for s, _ in res2.violations) != sorted(s for s, _ in res.violations):
            raise RuntimeError(f"verdict depends on solver state left by earlier cases: cached={res.violations} "
                               f"fresh={res2.violations}")
        res = res2
    return res, m, ok


def check(case):
    if case.get('kind') == 'e2e':
        return check_e2e(case)
    return check_script(case)[0]


# ---------------------------------------------------------------------------------------------
# end-to-end tier: real norms
# ---------------------------------------------------------------------------------------------

def _resid(case, y1, y2):
    p, q, r = (np.asarray(case[k], dtype=float) for k in 'pqr')
    a, c = (np.asarray(case[k], dtype=float) for k in 'ac')
    with np.errstate(all='ignore'):
        r1 = y1 - (p * y2 + q * y2 ** 2 + a)
        r2 = y2 - (r * y1 + c)
        return np.concatenate([r1, r2])


def _norm(x):
    with np.errstate(all='ignore'):
        return float(np.sqrt(np.sum(np.asarray(x, dtype=float) ** 2)))


def check_e2e(case):
    cm = _comps()
    om = cm['om']
    kind = case['solver']
    n = int(case['n'])
    res = Result()
    kw = {}
    if kind == 'NLBGS':
        kw['use_apply_nonlinear'] = bool(case.get('use_apply_nonlinear'))
    rig = Rig(kind, False, n=n, p=np.array(case['p']), q=np.array(case['q']), r=np.array(case['r']),
              c=np.array(case['c']), a=1.0, solver_kwargs=kw)
    prob, g = rig.prob, rig.g
    model = prob.model
    a = np.array(case['a'], dtype=float)
    prob.set_val('ivc.a', a)
    y1_0 = np.array(case['y1'], dtype=float)
    y2_0 = np.array(case['y2'], dtype=float)
    linear = kind in LN
    cls = [kind, 'e2e']

    if linear:
        prob.set_val('g.y1', y1_0)
        prob.set_val('g.y2', y2_0)
        prob.run_model()                      # default NLRunOnce on g: one pass, defines the linearisation point
        # partials are evaluated at the *input* vector (c1's y2 input still holds the value transferred before c1 ran)
        y2_lin = np.array(model._inputs['g.c1.y2'], dtype=float).ravel()
        model.run_linearize()
        mode = case['mode']
        p_, q_, r_ = (np.asarray(case[k], dtype=float) * np.ones(n) for k in 'pqr')
        # OpenMDAO writes explicit residuals as f(inputs) - output: -1 on the diagonal
        A = np.block([[-np.eye(n), np.diag(p_ + 2 * q_ * y2_lin)], [np.diag(r_), -np.eye(n)]])
        if mode == 'rev':
            A = A.T
        b = np.array(case['rhs'], dtype=float)
        xvec = g._doutputs if mode == 'fwd' else g._dresiduals
        rig.snap = lambda: xvec.asarray(copy=True)
        rig.out0 = model._outputs.asarray(copy=True)
        if [nm.rsplit('.', 1)[-1] for nm in g._doutputs._abs_iter()] != ['y1', 'y2']:
            raise RuntimeError('unexpected variable order in the group vectors')
        obs = rig.solve(solver_opts(case), None, mode=mode, rhs=b)
        refnorm = lambda x: _norm(A.dot(x) - b)
        scale = 1.0 + float(np.max(np.abs(b)))
    else:
        prob.set_val('g.y1', y1_0)
        prob.set_val('g.y2', y2_0)
        prob.final_setup()
        rig.out0 = model._outputs.asarray(copy=True)
        rig.snap = lambda: g._outputs.asarray(copy=True)
        obs = rig.solve(solver_opts(case), None)
        scale = 1.0

    if obs['other'] is not None:
        e = obs['other']
        sig = core.repo_frame_signature(e)
        if sig is None:
            raise e
        # singular Newton/Broyden Jacobians etc. are documented errors of the linear solver, not termination defects
        res.discard = f"solver raised {type(e).__name__}"
        res.classes = cls + ['e2e-solver-exception']
        return res

    cfg = dict(case)
    cfg['cs'] = False
    jc = judge(cfg, obs, res, e2e=True)
    cls += jc
    ev = obs['events']
    norm_events = [e for e in ev if e[0] == 'n']
    n_iter = sum(1 for e in ev if e[0] == 'i')
    reported = obs['raised'] or bool(obs['out'].strip())

    # (b) every norm the solver acted on is the residual norm of the state it was evaluated at
    delta_mode = kind == 'NLBGS' and not case.get('use_apply_nonlinear')
    judge_norms = not (delta_mode and case['maxiter'] < 2)
    prev_state = np.concatenate([y1_0, y2_0]) if not linear else None
    for j, (_, v, state) in enumerate(norm_events):
        if not judge_norms:
            break
        with np.errstate(all='ignore'):
            if linear:
                refv = refnorm(state)
                mag = float(np.max(np.abs(state))) if state.size else 0.0
            elif delta_mode:
                refv = _norm(state - prev_state)
                mag = float(np.max(np.abs(state)))
            else:
                refv = _norm(_resid(case, state[:n], state[n:]))
                mag = float(np.max(np.abs(state)) + np.max(np.abs(case['q'])) * np.max(np.abs(state)) ** 2)
        prev_state = state
        if not (math.isfinite(refv) and math.isfinite(v)):
            if math.isfinite(refv) != math.isfinite(v) and math.isfinite(mag) and mag < 1e150:
                res.fail('e2e:norm-finiteness-differs', f"eval {j}: solver norm {v} recomputed {refv}")
            continue
        slack = 1e-13 * (scale + mag) * math.sqrt(2 * n)
        if not linear:
            # ExplicitComponent._apply_nonlinear restores the outputs arithmetically (outputs -= residuals), which loses
            # eps*|residual| of them; the state snapshot (taken after that) and hence the recomputed residual inherit that
            # error times the local sensitivity of the residual to the outputs
            with np.errstate(all='ignore'):
                sens = 1.0 + float(np.max(np.abs(case['p'])) + np.max(np.abs(case['r']))
                                   + 2 * np.max(np.abs(case['q'])) * np.max(np.abs(state)))
                slack += 8 * 2.2e-16 * max(v, refv) * sens * math.sqrt(2 * n)
        if not math.isfinite(slack):
            continue
        if abs(v - refv) > 1e-9 * refv + slack:
            res.fail('e2e:norm-not-the-residual-norm', f"eval {j}: solver norm {v!r} recomputed {refv!r} slack {slack:g}")
            break

    # (c) a reported success leaves a residual norm that meets a tolerance
    if not reported and norm_events and not delta_mode:
        ref = Ref(cfg, [e[1] for e in norm_events], bool(ev) and ev[0][0] == 'n')
        if linear:
            xfin = xvec.asarray(copy=True)
            fin = refnorm(xfin)
            mag = float(np.max(np.abs(xfin)))
            fin_om = None
        else:
            model.run_apply_nonlinear()
            fin_om = float(g._residuals.get_norm())
            y1 = np.array(prob.get_val('g.y1'), dtype=float)
            y2 = np.array(prob.get_val('g.y2'), dtype=float)
            fin = _norm(_resid(case, y1, y2))
            with np.errstate(all='ignore'):
                mag = np.maximum(np.max(np.abs(y1)), np.max(np.abs(y2)))
                mag = float(mag + np.max(np.abs(case['q'])) * mag ** 2)
        slack = 1e-13 * (scale + mag) * math.sqrt(2 * n)
        for name, val in (('recomputed', fin), ('run_apply_nonlinear', fin_om)):
            if val is None:
                continue
            ok_abs = val <= case['atol'] * (1 + 1e-9) + slack
            ok_rel = ref.n0_usable() and (val - slack) / ref.n0 <= case['rtol'] * (1 + 1e-9)
            undecided = not ref.n0_usable() and case['rtol'] > 0
            if not (ok_abs or ok_rel or undecided):
                res.fail('e2e:success-leaves-residual-above-both-tolerances',
                         f"{name} final residual norm {val!r}, n0={ref.n0!r}, atol={case['atol']}, rtol={case['rtol']}, "
                         f"norms seen={[e[1] for e in norm_events]}")
                break
        cls.append('e2e-success-verified')
    if delta_mode:
        cls.append('e2e-nlbgs-delta-norm')
    res.classes = cls
    res.nontrivial = n_iter >= 2 or reported
    return res


def e2e_strategy():
    from hypothesis import strategies as st

    coef = st.floats(-1.5, 1.5, allow_nan=False, width=64).map(lambda x: round(x, 3))
    small = st.floats(-0.3, 0.3, allow_nan=False, width=64).map(lambda x: round(x, 3))
    val = st.floats(-3.0, 3.0, allow_nan=False, width=64).map(lambda x: round(x, 3))

    @st.composite
    def case(draw):
        kind = draw(st.sampled_from(NL + LN + ('Newton', 'NLBGS')))
        n = draw(st.integers(1, 3))
        vec = lambda s: [draw(s) for _ in range(n)]
        contraction = draw(st.integers(0, 3)) > 0
        p = vec(coef)
        r = vec(coef)
        if contraction:
            p = [round(x * 0.5, 4) for x in p]
            r = [round(x * 0.5, 4) for x in r]
        cse = {'kind': 'e2e', 'solver': kind, 'n': n, 'p': p, 'q': vec(small), 'r': r, 'c': vec(val), 'a': vec(val),
               'y1': vec(val), 'y2': vec(val),
               'maxiter': draw(st.sampled_from([1, 2, 3, 4, 6, 10, 15, 30])),
               'atol': draw(st.sampled_from([1e-10, 1e-6, 1e-3, 0.0, 1e-14])),
               'rtol': draw(st.sampled_from([1e-10, 1e-6, 1e-2, 0.0])),
               'err': draw(st.booleans())}
        if kind in NL:
            cse['stall_limit'] = draw(st.sampled_from([0, 0, 1, 2, 3]))
            cse['stall_tol'] = draw(st.sampled_from([1e-12, 1e-6, 1e-3]))
            cse['stall_tol_type'] = draw(st.sampled_from(['rel', 'abs']))
            if kind == 'NLBGS':
                cse['use_apply_nonlinear'] = draw(st.booleans())
        else:
            cse['mode'] = draw(st.sampled_from(['fwd', 'rev']))
            cse['rhs'] = [draw(val) for _ in range(2 * n)]
        return cse

    return case()


def rand_strategy():
    """Scripted histories with explicit floats: longer than the exhaustive tries (maxiter up to 8, stall_limit up to 4),
    norms drawn relative to the thresholds, to the previous norm and to stall_tol."""
    from hypothesis import strategies as st

    @st.composite
    def case(draw):
        kind = draw(st.sampled_from(NL + LN))
        maxiter = draw(st.integers(0, 8))
        atol = draw(st.sampled_from([1e-10, 1e-10, 0.0, 1e-6]))
        rtol = draw(st.sampled_from([1e-10, 1e-10, 0.0, 1e-6]))
        cse = {'kind': 'script', 'solver': kind, 'maxiter': maxiter, 'atol': atol, 'rtol': rtol, 'err': draw(st.booleans())}
        stol = 1e-12
        if kind in NL:
            cse['cs'] = draw(st.sampled_from([False, False, True]))
            cse['stall_limit'] = draw(st.sampled_from([0, 1, 2, 3, 4]))
            stol = cse['stall_tol'] = draw(st.sampled_from([1e-12, 1e-6, 1e-3]))
            cse['stall_tol_type'] = draw(st.sampled_from(['rel', 'abs']))
        else:
            cse['mode'] = draw(st.sampled_from(['fwd', 'rev']))
        n0 = draw(st.sampled_from([1024.0, 0.5, 1.0, 3e-7, 1e5, 0.0, 'inf', 'nan', 0.75, 2.5e-10]))
        norms = [n0]
        f0 = float(n0)
        ref0 = f0 if (math.isfinite(f0) and f0 > 0) else 1.0
        L = max(maxiter, 1) + 2
        for i in range(1, L):
            prev = float(norms[-1])
            pf = prev if math.isfinite(prev) else ref0
            thr = max(atol, rtol * ref0)
            kindv = draw(st.sampled_from(['zero', 'atol', 'rtol', 'just', 'big', 'eq', 'near', 'nearrel', 'step', 'half',
                                          'nan', 'inf', 'sq']))
            if kindv == 'zero':
                v = 0.0
            elif kindv == 'atol':
                v = atol * draw(st.sampled_from([0.5, 0.9, 0.25]))
            elif kindv == 'rtol':
                v = rtol * ref0 * draw(st.sampled_from([0.5, 0.9]))
            elif kindv == 'just':
                v = (thr if thr > 0 else 1e-30) * draw(st.sampled_from([1.1, 1.5, 2.0, 3.0]))
            elif kindv == 'big':
                v = ref0 * draw(st.sampled_from([0.7, 0.3, 1.5, 10.0, 0.01]))
            elif kindv == 'eq':
                v = prev
            elif kindv == 'near':
                v = pf + stol * draw(st.sampled_from([0.3, -0.3, 0.1, 3.0, -3.0]))
            elif kindv == 'nearrel':
                v = pf + stol * ref0 * draw(st.sampled_from([0.3, -0.3, 0.1, 3.0, -3.0]))
            elif kindv == 'step':
                v = pf * (1 + draw(st.sampled_from([1e-15, -1e-15, 1e-9, -1e-9])))
            elif kindv == 'half':
                v = pf / 2
            elif kindv == 'sq':
                v = ref0 * ref0            # relative norm numerically equal to the absolute initial norm
            elif kindv == 'nan':
                v = 'nan'
            else:
                v = 'inf'
            if not isinstance(v, str):
                v = abs(float(v))
            norms.append(v)
        cse['norms'] = norms
        return cse

    return case()


# ---------------------------------------------------------------------------------------------
# enumeration
# ---------------------------------------------------------------------------------------------

def stall_points(tier, maxiter):
    pts = [{'stall_limit': 0, 'stall_tol_type': 'rel', 'stall_tol': 1e-12}]
    limits = (1, 2) if tier == 'quick' else (1, 2, 3)
    for sl in limits:
        for ty in ('abs', 'rel'):
            for tol in (1e-12, 1e-3):
                pts.append({'stall_limit': sl, 'stall_tol_type': ty, 'stall_tol': tol})
    return pts


def option_points(kind, tier, maxiter):
    pts = []
    for atol in (1e-10, 0.0):
        for rtol in (1e-10, 0.0):
            for err in (False, True):
                for scale in (1024.0, 0.5):
                    base = {'solver': kind, 'maxiter': maxiter, 'atol': atol, 'rtol': rtol, 'err': err, 'scale': scale}
                    if kind in LN:
                        for mode in ('fwd', 'rev'):
                            pts.append(dict(base, mode=mode))
                    else:
                        for sp in stall_points(tier, maxiter):
                            for cs in (False, True):
                                pts.append(dict(base, cs=cs, **sp))
    return pts


def deep_points(kind, tier):
    """maxiter 4 (quick) / 5 (thorough) on the sub-grid where the extra depth matters: stall_limit 3."""
    mi = 4 if tier == 'quick' else 5
    pts = []
    for atol, rtol in ((1e-10, 1e-10), (1e-10, 0.0)):
        for ty in ('abs', 'rel'):
            for scale in (1024.0, 0.5):
                pts.append({'solver': kind, 'maxiter': mi, 'atol': atol, 'rtol': rtol, 'err': False, 'scale': scale,
                            'cs': False, 'stall_limit': 3, 'stall_tol_type': ty, 'stall_tol': 1e-3})
    return pts


def enum_point(pt, ctx):
    """All histories of length cap+1 for one option point, skipping repeats of the consumed prefix."""
    L = cap_of(pt) + 1
    skip = None
    for tup in itertools.product(SYMS0, *([SYMS] * (L - 1))):
        hist = ''.join(tup)
        if skip is not None and hist.startswith(skip):
            continue
        case = dict(pt, kind='script', hist=hist)
        try:
            res, m, feasible = check_script(case)
        except Exception as e:
            import traceback
            ctx.harness_error(f"{type(e).__name__}: {e}\ncase={case}\n" + traceback.format_exc()[-2500:])
            return
        if not feasible:
            skip = hist[:m]
            continue
        ctx.record(case, res)
        skip = hist[:m] if m < L else None


# measured cost (ms of CPU per option point) of the trie below one option point, used only to balance the work units
_MS = {('Newton', 0): 8.7, ('Newton', 1): 11.6, ('Newton', 2): 39.4, ('Newton', 3): 159.6, ('Newton', 4): 749.2,
       ('Broyden', 0): 18.9, ('Broyden', 1): 23.7, ('Broyden', 2): 85.4, ('Broyden', 3): 456.3, ('Broyden', 4): 1979.4,
       ('NLBGS', 0): 0.4, ('NLBGS', 1): 6.4, ('NLBGS', 2): 6.2, ('NLBGS', 3): 21.6, ('NLBGS', 4): 90.2,
       ('NLBJ', 0): 0.7, ('NLBJ', 1): 6.6, ('NLBJ', 2): 24.9, ('NLBJ', 3): 99.4, ('NLBJ', 4): 496.2,
       ('LNBGS', 0): 0.1, ('LNBGS', 1): 0.9, ('LNBGS', 2): 16.6, ('LNBGS', 3): 84.5, ('LNBGS', 4): 405.7, ('LNBGS', 5): 2106.0,
       ('LNBJ', 0): 0.1, ('LNBJ', 1): 0.9, ('LNBJ', 2): 17.3, ('LNBJ', 3): 82.2, ('LNBJ', 4): 417.7, ('LNBJ', 5): 2016.7}


def _cost(kind, mi):
    k = mi
    f = 1.0
    while (kind, k) not in _MS:
        k -= 1
        f *= 4.5
    return _MS[(kind, k)] * f


def all_points(tier):
    """Every option point of the scripted tier with a rough cost estimate (ms), in a deterministic order."""
    if tier == 'quick':
        depth = {'Newton': 3, 'Broyden': 3, 'NLBGS': 4, 'NLBJ': 3, 'LNBGS': 4, 'LNBJ': 4}
    else:
        depth = {'Newton': 4, 'Broyden': 4, 'NLBGS': 6, 'NLBJ': 4, 'LNBGS': 6, 'LNBJ': 6}
    out = []
    for kind in NL + LN:
        for mi in range(depth[kind] + 1):
            for pt in option_points(kind, tier, mi):
                if tier == 'quick':
                    # the deepest level of the quick tier runs on half of the (err, scale) grid; Broyden, which shares
                    # NonlinearSolver._solve with Newton/NLBJ and is 3x as expensive, on a quarter at depth 3 and a half below
                    diag = (pt['err'], pt['scale']) in ((True, 0.5), (False, 1024.0))
                    if mi == depth[kind] and not diag:
                        continue
                    if kind == 'Broyden' and (not diag or (mi == 3 and not pt['err'])):
                        continue
                out.append((_cost(kind, mi), pt))
        if kind in NL and not (tier == 'quick' and kind == 'Broyden'):
            for pt in deep_points(kind, tier):
                out.append((_cost(kind, pt['maxiter']), pt))
    return out


def bins(tier, nbins):
    """Longest-processing-time-first packing of the option points into nbins work units."""
    pts = all_points(tier)
    order = sorted(range(len(pts)), key=lambda i: (-pts[i][0], i))
    load = [0.0] * nbins
    out = [[] for _ in range(nbins)]
    for i in order:
        k = min(range(nbins), key=lambda b: (load[b], b))
        load[k] += pts[i][0]
        out[k].append(pts[i][1])
    return out


def units(tier, seed):
    # few, evenly loaded units: importing OpenMDAO costs every worker process a second or more
    nb = 14 if tier == 'quick' else 64
    us = [{'kind': 'script', 'bin': k, 'nbins': nb} for k in range(nb)]
    ne2e, per = (4, 400) if tier == 'quick' else (32, 1900)
    for i in range(ne2e):
        us.append({'kind': 'e2e', 'n': per, 'seed': core.shard_seed(seed, ID, i)})
    nr, perr = (2, 6000) if tier == 'quick' else (32, 20000)
    for i in range(nr):
        us.append({'kind': 'rand', 'n': perr, 'seed': core.shard_seed(seed, ID, 100 + i)})
    return us


def run_unit(unit, ctx):
    k = unit['kind']
    tier = unit.get('tier', 'quick')
    if k == 'script':
        for pt in bins(tier, unit['nbins'])[unit['bin']]:
            enum_point(pt, ctx)
    elif k == 'e2e':
        core.run_hypothesis(ctx, e2e_strategy(), check, unit['n'], unit['seed'], shrink=tier == 'thorough')
    elif k == 'rand':
        core.run_hypothesis(ctx, rand_strategy(), check, unit['n'], unit['seed'], shrink=tier == 'thorough')
    ctx.extra['cpu_s'] = round(time.process_time(), 2)
