"""C29  Wrapped input files parse back to the values written.

Domain : templates (lines of fields separated by drawn delimiter runs, anchors with occurrence +-k) x
         1-3 substitutions (transfer_var / transfer_array / transfer_2Darray) of ints, floats over the whole
         double range incl. non-finite, strings ; real files on disk (set_template_file / generate / set_file).
Oracle : own model of the template (field texts with values given by Python's int()/float()) updated with the
         written values ; FileParser must return the model at every location, the generated text must be
         the template text outside the substituted fields.
"""
import math
import os
import re
import shutil
import struct
import tempfile

import numpy as np

from vfw import core
from vfw.core import Result

ID = 'C29'
LEVEL = 'exploration'
TECHNIQUE = ('round-trip oracle: Hypothesis-generated templates and values written by InputFileGenerator, read back '
             'by FileParser, compared with an independent field model (text scanner + Python float()/int())')
RULE = ("case = {delims, lines:[{lead, fields:[{k,t}], seps, trail}], ops}. Templates have 2-7 lines of 1-6 fields "
        "(upper-case words, ints, floats written as %.16g / %.1f / '5.' / '.5' / Fortran D and E exponents / 3e5, "
        "Inf, -Inf, NaN, nan) separated by runs of 1-3 characters of the delimiter set (default, ' ', ' \\t', ', ', "
        "',', '= ', ';', ' ,='), optional leading/trailing runs, anchor words repeated over several lines and used "
        "with occurrence +k / -k. ops = 1-3 of transfer_var (int, float, str), transfer_array (list or ndarray, "
        "equal / longer / shorter than the slot, one or several rows) and transfer_2Darray. Floats are decoded from "
        "Hypothesis bytes: raw IEEE bit patterns, short decimals, d*10^-k (the %.16g form without '.'), integer-"
        "valued, +-0.0, subnormals, DBL_MAX, neighbours of 1e-4 / 1e16 / 2^53, +-inf, nan. Non-trivial = a written "
        "value is a negative float printed with an exponent, or non-finite, or an array whose length differs from "
        "its slot. Distinct = distinct canonical JSON of the case.")
ASSUMPTIONS = [
    "Python float()/int() applied to a field's text (with Fortran D read as E) is the value of a template field",
    "floats must come back within 1e-15 relative (16 significant digits, as the property states); an integer token "
    "equal to the float (e.g. '1' for 1.0000000000000002) is accepted; the sign of zero is not judged",
    "ints and strings must come back exactly (arrays are compared numerically: FileParser returns float arrays)",
    "strings are drawn from [A-Za-z_][A-Za-z0-9_]* (no delimiter characters, not starting like a number)",
    "generator and parser are given the same delimiter set; templates contain only delimiter and field characters",
    "an array longer than its slot is only generated when the slot ends at the last field of its line (the extra "
    "terms are appended to the line) and with sep taken from the delimiter set; an array shorter than its slot may "
    "either raise ValueError (documented intent) or leave the remaining template fields untouched",
    "2-D arrays have exactly the slot's width (the code documents that it cannot go beyond the template line)",
    "fields holding an anchor word used by the case are never overwritten; row/field numbers are in range",
    "ints inside arrays are below 2^53 (the parser returns float arrays)",
    "bool values and numpy float32 are not generated (written with str(), they cannot come back as the same type)",
]
BOUND = {'quick': '16 x 2000 templates with 1-3 substitutions', 'thorough': '16 x 30000'}
MIN_CLASS_FRACTION = {'var_float': 0.2, 'array': 0.15, 'array2d': 0.05, 'neg_exp_nodot': 0.01,
                      'nonfinite_value': 0.02, 'array_longer': 0.02, 'occurrence_negative': 0.1,
                      'delims_nonspace': 0.2, 'var_str': 0.05, 'var_int': 0.05}

INF = float('inf')

# ---------------------------------------------------------------------------------------------
# value encoding (JSON-able, nan/inf safe)
# ---------------------------------------------------------------------------------------------


def enc(v):
    if isinstance(v, float):
        return {'f': repr(v)}
    return v


def dec(e):
    if isinstance(e, dict):
        return float(e['f'])
    return e


# ---------------------------------------------------------------------------------------------
# independent model of a template
# ---------------------------------------------------------------------------------------------

_SPECIAL = {'Inf': INF, '-Inf': -INF, 'NaN': float('nan'), 'nan': float('nan')}


def field_value(f):
    """Value of a template field from its text (the specification of what the parser must return)."""
    k, t = f['k'], f['t']
    if k == 'word':
        return t
    if k == 'int':
        return int(t)
    if k == 'special':
        return _SPECIAL[t]
    return float(t.replace('D', 'E').replace('d', 'e'))


def line_text(ln):
    out = [ln['lead']]
    for i, f in enumerate(ln['fields']):
        if i:
            out.append(ln['seps'][i - 1])
        out.append(f['t'])
    out.append(ln['trail'])
    return ''.join(out)


def scan(line, delims):
    """Own scanner: [(is_field, text)] runs of delimiter / non-delimiter characters."""
    runs = []
    cur = ''
    isf = None
    for ch in line:
        f = ch not in delims
        if isf is None or f == isf:
            cur += ch
        else:
            runs.append((isf, cur))
            cur = ch
        isf = f
    if cur:
        runs.append((isf, cur))
    return runs


_SIGNED_MIXED = re.compile(r'^[+-]\d+[eEdD][+-]?\d+$')
_NANWORDS = ('Inf', 'NaN', 'nan', 'qNaN', 'sNaN')


def neg_exp_nodot(x, fmt='%.16g'):
    """F11a predicate: negative float whose %.16g form (repr for the terms appended by transfer_array, which are
    written with str()) has an exponent and no '.'."""
    if not isinstance(x, float) or not math.isfinite(x) or not x < 0:
        return False
    s = fmt % x
    return 'e' in s and '.' not in s


def nanword(s):
    return isinstance(s, str) and s.startswith(_NANWORDS) and s not in _SPECIAL


def same_value(got, exp):
    """Round-trip equality of one scalar."""
    if isinstance(exp, str):
        return isinstance(got, str) and got == exp
    if isinstance(exp, bool) or isinstance(got, (bool, str)):
        return False
    if isinstance(exp, int):
        return isinstance(got, (int, np.integer)) and int(got) == exp
    # float
    if not isinstance(got, (int, float, np.integer, np.floating)):
        return False
    if math.isnan(exp):
        return isinstance(got, (float, np.floating)) and math.isnan(got)
    if math.isinf(exp):
        return float(got) == exp
    try:
        g = float(got)
    except OverflowError:
        return False
    return abs(g - exp) <= 1e-15 * abs(exp)


def same_numeric(got, exp):
    """Array element comparison (the parser returns float or str arrays)."""
    if isinstance(exp, str):
        return str(got) == exp
    try:
        g = float(got)
    except (TypeError, ValueError):
        return False
    e = float(exp)
    if math.isnan(e):
        return math.isnan(g)
    if math.isinf(e):
        return g == e
    return abs(g - e) <= 1e-15 * abs(e)


# ---------------------------------------------------------------------------------------------
# the check
# ---------------------------------------------------------------------------------------------

SHIFTING = ('F11a-signed-exponent-without-dot', 'word-with-inf-nan-prefix-split')


def value_sigs(v, appended=False):
    """Listed root causes that the *reading* of a written value can hit (predicates over the value)."""
    out = []
    if isinstance(v, float):
        if neg_exp_nodot(v, '%r' if appended else '%.16g'):
            out.append('F11a-signed-exponent-without-dot')
        if not math.isfinite(v):
            if appended:
                out.append('append-extras-nonfinite-str')
            if v == -INF:
                out.append('F11c-neg-inf-read-as-pos-inf')
    elif nanword(v):
        out.append('word-with-inf-nan-prefix-split')
    return out


def nonfinite(v):
    return isinstance(v, float) and not math.isfinite(v)


def text_sigs(f):
    out = []
    if f['k'] == 'float' and _SIGNED_MIXED.match(f['t']):
        out.append('F11a-signed-exponent-without-dot')
    if f['k'] == 'special' and f['t'] == '-Inf':
        out.append('F11c-neg-inf-read-as-pos-inf')
    if f['k'] == 'word' and nanword(f['t']):
        out.append('word-with-inf-nan-prefix-split')
    return out


def static_classes(case):
    """Classes computed from the input alone (used for the minimum class fractions, so that a run against a broken
    implementation, where cases end at their first violation, still reports the generator's distribution)."""
    cls = set()
    delims = case['delims']
    cls.add('delims_default' if delims is None else ('delims_space' if delims.isspace() else 'delims_nonspace'))
    nontrivial = False
    for op in case['ops']:
        cls.add('occurrence_negative' if op['occ'] < 0 else 'occurrence_positive')
        if abs(op['occ']) > 1:
            cls.add('occurrence_beyond_first')
        if op['kind'] == 'var':
            vals = [dec(op['value'])]
            cls.add('var_' + type(vals[0]).__name__)
        elif op['kind'] == 'array':
            vals = [dec(x) for x in op['values']]
            r0, r1, f0, f1 = op['row_start'], op['row_end'], op['field_start'], op['field_end']
            slot = (f1 - f0 + 1) if r0 == r1 else \
                (len(case['lines'][r0]['fields']) - f0 + 1) + f1 + sum(len(case['lines'][r]['fields'])
                                                                       for r in range(r0 + 1, r1))
            rel = 'equal' if len(vals) == slot else ('longer' if len(vals) > slot else 'shorter')
            cls.update(['array', 'array_' + rel, 'array_' + op['as']])
            if r1 > r0:
                cls.add('array_multirow')
            if rel != 'equal':
                nontrivial = True
        else:
            vals = [dec(x) for row in op['values'] for x in row]
            cls.add('array2d')
        for v in vals:
            if isinstance(v, float):
                if neg_exp_nodot(v) or neg_exp_nodot(v, '%r'):
                    cls.add('neg_exp_nodot')
                    nontrivial = True
                if not math.isfinite(v):
                    cls.add('nonfinite_value')
                    nontrivial = True
    return cls, nontrivial


def check(case):
    from pyparsing import ParserElement
    tmp = tempfile.mkdtemp(prefix='c29_')
    try:
        return _check(case, tmp)
    finally:
        # FileParser.set_delimiters changes pyparsing's process-wide default whitespace: restore it
        ParserElement.setDefaultWhitespaceChars(' \n\t\r')
        shutil.rmtree(tmp, ignore_errors=True)


def _check(case, tmp):
    from openmdao.utils.file_wrap import InputFileGenerator, FileParser
    res = Result()
    cls, res.nontrivial = static_classes(case)
    if res.nontrivial:
        cls.add('nontrivial')
    delims = case['delims']
    dset = delims if delims is not None else ' '
    lines = case['lines']
    nl = len(lines)
    # model[i][j] = ('t', field) template field or ('v', value) written value
    model = [[('t', f) for f in ln['fields']] for ln in lines]
    ks = [[text_sigs(f) for f in ln['fields']] for ln in lines]      # listed root causes per field (by predicate)
    writer = [[None] * len(ln['fields']) for ln in lines]            # index of the op that wrote the field last
    appended_merge = set()      # lines stretched by transfer_array that are not the last line of the file
    unknown_lines = set()       # lines whose content is unspecified after a (listed) crash of the writer
    cls.add('delims_default' if delims is None else ('delims_space' if delims.isspace() else 'delims_nonspace'))

    tpath = os.path.join(tmp, 'template.txt')
    gpath = os.path.join(tmp, 'generated.txt')
    with open(tpath, 'w') as f:
        f.write(''.join(line_text(ln) + '\n' for ln in lines))

    def anchor_row(anchor, occ):
        rows = []
        for i in range(nl):
            txt = [c[1]['t'] for c in model[i] if c[0] == 't']
            if any(anchor in t for t in txt):
                rows.append(i)
        return rows[occ - 1] if occ > 0 else rows[occ]

    gen = InputFileGenerator()
    gen.set_template_file(tpath)
    gen.set_generated_file(gpath)
    if delims is not None:
        gen.set_delimiters(delims)

    nontrivial = False
    reads = []      # (op, anchor row) for the read-back phase
    merged_after = None
    for opi, op in enumerate(case['ops']):
        arow = anchor_row(op['anchor'], op['occ'])
        cls.add('occurrence_negative' if op['occ'] < 0 else 'occurrence_positive')
        if abs(op['occ']) > 1:
            cls.add('occurrence_beyond_first')
        kind = op['kind']
        try:
            gen.reset_anchor()
            gen.mark_anchor(op['anchor'], op['occ'])
        except Exception as e:
            res.fail('anchor:writer-raises', f"mark_anchor({op['anchor']!r}, {op['occ']}): {type(e).__name__}: {e}")
            res.classes = sorted(cls)
            return res
        if kind == 'var':
            v = dec(op['value'])
            li, fj = op['line'], op['field']
            cls.add('var_' + type(v).__name__)
            if isinstance(v, float) and (neg_exp_nodot(v) or not math.isfinite(v)):
                nontrivial = True
            if nonfinite(v):
                cls.add('nonfinite_value')
            try:
                gen.transfer_var(v, li - arow, fj)
            except Exception as e:
                sig = 'F11b-nonfinite-write-crash' if nonfinite(v) else \
                    (core.repo_frame_signature(e, 'write') or f"write:{type(e).__name__}")
                res.fail(sig, f"transfer_var({v!r}, {li - arow}, {fj}): {type(e).__name__}: {e}")
                if not sig.startswith('F11b'):
                    res.classes = sorted(cls)
                    return res
                continue        # the line is untouched (re.sub raised before the assignment)
            model[li][fj - 1] = ('v', v)
            ks[li][fj - 1] = value_sigs(v)
            writer[li][fj - 1] = opi
            reads.append((dict(op, _i=opi), arow))
        elif kind == 'array':
            vals = [dec(x) for x in op['values']]
            r0, r1, f0, f1 = op['row_start'], op['row_end'], op['field_start'], op['field_end']
            slot = []
            for r in range(r0, r1 + 1):
                a = f0 if r == r0 else 1
                b = f1 if r == r1 else len(model[r])
                slot += [(r, j) for j in range(a, b + 1)]
            rel = 'equal' if len(vals) == len(slot) else ('longer' if len(vals) > len(slot) else 'shorter')
            cls.update(['array', 'array_' + rel, 'array_' + op['as']])
            if r1 > r0:
                cls.add('array_multirow')
            if rel != 'equal':
                nontrivial = True
            if any(isinstance(v, float) and (neg_exp_nodot(v) or not math.isfinite(v)) for v in vals):
                nontrivial = True
            arg = np.array(vals) if op['as'] == 'ndarray' else list(vals)
            if op['as'] == 'ndarray' and arg.dtype.kind == 'f':
                vals = [float(x) for x in arg]          # ints promoted by numpy
            inslot = vals[:len(slot)]
            extras = vals[len(slot):]
            crash_ok = any(nonfinite(v) for v in inslot)
            if any(nonfinite(v) for v in vals):
                cls.add('nonfinite_value')
            kwargs = {'sep': op['sep']}
            if r1 > r0 or op.get('explicit_row_end'):
                kwargs['row_end'] = r1 - arow
            try:
                gen.transfer_array(arg, r0 - arow, f0, f1, **kwargs)
            except ValueError as e:
                if rel == 'shorter' and 'too small' in str(e):
                    cls.add('array_shorter_raises')
                    for r in range(r0, r1 + 1):
                        unknown_lines.add(r)
                    continue
                if crash_ok:
                    res.fail('F11b-nonfinite-write-crash', f"transfer_array({vals!r}): {type(e).__name__}: {e}")
                    for r in range(r0, r1 + 1):
                        unknown_lines.add(r)
                    continue
                res.fail(core.repo_frame_signature(e, 'write') or 'write:ValueError',
                         f"transfer_array({vals!r}, {r0 - arow}, {f0}, {f1}, {kwargs}): {e}")
                res.classes = sorted(cls)
                return res
            except Exception as e:
                if crash_ok:
                    res.fail('F11b-nonfinite-write-crash', f"transfer_array({vals!r}): {type(e).__name__}: {e}")
                    for r in range(r0, r1 + 1):
                        unknown_lines.add(r)
                    continue
                res.fail(core.repo_frame_signature(e, 'write') or f"write:{type(e).__name__}",
                         f"transfer_array({vals!r}, {r0 - arow}, {f0}, {f1}, {kwargs}): {type(e).__name__}: {e}")
                res.classes = sorted(cls)
                return res
            for (r, j), v in zip(slot, inslot):
                model[r][j - 1] = ('v', v)
                ks[r][j - 1] = value_sigs(v)
                writer[r][j - 1] = opi
            for v in extras:
                model[r1].append(('v', v))
                ks[r1].append(value_sigs(v, appended=True))
                writer[r1].append(opi)
            if extras and r1 < nl - 1:
                appended_merge.add(r1)
                if merged_after is None or r1 < merged_after:
                    merged_after = r1
            reads.append((dict(op, _n=len(vals), _vals=[enc(v) for v in vals]), arow))
        elif kind == 'array2d':
            rows = [[dec(x) for x in row] for row in op['values']]
            r0, r1, f0, f1 = op['row_start'], op['row_end'], op['field_start'], op['field_end']
            arr = np.array(rows)
            if arr.dtype.kind == 'f':
                rows = [[float(x) for x in row] for row in arr]
            cls.add('array2d')
            flat = [v for row in rows for v in row]
            if any(isinstance(v, float) and (neg_exp_nodot(v) or not math.isfinite(v)) for v in flat):
                nontrivial = True
            crash_ok = any(nonfinite(v) for v in flat)
            if crash_ok:
                cls.add('nonfinite_value')
            try:
                gen.transfer_2Darray(arr, r0 - arow, r1 - arow, f0, f1)
            except Exception as e:
                if crash_ok:
                    res.fail('F11b-nonfinite-write-crash', f"transfer_2Darray({rows!r}): {type(e).__name__}: {e}")
                    for r in range(r0, r1 + 1):
                        unknown_lines.add(r)
                    continue
                res.fail(core.repo_frame_signature(e, 'write') or f"write:{type(e).__name__}",
                         f"transfer_2Darray({rows!r}, {r0 - arow}, {r1 - arow}, {f0}, {f1}): {type(e).__name__}: {e}")
                res.classes = sorted(cls)
                return res
            for k, r in enumerate(range(r0, r1 + 1)):
                for c, j in enumerate(range(f0, f1 + 1)):
                    model[r][j - 1] = ('v', rows[k][c])
                    ks[r][j - 1] = value_sigs(rows[k][c])
                    writer[r][j - 1] = opi
            reads.append((dict(op, _rows=[[enc(v) for v in row] for row in rows]), arow))

    try:
        gen.generate()
    except Exception as e:
        res.fail(core.repo_frame_signature(e, 'generate') or 'generate:raises', f"{type(e).__name__}: {e}")
        res.classes = sorted(cls)
        return res

    for i in range(nl):
        for c in model[i]:
            if c[0] == 'v' and isinstance(c[1], float) and neg_exp_nodot(c[1]):
                cls.add('neg_exp_nodot')
    if any(x for row in ks for x in row):
        cls.add('has_listed_root_cause_input')

    def sig_at(i, j, default, j_end=None):
        """Signature of a failure observed at line i, fields j..j_end (0-based; None = whole line): a listed root
        cause only if its predicate holds for one of these fields, or for an earlier field of the line whose
        tokenisation shifts the later ones."""
        what = default.split(':')[0]
        n = len(ks[i])
        lo = 0 if j is None else j
        hi = n - 1 if (j is None or j_end is None and j is None) else (j if j_end is None else j_end)
        for jj in range(lo, min(hi, n - 1) + 1):
            if ks[i][jj]:
                return ks[i][jj][0] + ':' + what
        for jj in range(0, min(lo, n)):
            for sg in ks[i][jj]:
                if sg in SHIFTING:
                    return sg + ':' + what
        return default

    # ---- 1. the generated text: everything but the substituted fields is the template ------------------
    with open(gpath) as f:
        gtext = f.read()
    glines = gtext.split('\n')
    if glines and glines[-1] == '':
        glines.pop()
    if len(glines) != nl:
        if merged_after is not None:
            res.fail('array-append-loses-newline', f"{len(glines)} lines generated from a {nl}-line template: "
                     f"{gtext!r}")
            res.classes = sorted(cls)
            return res          # every later row is shifted: nothing else can be judged in this case
        res.fail('text:line-count-changed', f"{len(glines)} lines generated from a {nl}-line template: {gtext!r}")
        res.classes = sorted(cls)
        return res
    for i in range(nl):
        if i in unknown_lines:
            continue
        tl = line_text(lines[i])
        gl = glines[i]
        if all(c[0] == 't' for c in model[i]):
            if gl != tl:
                res.fail('text:untouched-line-changed', f"line {i}: template {tl!r} generated {gl!r}")
            continue
        truns = scan(tl, dset)
        gruns = scan(gl, dset)
        tf = [t for isf, t in truns if isf]
        gf = [t for isf, t in gruns if isf]
        nt = len(lines[i]['fields'])
        if len(gf) != len(model[i]):
            res.fail('text:field-count-changed',
                     f"line {i}: template {tl!r} generated {gl!r}: {len(gf)} fields, expected {len(model[i])}")
            continue
        for j in range(nt):
            if model[i][j][0] == 't' and gf[j] != tf[j]:
                res.fail('text:other-field-changed',
                         f"line {i} field {j + 1}: template {tf[j]!r} generated {gf[j]!r} (line {gl!r})")
        # delimiter runs of the template part are preserved
        td = [t for isf, t in truns if not isf]
        gd = [t for isf, t in gruns if not isf]
        if len(model[i]) == nt and td != gd:
            res.fail('text:delimiters-changed', f"line {i}: template {tl!r} generated {gl!r}")
    if any(sg.startswith('text:') for sg, _ in res.violations):
        res.classes = sorted(cls)
        return res

    # ---- 2. read back through FileParser ------------------------------------------------------------------
    par = FileParser()
    par.set_file(gpath)
    if delims is not None:
        par.set_delimiters(delims)

    def rd(fn, what, i, j=None, j_end=None):
        try:
            return True, fn()
        except Exception as e:
            sig = sig_at(i, j, 'read:raises', j_end)
            res.fail(sig, f"{what}: {type(e).__name__}: {e}; line {glines[i]!r}")
            return False, None

    for op, arow in reads:
        li = op['line'] if op['kind'] == 'var' else op['row_start']
        if any(r in unknown_lines for r in ([li] if op['kind'] == 'var' else range(op['row_start'], op['row_end'] + 1))):
            continue
        ok, _ = rd(lambda: (par.reset_anchor(), par.mark_anchor(op['anchor'], op['occ'])), 'mark_anchor', li)
        if not ok:
            continue
        if op['kind'] == 'var':
            v = dec(op['value'])
            if writer[li][op['field'] - 1] != op['_i']:
                continue        # overwritten by a later substitution
            ok, got = rd(lambda: par.transfer_var(li - arow, op['field']), f"transfer_var({li - arow}, {op['field']})",
                         li, op['field'] - 1)
            if ok and not same_value(got, v):
                res.fail(sig_at(li, op['field'] - 1, 'readback:var-differs'),
                         f"wrote {v!r} at anchor {op['anchor']!r}/{op['occ']} row {li - arow} field {op['field']}, "
                         f"read {got!r}; line {glines[li]!r}")
            if ok and isinstance(v, float) and isinstance(got, int):
                cls.add('float_read_as_int')
        elif op['kind'] == 'array':
            r0, r1, f0, f1 = op['row_start'], op['row_end'], op['field_start'], op['field_end']
            # current model of the slot (a later substitution may have overwritten parts of it)
            exp = []
            for r in range(r0, r1 + 1):
                a = f0 if r == r0 else 1
                b = len(model[r]) if (r != r1 or len(model[r]) > len(lines[r]['fields'])) else f1
                exp += [model[r][j - 1] for j in range(a, b + 1)]
            fend = f1 if len(model[r1]) == len(lines[r1]['fields']) else len(model[r1])
            expv = [c[1] if c[0] == 'v' else field_value(c[1]) for c in exp]
            def arr_sig(default):
                for r in range(r0, r1 + 1):
                    sg = sig_at(r, (f0 - 1) if r == r0 else 0, default, (fend - 1) if r == r1 else len(ks[r]) - 1)
                    if sg != default:
                        return sg
                return default
            try:
                got = par.transfer_array(r0 - arow, f0, r1 - arow, fend)
                ok = True
            except Exception as e:
                ok = False
                res.fail(arr_sig('read:raises'), f"transfer_array({r0 - arow}, {f0}, {r1 - arow}, {fend}): "
                         f"{type(e).__name__}: {e}; lines {glines[r0:r1 + 1]!r}")
            if ok:
                gkind = np.asarray(got).dtype.kind
                got = list(np.asarray(got).ravel())
                allnum = all(not isinstance(v, str) for v in expv)
                # numbers must come back as numbers (a str array means some token was not recognised)
                good = len(got) == len(expv) and not (allnum and gkind in 'US') and all(
                    same_numeric(g, e) if (allnum or isinstance(e, str)) else
                    (same_numeric(float(g), e) if _is_floatable(g) else False)
                    for g, e in zip(got, expv))
                if not good:
                    res.fail(arr_sig('readback:array-differs'), f"wrote {expv!r} rows {r0 - arow}..{r1 - arow} fields {f0}..{fend}, read {got!r}; "
                             f"lines {glines[r0:r1 + 1]!r}")
        else:
            r0, r1, f0, f1 = op['row_start'], op['row_end'], op['field_start'], op['field_end']
            exp = [[model[r][j - 1] for j in range(f0, f1 + 1)] for r in range(r0, r1 + 1)]
            expv = [[c[1] if c[0] == 'v' else field_value(c[1]) for c in row] for row in exp]
            if any(isinstance(v, str) for row in expv for v in row):
                continue
            def arr2_sig(default):
                for r in range(r0, r1 + 1):
                    sg = sig_at(r, f0 - 1, default, f1 - 1)
                    if sg != default:
                        return sg
                return default
            try:
                got = par.transfer_2Darray(r0 - arow, f0, r1 - arow, f1)
                ok = True
            except Exception as e:
                ok = False
                res.fail(arr2_sig('read:raises'), f"transfer_2Darray({r0 - arow}, {f0}, {r1 - arow}, {f1}): "
                         f"{type(e).__name__}: {e}; lines {glines[r0:r1 + 1]!r}")
            if ok:
                got = np.asarray(got)
                good = got.shape == (len(expv), len(expv[0])) and all(
                    same_numeric(got[a, b], expv[a][b]) for a in range(len(expv)) for b in range(len(expv[0])))
                if not good:
                    res.fail(arr2_sig('readback:array2d-differs'), f"wrote {expv!r}, read {got.tolist()!r}; lines {glines[r0:r1 + 1]!r}")

    # ---- 3. every line of the file tokenises to the model (one parse per line: transfer_array over the whole
    #         line; it returns float / str arrays, so values are compared numerically here and type-exactly in 2.)
    par.reset_anchor()
    for i in range(nl):
        if i in unknown_lines:
            continue
        n = len(model[i])
        ok, got = rd(lambda: par.transfer_array(i, 1, i, n + 3), f"transfer_array({i}, 1, {i}, {n + 3})", i)
        if not ok:
            continue
        got = list(np.asarray(got).ravel())
        expv = [c[1] if c[0] == 'v' else field_value(c[1]) for c in model[i]]
        for j in range(min(n, len(got))):
            if not same_numeric(got[j], expv[j]):
                res.fail(sig_at(i, j, 'readback:field-differs'),
                         f"line {i} field {j + 1}: expected {expv[j]!r}, read {got[j]!r}; line {glines[i]!r}")
                break
        else:
            if len(got) != n:
                res.fail(sig_at(i, None, 'readback:token-count'),
                         f"line {i}: {len(got)} tokens {got!r}, expected {n}; line {glines[i]!r}")
    res.classes = sorted(cls)
    return res


KNOWN_PREFIXES = ('F11a-signed-exponent-without-dot', 'F11b-nonfinite-write-crash', 'F11c-neg-inf-read-as-pos-inf',
                  'append-extras-nonfinite-str', 'array-append-loses-newline', 'word-with-inf-nan-prefix-split')


def _is_floatable(g):
    try:
        float(g)
        return True
    except (TypeError, ValueError):
        return False


# ---------------------------------------------------------------------------------------------
# generator: cases decoded from a Hypothesis-drawn byte string
# ---------------------------------------------------------------------------------------------

class _Src(object):
    __slots__ = ('b', 'i')

    def __init__(self, b):
        self.b = b
        self.i = 0

    def byte(self):
        i = self.i
        self.i = i + 1
        return self.b[i] if i < len(self.b) else 0

    def take(self, n):
        return bytes(self.byte() for _ in range(n))


NBYTES = 700
ANCHORS = ['INPUT', 'CASE', 'LOAD', 'TABLE']
WORDS = ['A', 'B', 'STRESS', 'NODE', 'XX', 'DISPLACEMENT', 'Hz', 'FREQ', 'K_1', 'END']
STRS = ['abc', 'x', 'val_2', 'flag', 'q7', 'Lower_Case', 'e5', 'd0', 'inf_', 'T']
NANSTRS = ['Info', 'nanometer', 'Infinity', 'nano', 'NaNs']
DELIMS = [None, None, ' ', ' \t', ' \t', ', ', ',', '= ', ';', ' ,=']
SPECIAL_FLOATS = [0.0, -0.0, 5e-324, -5e-324, 2.2250738585072014e-308, 1.7976931348623157e308,
                  -1.7976931348623157e308, 2.220446049250313e-16, 1e-4, 9.999999999999999e-05, -9.999999999999999e-05,
                  -1e-4, 1e16, 9007199254740993.0, -9007199254740992.0, 1.0000000000000002, 0.1 + 0.2, 1.0 / 3.0,
                  -2.0 / 3.0, 123456.789012345678, 1e15 + 0.3, 1e-5, -1e-5, 1e22, 1e23, -1e300]


def strategy():
    from hypothesis import strategies as st
    return st.binary(min_size=NBYTES, max_size=NBYTES).map(lambda b: build_case(_Src(b)))


def build_case(src):
    def pick(seq):
        return seq[src.byte() % len(seq)]

    def rng(a, b):
        return a + src.byte() % (b - a + 1)

    def chance(p):
        return src.byte() < int(p * 256)

    def draw_float(nonfinite=0.05):
        c = src.byte() % 100
        if c < 100 * nonfinite:
            return pick([INF, -INF, float('nan')])
        if c < 28:
            x = struct.unpack('<d', src.take(8))[0]
            if not math.isfinite(x):
                if nonfinite == 0.0:
                    return 1.5
                return float('nan') if math.isnan(x) else x
            return x
        if c < 50:
            return rng(-128, 127) * 8 + rng(0, 255) / (10.0 ** rng(0, 6))
        if c < 60:
            d = rng(1, 9) * (-1 if chance(0.5) else 1)
            k = pick([5, 6, 7, 8, 10, 12, 15, 20, 30, 100, 300, 310, 320])
            return float(f"{d}e-{k}")
        if c < 78:
            return float(rng(-99, 99) * 10 ** rng(0, 20))
        if c < 90:
            return pick(SPECIAL_FLOATS)
        return (rng(-100, 100) + rng(0, 255) / 256.0) * 10.0 ** rng(-12, 12)

    def draw_int():
        c = src.byte() % 10
        if c < 6:
            return rng(-20, 120)
        if c < 8:
            return rng(-99, 99) * 10 ** rng(2, 12)
        return pick([0, -1, 2 ** 31, -2 ** 63, 10 ** 30, 123456789012345678901234567890, 9007199254740993])

    def float_text(x):
        """Template spelling of a finite float (formats the docs/grammar name as supported)."""
        c = src.byte() % 20
        if x == int(x) and abs(x) < 1e15:
            if c < 6:
                return '%.1f' % x
            if c < 9:
                return '%d.' % x
            if c < 12:
                return ('%.4E' % x)
            if c < 14:
                return ('%.4E' % x).replace('E', 'D')
            if c < 16 and x > 0:
                return '%de%d' % (int(str(int(x)).rstrip('0') or '0'), len(str(int(x))) - len(str(int(x)).rstrip('0'))) \
                    if x != 0 else '0.0'
            if c < 17:
                return ('%.3e' % x).replace('e', 'd')
            return '%.1f' % x
        s = '%.16g' % x
        if c < 8:
            return s if ('.' in s or 'e' in s or 'n' in s) else s + '.0'
        if c < 12:
            return '%.6E' % x
        if c < 15:
            return ('%.8E' % x).replace('E', 'D')
        if c < 17 and 0 < abs(x) < 1 and 'e' not in s:
            return s.replace('0.', '.', 1)
        return s if ('.' in s or 'e' in s) else s + '.0'

    def tmpl_field(allow_special=True):
        c = src.byte() % 100
        if c < 22:
            return {'k': 'word', 't': pick(WORDS)}
        if c < 45:
            return {'k': 'int', 't': str(draw_int())}
        if c < 48 and allow_special and chance(0.6):
            return {'k': 'special', 't': pick(['Inf', 'NaN', 'nan', 'Inf', 'NaN', 'nan', 'Inf', '-Inf'])}
        if c < 50 and chance(0.25):
            return {'k': 'float', 't': pick(['-3e5', '+3e5', '-1e-05', '-2D3', '+7E-2'])}
        if c < 51 and chance(0.3):
            return {'k': 'word', 't': pick(NANSTRS)}
        x = draw_float(nonfinite=0.0)
        t = float_text(x)
        if _SIGNED_MIXED.match(t) and not chance(0.3):
            t = '%.6E' % x
        return {'k': 'float', 't': t}

    delims = pick(DELIMS)
    dchars = delims if delims is not None else ' '

    def run(lo, hi):
        n = rng(lo, hi)
        return ''.join(pick(dchars) for _ in range(n))

    nlines = rng(2, 7)
    lines = []
    used_anchors = []
    for i in range(nlines):
        header = (i == 0) or chance(0.3)
        fields = []
        if header:
            a = pick(ANCHORS[:2]) if chance(0.7) else pick(ANCHORS)
            used_anchors.append(a)
            fields.append({'k': 'word', 't': a if chance(0.8) else a + 'S'})
            for _ in range(rng(0, 2)):
                fields.append(tmpl_field())
            if chance(0.15):
                fields.insert(0, tmpl_field())      # anchor in mid-line
        else:
            nf = rng(1, 6)
            if chance(0.35):
                fields.append({'k': 'word', 't': pick(WORDS)})
            while len(fields) < nf:
                fields.append(tmpl_field())
        ln = {'lead': run(0, 2) if chance(0.3) else '', 'fields': fields,
              'seps': [run(1, 3) if chance(0.4) else pick(dchars) for _ in range(len(fields) - 1)],
              'trail': run(0, 2) if chance(0.2) else ''}
        lines.append(ln)

    def is_anchor_field(f):
        return f['k'] == 'word' and any(a in f['t'] for a in ANCHORS)

    def anchor_for(target_line):
        """(anchor, occurrence) of some anchor line, as a caller would address it."""
        a = pick(sorted(set(used_anchors)))
        rows = [i for i, ln in enumerate(lines) if any(a in f['t'] for f in ln['fields'] if f['k'] == 'word')]
        k = src.byte() % len(rows)
        if chance(0.4):
            return a, k - len(rows), rows[k]
        return a, k + 1, rows[k]

    def draw_value():
        c = src.byte() % 100
        if c < 62:
            return draw_float()
        if c < 80:
            return draw_int()
        if c < 96:
            return pick(STRS)
        return pick(NANSTRS)

    def free_fields(i):
        return [j + 1 for j, f in enumerate(lines[i]['fields']) if not is_anchor_field(f)]

    ops = []
    nops = pick([1, 1, 1, 2, 2, 3])
    for _ in range(nops):
        kind = pick(['var', 'var', 'var', 'array', 'array', 'array2d'])
        cand = [i for i in range(nlines) if free_fields(i)]
        if not cand:
            break
        if kind == 'var':
            li = pick(cand)
            fj = pick(free_fields(li))
            a, occ, arow = anchor_for(li)
            ops.append({'kind': 'var', 'anchor': a, 'occ': occ, 'line': li, 'field': fj, 'value': enc(draw_value())})
        elif kind == 'array':
            li = pick(cand)
            ff = free_fields(li)
            # a contiguous run of free fields
            f0 = pick(ff)
            f1 = f0
            nf = len(lines[li]['fields'])
            while f1 + 1 in ff and chance(0.75):
                f1 += 1
            r1 = li
            # multi-row: the slot runs to the end of this line and continues on the next lines
            if li + 1 < nlines and chance(0.3) and all(j in ff for j in range(f0, nf + 1)) \
                    and len(free_fields(li + 1)) == len(lines[li + 1]['fields']):
                r1 = li + 1
                f1 = rng(1, len(lines[r1]['fields']))
            slot = (f1 - f0 + 1) if r1 == li else (nf - f0 + 1) + f1
            rel = pick(['equal'] * 6 + ['longer'] * 3 + ['shorter'])
            if rel == 'longer' and f1 != len(lines[r1]['fields']):
                f1 = len(lines[r1]['fields'])
                if r1 == li and not all(j in ff for j in range(f0, f1 + 1)):
                    rel = 'equal'
                    f1 = f0
                slot = (f1 - f0 + 1) if r1 == li else (nf - f0 + 1) + f1
            if rel == 'longer' and r1 < nlines - 1 and chance(0.7):
                # mostly stretch the last line of the file (see findings: stretching another line merges lines)
                pass
            n = slot if rel == 'equal' else (slot + rng(1, 3) if rel == 'longer' else max(0, slot - rng(1, 2)))
            ek = pick(['float', 'float', 'int', 'mixed', 'str'])
            vals = []
            for _ in range(n):
                if ek == 'float':
                    vals.append(draw_float(nonfinite=0.04))
                elif ek == 'int':
                    vals.append(rng(-50, 120) * pick([1, 1, 1000, 10 ** 9]))
                elif ek == 'mixed':
                    vals.append(draw_float(nonfinite=0.0) if chance(0.5) else rng(-50, 120))
                else:
                    vals.append(pick(STRS))
            a, occ, arow = anchor_for(li)
            sep = pick(dchars) if chance(0.6) else (pick(dchars) + pick(dchars))
            ops.append({'kind': 'array', 'anchor': a, 'occ': occ, 'row_start': li, 'row_end': r1, 'field_start': f0,
                        'field_end': f1, 'values': [enc(v) for v in vals], 'as': pick(['list', 'ndarray', 'ndarray']),
                        'sep': sep, 'explicit_row_end': chance(0.3)})
        else:
            # 2-D: consecutive lines, same field window, all free
            li = pick(cand)
            ff = free_fields(li)
            f0 = pick(ff)
            f1 = f0
            while f1 + 1 in ff and chance(0.8):
                f1 += 1
            r1 = li
            while r1 + 1 < nlines and chance(0.7) and all(j in free_fields(r1 + 1) for j in range(f0, f1 + 1)):
                r1 += 1
            ek = pick(['float', 'float', 'int'])
            rows = []
            for _ in range(r1 - li + 1):
                rows.append([enc(draw_float(nonfinite=0.03) if ek == 'float' else rng(-50, 120))
                             for _ in range(f1 - f0 + 1)])
            a, occ, arow = anchor_for(li)
            ops.append({'kind': 'array2d', 'anchor': a, 'occ': occ, 'row_start': li, 'row_end': r1,
                        'field_start': f0, 'field_end': f1, 'values': rows})
    return {'delims': delims, 'lines': lines, 'ops': ops}


# ---------------------------------------------------------------------------------------------
# work units
# ---------------------------------------------------------------------------------------------

def units(tier, seed):
    per = 2000 if tier == 'quick' else 30000
    return [{'kind': 'random', 'n': per, 'seed': core.shard_seed(seed, ID, i)} for i in range(16)]


def run_unit(unit, ctx):
    core.run_hypothesis(ctx, strategy(), check, unit['n'], unit['seed'], shrink=unit.get('tier') == 'thorough')
