"""C32  Feed-forward models are fully solved by one ordered pass.

Oracle : reference residual of the spec evaluated at OpenMDAO's outputs after ONE run_model (must vanish), an execution
         trace from spy components (every component runs after all of its data predecessors), and the declared
         (insertion) order for members of a cycle and for groups without auto_order.
"""
import copy

import numpy as np

from vfw import core
from vfw.core import Result

ID = 'C32'
LEVEL = 'exploration'
TECHNIQUE = 'Hypothesis-generated DAG models with subsystems added in a drawn permutation; reference residual + execution-trace validity predicate'
RULE = ("case = acyclic model spec (2-6 tanh-affine explicit components + IndepVarComps, src_indices, units) cut into "
        "contiguous nested groups, optionally with a feedback loop among direct children of one group (that group gets "
        "NonlinearBlockGS), with all subsystems ADDED IN A DRAWN PERMUTATION and auto_order drawn per group, and a drawn history: plain setup, a second setup() of the same Problem (before or after a run), or an explicit set_order(declared order) before setup. Judged: with "
        "auto_order on every group and run-once solvers, one run_model leaves zero residuals and every component executed after "
        "its predecessors; members of a cycle keep their insertion order; groups without auto_order keep insertion order. "
        "Non-trivial = the insertion order violates >=2 data dependencies. Distinct = distinct canonical JSON.")
ASSUMPTIONS = [
    "'acyclic' means acyclic in every group's subsystem graph (groups are contiguous segments of a topological order), "
    "because auto_order documents that it never breaks or reorders cycles",
    "residual tolerance 1e-12 * (1 + |values|) for pure run-once models, 1e-9 when a NonlinearBlockGS loop is present",
]
MIN_CLASS_FRACTION = {'ran': 0.7}


def repath(spec, paths, order, auto):
    """Give component i the path paths[i], rename connections, and list components in the given order."""
    s = copy.deepcopy(spec)
    ren = {}
    for c, pth in zip(s['comps'], paths):
        old = '.'.join(c['path'] + [c['name']])
        c['path'] = list(pth)
        ren[old] = '.'.join(c['path'] + [c['name']])
    for cn in s['conns']:
        for k in ('src', 'tgt'):
            comp, _, var = cn[k].rpartition('.')
            cn[k] = ren[comp] + '.' + var
    s['comps'] = [s['comps'][i] for i in order]
    keys = set()
    for c in s['comps']:
        for d in range(len(c['path']) + 1):
            keys.add('.'.join(c['path'][:d]))
    s['groups'] = {k: {'auto_order': bool(auto.get(k, True))} for k in sorted(keys)}
    return s


def children_graph(spec, key):
    depth = len(key.split('.')) if key else 0
    prefix = key.split('.') if key else []
    order = []
    for c in spec['comps']:
        if c['path'][:depth] == prefix:
            child = c['path'][depth] if len(c['path']) > depth else c['name']
            if child not in order:
                order.append(child)

    def child_of(absn):
        parts = absn.split('.')
        if parts[:depth] != prefix or len(parts) <= depth + 1:
            return None
        return parts[depth]
    edges = set()
    for cn in spec['conns']:
        a, b = child_of(cn['src']), child_of(cn['tgt'])
        if a is not None and b is not None and a != b:
            edges.add((a, b))
    return order, edges


def sccs(nodes, edges):
    import networkx as nx
    G = nx.DiGraph()
    G.add_nodes_from(nodes)
    G.add_edges_from(edges)
    return [set(c) for c in nx.strongly_connected_components(G)]


def check(case):
    import openmdao.api as om
    from vfw.gen_model import build_problem
    from vfw.refmodel import RefModel
    spec = case['spec']
    res = Result()
    ref = RefModel(spec)
    all_auto = all(g.get('auto_order') for g in spec['groups'].values())
    cyc_group = case.get('cyc_group')
    cls = ['all_auto' if all_auto else 'some_manual'] + (['has_cycle'] if cyc_group is not None else [])
    # how many dependencies does the insertion order violate?
    nviol = 0
    for key in spec['groups']:
        order, edges = children_graph(spec, key)
        nviol += sum(1 for a, b in edges if order.index(a) > order.index(b))
    trace_log = []

    live = []

    def trace(cname, comp, inputs):
        live.append(cname)

    try:
        p, groups = build_problem(spec, trace=trace, setup=False)
        for key in case.get('pre_set_order', []):
            # an explicit set_order() with the declared (insertion) order before setup: legal and a no-op for the order
            order, _ = children_graph(spec, key)
            if key in groups and len(order) > 1:
                groups[key].set_order(order)
        p.setup()
        if case.get('resetup'):
            # a second setup() of the same Problem (with or without a run in between) must order again
            p.final_setup()
            if case['resetup'] == 'after_run':
                p.run_model()
            p.setup()
        p.final_setup()
        del live[:]
        p.run_model()
        trace_log = list(live)    # freeze: later residual evaluations also call compute
    except om.AnalysisError:
        res.discard = 'nonconverged'
        res.classes = cls
        return res
    except Exception as e:
        sig = core.repo_frame_signature(e, 'setup-or-run')
        if sig is None:
            raise
        res.fail(sig, f"{type(e).__name__}: {e}")
        res.classes = cls
        return res

    # structural clauses -------------------------------------------------------------------------------------------------
    for key, g in groups.items():
        final = [n for n in g._subsystems_allprocs if n != '_auto_ivc']
        order, edges = children_graph(spec, key)
        comps_ = sccs(order, edges)
        if not spec['groups'][key].get('auto_order'):
            if final != order:
                res.fail('order:manual-group-reordered', f"group {key!r}: declared {order} final {final}")
            continue
        for a, b in edges:
            same = any(a in c and b in c for c in comps_)
            if not same and final.index(a) > final.index(b):
                res.fail('order:dependency-violated', f"group {key!r}: {a} -> {b} but final order {final}")
        for c in comps_:
            if len(c) > 1:
                decl = [n for n in order if n in c]
                fin = [n for n in final if n in c]
                if decl != fin:
                    res.fail('order:cycle-members-reordered', f"group {key!r}: declared {decl} final {fin}")
    # numerical clause ----------------------------------------------------------------------------------------------------
    if all_auto:
        u = np.zeros(ref.nu)
        for n, m in ref.uvars.items():
            u[m['off']:m['off'] + m['size']] = np.asarray(p.get_val(n)).ravel()
        if np.all(np.isfinite(u)):
            R = ref.residual(u, ref.x0)
            tol = (1e-9 if cyc_group is not None else 1e-12) * (1.0 + np.max(np.abs(u)) if u.size else 1.0)
            if R.size and float(np.max(np.abs(R))) > tol:
                res.fail('residual:not-zero-after-one-run', f"max|R|={float(np.max(np.abs(R))):.3e} tol={tol:.1e}")
            p.model.run_apply_nonlinear()
            rom = p.model._residuals.asarray()
            if rom.size and float(np.max(np.abs(rom))) > tol:
                res.fail('residual:openmdao-residual-not-zero', f"max|R|={float(np.max(np.abs(rom))):.3e}")
        if cyc_group is None:
            # every explicit component executed exactly once, after all its predecessors
            first = {}
            for i, n in enumerate(trace_log):
                first.setdefault(n, i)
            last = {n: i for i, n in enumerate(trace_log)}
            for cn in spec['conns']:
                a = cn['src'].split('.')[-2]
                b = cn['tgt'].split('.')[-2]
                if a in last and b in first and a != b and last[a] > first[b]:
                    res.fail('trace:component-ran-before-predecessor', f"{a} -> {b}; trace {trace_log}")
    res.nontrivial = nviol >= 2
    res.classes = cls + ['ran'] + (['misordered>=2'] if nviol >= 2 else []) + \
        (['resetup'] if case.get('resetup') else []) + (['pre_set_order'] if case.get('pre_set_order') else [])
    return res


def strategy(tier):
    from hypothesis import strategies as st
    from vfw.gen_spec import model_spec, profile

    @st.composite
    def case(draw):
        base = draw(model_spec(profile(groups=False, allow_cycles=False, p_imp=0.0, styles=['dense'], assembled=False,
                                       max_comps=6, min_comps=2, wild_units=False)))
        n = len(base['comps'])
        # contiguous nested segments of the topological order
        paths = []
        cur = []
        for i in range(n):
            move = draw(st.sampled_from(['stay', 'stay', 'down', 'up', 'side']))
            if move == 'down' and len(cur) < 2:
                cur = cur + [f"g{i}"]
            elif move == 'up' and cur:
                cur = cur[:-1]
            elif move == 'side' and cur:
                cur = cur[:-1] + [f"h{i}"]
            paths.append(list(cur))
        # a path that was left must not be re-entered (contiguity): rename on re-entry is guaranteed by unique names
        order = draw(st.permutations(list(range(n))))
        keys = set()
        for pth in paths:
            for d in range(len(pth) + 1):
                keys.add('.'.join(pth[:d]))
        manual = draw(st.booleans()) and draw(st.booleans())
        auto = {k: (not manual) or draw(st.booleans()) for k in sorted(keys)}
        spec = repath(base, paths, list(order), auto)
        cyc_group = None
        if draw(st.integers(0, 3)) == 0:
            # feedback among direct children (components) of one group
            by_parent = {}
            for c in spec['comps']:
                if c['kind'] != 'ivc':
                    by_parent.setdefault('.'.join(c['path']), []).append(c)
            cands = [k for k, v in by_parent.items() if len(v) >= 2]
            if cands:
                k = draw(st.sampled_from(sorted(cands)))
                cs = by_parent[k]
                # find a connected pair a -> b among them and feed b back into a through a new scalar-gain input
                names = {'.'.join(c['path'] + [c['name']]): c for c in cs}
                pairs = [(cn['src'], cn['tgt']) for cn in spec['conns']
                         if cn['src'].rpartition('.')[0] in names and cn['tgt'].rpartition('.')[0] in names]
                if pairs:
                    src, tgt = draw(st.sampled_from(sorted(pairs)))
                    a = names[src.rpartition('.')[0]]
                    b = names[tgt.rpartition('.')[0]]
                    bv = b['outputs'][0]
                    nin_old = sum(int(np.prod(v['shape'])) for v in a['inputs'])
                    nout = sum(int(np.prod(v['shape'])) for v in a['outputs'])
                    add = int(np.prod(bv['shape']))
                    a['inputs'].append({'name': 'fb', 'shape': list(bv['shape']), 'units': bv.get('units')})
                    A = np.array(a['A']).reshape(nout, nin_old)
                    Bm = np.array(a['B']).reshape(nout, nin_old)
                    a['A'] = np.hstack([A, np.ones((nout, add), dtype=int)]).ravel().tolist()
                    a['B'] = np.hstack([Bm, np.zeros((nout, add), dtype=int)]).ravel().tolist()
                    for c in cs:
                        c['g'] = 0.05
                    spec['conns'].append({'src': '.'.join(b['path'] + [b['name'], bv['name']]),
                                          'tgt': '.'.join(a['path'] + [a['name'], 'fb']), 'idx': None, 'flat': None})
                    spec['groups'][k].update({'nl': 'nlbgs', 'ln': 'direct'})
                    spec['feedback'] = True
                    cyc_group = k
        out = {'spec': spec, 'cyc_group': cyc_group}
        hist = draw(st.sampled_from(['plain', 'plain', 'resetup', 'resetup_after_run', 'pre_set_order']))
        if hist == 'resetup':
            out['resetup'] = 'plain'
        elif hist == 'resetup_after_run':
            out['resetup'] = 'after_run'
        elif hist == 'pre_set_order':
            out['pre_set_order'] = [k for k in sorted(spec['groups']) if draw(st.booleans())]
        return out
    return case()


def units(tier, seed):
    n = 16 if tier == 'quick' else 32
    per = 120 if tier == 'quick' else 1500
    return [{'kind': 'random', 'n': per, 'seed': core.shard_seed(seed, ID, i)} for i in range(n)]


def run_unit(unit, ctx):
    core.run_hypothesis(ctx, strategy(unit.get('tier')), check, unit['n'], unit['seed'], shrink=unit.get('tier') == 'thorough')
