"""C20  Driver scaling is an exact, invertible affine map applied consistently.

Domain : (a) direct calls of determine_adder_scaler over drawn (ref0, ref, adder, scaler);
         (b) affine two-output models  f = C [x;z] + d , y = A [x;z] + b  with design variables x (and z),
             an objective on f[index] and 1-2 constraints on (index subsets of) y, every one carrying
             scaler/adder or ref/ref0 (scalar / array, negative where drawn), declared units, indices and
             bounds (None, scalar, array, +-inf, +-1e30);
         (c) small strictly convex QPs whose optimum and multipliers are known by construction.
Oracle : reference affine map written from the documented definitions with NumPy:
             driver value = ((model value + unit_offset) * unit_factor + adder) * scaler,
             ref/ref0  =>  adder = -ref0 , scaler = 1/(ref - ref0)
         values, bounds (+-INF_BOUND sentinels preserved), set/unscale round trips and total-Jacobian blocks
         ( model block * resp factor / dv factor ) are compared with that image; Lagrange multipliers are compared
         with the multipliers the QP was constructed from (model units), under random scalings.
"""
import math

import numpy as np

from vfw import core
from vfw.core import Result

ID = 'C20'
LEVEL = 'exploration'
TECHNIQUE = 'Hypothesis-generated affine optimisation models / constructed QPs against a NumPy reference affine map'
RULE = ("case kinds: 'das' (arguments of determine_adder_scaler), 'model' (affine model + design vars / objective / "
        "constraints with scaling, units, indices, bounds, target driver-space values, Jacobian format), 'mult' (convex "
        "QP built from a chosen optimum, active set and multipliers + scalings). Non-trivial = (model) some variable "
        "has an array scaler/adder/ref/ref0, a negative scaler, units together with scaling, or an infinite bound "
        "element; (das) ref or ref0 given; (mult) a scaler != 1 on an active variable. Distinct = distinct canonical "
        "JSON of the case.")
ASSUMPTIONS = [
    "documented map (add_objective notes, 'How the optimizer sees scaled variables'): y_opt = scaler*(unit_scaler*(y+unit_adder)+adder), "
    "bounds are declared in the declared units; ref/ref0 => adder=-ref0, scaler=1/(ref-ref0)",
    "unit conversion reference is a hard-coded (factor, offset) table (m->cm, m->km, s->min, kg->g, degC->degF); tolerances "
    "cover the round-off of that table (1e-13 relative on Jacobian entries, 64 eps on values)",
    "scaled bounds are the elementwise image with |bound| >= 1e30 kept as the +-1e30 sentinel; for a NEGATIVE scaler on a "
    "variable with a finite bound the scaled bounds are logged but not judged (DESIGN section 8 item 4: no ordering rule is stated)",
    "ref != ref0 elementwise (the documented map is undefined otherwise); |values| <= 1e3, scalers in [1e-3, 1e3]",
    "design values are set the way ScipyOptimizeDriver._objfunc does it: driver._vectors['design_var'].set_data(x, driver_scaling=True); "
    "driver._set_design_vars(driver_scaling=True)",
    "totals are requested through Problem.compute_totals(of, wrt, driver_scaling=True, return_format=...) with explicit of/wrt so the "
    "row/column order of the 'array' format is determined by the input",
    "multipliers: compute_lagrange_multipliers is called at the exact optimum of the constructed QP (its documented precondition is a "
    "converged state); the active set has full row rank by construction, cases whose driver-scaled active Jacobian has condition "
    "number > 1e6 are discarded; no units and no negative scalers in this tier (sign / unit conventions of multipliers are not documented)",
    "the 'symbolic proof' mentioned in the property's quantifier is outside this family and is not attempted",
]
BOUND = {'quick': '16 shards x (330 model + 120 das + 100 mult) generated cases',
         'thorough': '16 shards x (8000 model + 2000 das + 2000 mult) generated cases'}
MIN_CLASS_FRACTION = {'kind_model': 0.4, 'kind_das': 0.1, 'kind_mult': 0.1, 'array_scaling': 0.15, 'units_and_scaling': 0.1,
                      'inf_bound_element': 0.1, 'negative_scaler': 0.03, 'indices': 0.1, 'mult_active_ineq': 0.03,
                      'mult_active_dv_bound': 0.03, 'mult_equality': 0.03}

INF_BOUND = 1.0e30
EPS = float(np.finfo(float).eps)
# value_in_target = (value_in_source + offset) * factor
UNITS = [
    ('m', 'cm', 100.0, 0.0),
    ('m', 'km', 1.0e-3, 0.0),
    ('s', 'min', 1.0 / 60.0, 0.0),
    ('kg', 'g', 1000.0, 0.0),
    ('degC', 'degF', 1.8, 160.0 / 9.0),
]


# ---------------------------------------------------------------------------------------------
# decoding helpers and the reference affine map
# ---------------------------------------------------------------------------------------------

def _num(v):
    if v == 'inf':
        return math.inf
    if v == '-inf':
        return -math.inf
    return float(v)


def dec(v):
    """JSON value -> what the user passes (None, float or ndarray); 'inf' strings become infinities."""
    if v is None:
        return None
    if isinstance(v, list):
        return np.array([_num(e) for e in v], dtype=float)
    return _num(v)


def _full(v, m, default):
    if v is None:
        return np.full(m, float(default))
    a = np.asarray(dec(v) if not isinstance(v, np.ndarray) else v, dtype=float)
    if a.ndim == 0:
        return np.full(m, float(a))
    assert a.size == m, (a, m)
    return a.astype(float).ravel()


def ref_adder_scaler(sc, m):
    """Reference (adder, scaler) arrays of length m from a scaling spec {scaler, adder, ref, ref0}."""
    if sc.get('ref') is not None or sc.get('ref0') is not None:
        ref = _full(sc.get('ref'), m, 1.0)
        ref0 = _full(sc.get('ref0'), m, 0.0)
        return -ref0, 1.0 / (ref - ref0)
    return _full(sc.get('adder'), m, 0.0), _full(sc.get('scaler'), m, 1.0)


def unit_fo(uidx, declared):
    """(factor, offset) of the declared unit conversion, identity when the variable of interest declares no units."""
    if uidx is None or not declared:
        return 1.0, 0.0
    return UNITS[uidx][2], UNITS[uidx][3]


class Voi(object):
    """Reference description of one design variable / objective / constraint."""

    def __init__(self, name, src_vals, positions, uidx, spec):
        self.name = name
        self.pos = np.asarray(positions, dtype=int)       # positions in the source variable
        self.m = self.pos.size
        self.f, self.off = unit_fo(uidx, spec.get('units'))
        self.adder, self.scaler = ref_adder_scaler(spec.get('scaling', {}), self.m)
        self.src = np.asarray(src_vals, dtype=float)
        self.spec = spec

    def conv(self, src=None):
        v = (self.src if src is None else np.asarray(src, dtype=float))[self.pos]
        return (v + self.off) * self.f

    def conv_tol(self, src=None):
        v = (self.src if src is None else np.asarray(src, dtype=float))[self.pos]
        if self.f == 1.0 and self.off == 0.0:
            return np.zeros(self.m)
        return 64.0 * EPS * (np.abs(v) + abs(self.off)) * abs(self.f)

    def scaled(self, src=None):
        return (self.conv(src) + self.adder) * self.scaler

    def scaled_tol(self, src=None):
        c = self.conv(src)
        return (8.0 * EPS * (np.abs(c) + np.abs(self.adder)) + self.conv_tol(src)) * np.abs(self.scaler) + 1e-300

    def total_factor(self):
        return self.scaler * self.f

    def bound(self, key, default):
        """Scaled image of a declared bound: (values, judged mask)."""
        b = _full(self.spec.get(key), self.m, default)
        infinite = np.abs(b) >= INF_BOUND
        with np.errstate(all='ignore'):
            img = (b + self.adder) * self.scaler
        img = np.where(infinite, np.sign(b) * INF_BOUND, img)
        judged = infinite | (self.scaler > 0)
        tol = np.where(infinite, 0.0, 8.0 * EPS * (np.abs(b) + np.abs(self.adder)) * np.abs(self.scaler))
        return img, judged, tol


# ---------------------------------------------------------------------------------------------
# (a) determine_adder_scaler
# ---------------------------------------------------------------------------------------------

def check_das(case):
    from openmdao.utils.general_utils import determine_adder_scaler
    res = Result(classes=['kind_das'])
    args = {k: dec(case.get(k)) for k in ('ref0', 'ref', 'adder', 'scaler')}
    ref_given = args['ref0'] is not None or args['ref'] is not None
    sa_given = args['adder'] is not None or args['scaler'] is not None
    res.nontrivial = ref_given
    if ref_given:
        res.classes.append('das_ref')
    try:
        adder, scaler = determine_adder_scaler(args['ref0'], args['ref'], args['adder'], args['scaler'])
    except ValueError as exc:
        if ref_given and sa_given:
            res.classes.append('das_documented_raise')
            return res
        return res.fail('das:raises', f"{type(exc).__name__}: {exc}")
    except Exception as exc:
        return res.fail(core.repo_frame_signature(exc) or 'das:raises', f"{type(exc).__name__}: {exc}")
    if ref_given and sa_given:
        return res.fail('das:no-raise-on-both', f"returned {adder!r}, {scaler!r} for {case}")
    sizes = [np.asarray(v).size for v in args.values() if v is not None and not np.isscalar(v)]
    m = max(sizes) if sizes else 1
    spec = {k: case.get(k) for k in ('ref0', 'ref', 'adder', 'scaler')}
    ea, es = ref_adder_scaler(spec, m)
    for nm, got, exp in (('adder', adder, ea), ('scaler', scaler, es)):
        g = np.asarray(got, dtype=float)
        if g.ndim > 1:
            res.fail(f"das:{nm}-not-flat", repr(got))
            continue
        if sizes == [] and g.ndim != 0:
            res.fail(f"das:{nm}-type", f"scalar arguments gave {got!r}")
            continue
        gb = np.broadcast_to(g, exp.shape) if g.size in (1, exp.size) else g
        if gb.shape != exp.shape or not np.all(np.abs(gb - exp) <= 4.0 * EPS * np.abs(exp)):
            res.fail(f"das:{nm}-value", f"got {got!r} expected {exp.tolist()} for {case}")
    return res


# ---------------------------------------------------------------------------------------------
# (b) affine model
# ---------------------------------------------------------------------------------------------

def _make_affine_comp():
    import openmdao.api as om

    class Aff2(om.ExplicitComponent):
        """f = C [x;z] + d ; y = A [x;z] + b  with constant analytic partials."""

        def initialize(self):
            self.options.declare('case', types=dict)

        def setup(self):
            c = self.options['case']
            nx, nz = c['nx'], c['nz']
            self.M = {'f': np.array(c['C'], dtype=float).reshape(len(c['d']), nx + nz),
                      'y': np.array(c['A'], dtype=float).reshape(len(c['b']), nx + nz)}
            self.k = {'f': np.array(c['d'], dtype=float), 'y': np.array(c['b'], dtype=float)}
            us = lambda i: UNITS[i][0] if i is not None else None
            self.add_input('x', np.zeros(nx), units=us(c['xu']))
            if nz:
                self.add_input('z', np.zeros(nz), units=us(c['zu']))
            self.add_output('f', np.zeros(len(c['d'])), units=us(c['fu']))
            self.add_output('y', np.zeros(len(c['b'])), units=us(c['yu']))
            for o in ('f', 'y'):
                self.declare_partials(o, 'x', val=self.M[o][:, :nx])
                if nz:
                    self.declare_partials(o, 'z', val=self.M[o][:, nx:])

        def compute(self, inputs, outputs):
            v = np.concatenate([inputs['x'], inputs['z']]) if self.options['case']['nz'] else inputs['x']
            outputs['f'] = self.M['f'] @ v + self.k['f']
            outputs['y'] = self.M['y'] @ v + self.k['y']

    return Aff2


def _kw(spec, uidx, bounds=True):
    kw = {}
    for key in ('scaler', 'adder', 'ref', 'ref0'):
        v = dec(spec.get('scaling', {}).get(key))
        if v is not None:
            kw[key] = v
    if bounds:
        for key in ('lower', 'upper', 'equals'):
            v = dec(spec.get(key))
            if v is not None:
                kw[key] = v
    if spec.get('units') and uidx is not None:
        kw['units'] = UNITS[uidx][1]
    return kw


def build_model(case):
    import openmdao.api as om
    p = om.Problem(reports=False)
    if case.get('driver') == 'scipy':
        p.driver = om.ScipyOptimizeDriver(optimizer='SLSQP')
        p.driver.options['disp'] = False
    p.model.add_subsystem('c', _make_affine_comp()(case=case), promotes=['*'])
    for dv in case['dvs']:
        kw = _kw(dv, case['xu'] if dv['name'] == 'x' else case['zu'])
        kw.pop('equals', None)
        if dv.get('indices') is not None:
            kw['indices'] = list(dv['indices'])
        p.model.add_design_var(dv['name'], **kw)
    ob = case['obj']
    kw = _kw(ob, case['fu'], bounds=False)
    if ob.get('index') is not None:
        kw['index'] = int(ob['index'])
    p.model.add_objective('f', **kw)
    for con in case['cons']:
        kw = _kw(con, case['yu'])
        if con.get('indices') is not None:
            kw['indices'] = list(con['indices'])
        if con.get('alias'):
            kw['alias'] = con['alias']
        p.model.add_constraint('y', **kw)
    p.setup()
    p.set_val('x', np.array(case['x'], dtype=float))
    if case['nz']:
        p.set_val('z', np.array(case['z'], dtype=float))
    return p


def reference_vois(case, xz=None):
    nx, nz = case['nx'], case['nz']
    x = np.array(case['x'], dtype=float) if xz is None else np.asarray(xz[:nx], dtype=float)
    z = np.array(case['z'], dtype=float) if xz is None else np.asarray(xz[nx:], dtype=float)
    v = np.concatenate([x, z])
    C = np.array(case['C'], dtype=float).reshape(len(case['d']), nx + nz)
    A = np.array(case['A'], dtype=float).reshape(len(case['b']), nx + nz)
    f = C @ v + np.array(case['d'], dtype=float)
    y = A @ v + np.array(case['b'], dtype=float)
    dvs = []
    for dv in case['dvs']:
        n = nx if dv['name'] == 'x' else nz
        pos = [i % n for i in dv['indices']] if dv.get('indices') is not None else list(range(n))
        dvs.append(Voi(dv['name'], x if dv['name'] == 'x' else z, pos, case['xu'] if dv['name'] == 'x' else case['zu'], dv))
    ob = case['obj']
    nf = len(case['d'])
    obj = Voi('f', f, [ob['index'] % nf] if ob.get('index') is not None else list(range(nf)), case['fu'], ob)
    cons = []
    ny = len(case['b'])
    for con in case['cons']:
        pos = [i % ny for i in con['indices']] if con.get('indices') is not None else list(range(ny))
        cons.append(Voi(con.get('alias') or 'y', y, pos, case['yu'], con))
    return dvs, obj, cons, {'f': C, 'y': A}


def _cmp(res, sig, name, got, exp, tol, extra=''):
    got = np.asarray(got, dtype=float).ravel()
    exp = np.asarray(exp, dtype=float).ravel()
    if got.shape != exp.shape:
        res.fail(sig + ':shape', f"{name}: got shape {got.shape} expected {exp.shape} {extra}")
        return False
    bad = ~((np.abs(got - exp) <= tol) | (got == exp))
    if np.any(bad):
        i = int(np.argmax(bad))
        res.fail(sig, f"{name}[{i}]: got {got.tolist()} expected {exp.tolist()} (tol {np.broadcast_to(tol, exp.shape)[i]:.3g}) {extra}")
        return False
    return True


def _classify_model(case, res, vois):
    cls = ['kind_model', f"fmt_{case['fmt']}"]
    nontrivial = False
    for v in vois:
        sc = v.spec.get('scaling', {})
        if any(isinstance(sc.get(k), list) for k in ('scaler', 'adder', 'ref', 'ref0')):
            cls.append('array_scaling')
            nontrivial = True
        if np.any(v.scaler < 0):
            cls.append('negative_scaler')
            nontrivial = True
        if (v.f != 1.0 or v.off != 0.0) and sc:
            cls.append('units_and_scaling')
            nontrivial = True
        if v.f != 1.0 or v.off != 0.0:
            cls.append('units')
        if sc.get('ref') is not None or sc.get('ref0') is not None:
            cls.append('ref_ref0')
        for key, default in (('lower', -INF_BOUND), ('upper', INF_BOUND)):
            if v.spec.get(key) is not None and isinstance(v.spec.get(key), list):
                b = _full(v.spec.get(key), v.m, default)
                if np.any(np.abs(b) >= INF_BOUND):
                    cls.append('inf_bound_element')
                    nontrivial = True
                cls.append('array_bound')
        if v.spec.get('indices') is not None or v.spec.get('index') is not None:
            cls.append('indices')
    res.classes = sorted(set(cls))
    res.nontrivial = nontrivial


def check_model(case):
    res = Result()
    dvs, obj, cons, mats = reference_vois(case)
    _classify_model(case, res, dvs + [obj] + cons)
    try:
        p = build_model(case)
        p.final_setup()
        p.run_model()
    except Exception as exc:
        res.fail(core.repo_frame_signature(exc, 'setup') or f"setup:{type(exc).__name__}", f"{type(exc).__name__}: {exc}")
        return res
    drv = p.driver

    def guarded(sig, fn):
        try:
            return True, fn()
        except Exception as exc:
            res.fail(core.repo_frame_signature(exc, sig) or f"{sig}:{type(exc).__name__}", f"{type(exc).__name__}: {exc}")
            return False, None

    # -- 1. values, unscaled (declared units) and driver-scaled ---------------------------------------------
    getters = (('dv', drv.get_design_var_values, dvs), ('obj', drv.get_objective_values, [obj]),
               ('con', drv.get_constraint_values, cons))
    for ds in (False, True, False):       # the third pass checks that a scaled query leaves nothing behind
        for kind, getter, vois in getters:
            ok, vals = guarded(f"values-{kind}", lambda: getter(driver_scaling=ds))
            if not ok:
                continue
            if list(vals.keys()) != [v.name for v in vois]:
                res.fail(f"values-{kind}:keys", f"got {list(vals.keys())} expected {[v.name for v in vois]}")
                continue
            for v in vois:
                if ds:
                    _cmp(res, f"values-{kind}:scaled", v.name, vals[v.name], v.scaled(), v.scaled_tol(), f"spec={v.spec}")
                else:
                    _cmp(res, f"values-{kind}:unscaled", v.name, vals[v.name], v.conv(), v.conv_tol() + 1e-300, f"spec={v.spec}")

    # -- 2. scaled bounds ---------------------------------------------------------------------------------------
    for voi_type, vois in (('design_var', dvs), ('constraint', cons)):
        ok, out = guarded(f"bounds-{voi_type}", lambda: drv._autoscaler.get_bounds_scaling(voi_type))
        if not ok:
            continue
        lo_vec, up_vec, eq_vec = out
        for v in vois:
            is_eq = v.spec.get('equals') is not None
            for key, vec, default in (('lower', lo_vec, -INF_BOUND), ('upper', up_vec, INF_BOUND)):
                exp, judged, tol = v.bound(key, default)
                got = np.asarray(vec[v.name], dtype=float).ravel()
                if got.shape != exp.shape:
                    res.fail(f"bounds-{voi_type}:{key}:shape", f"{v.name}: got {got.tolist()} expected {exp.tolist()}")
                    continue
                if not np.all(judged):
                    res.classes.append('negative_scaler_bound_unjudged')
                bad = judged & ~((np.abs(got - exp) <= tol) | (got == exp))
                if np.any(bad):
                    res.fail(f"bounds-{voi_type}:{key}", f"{v.name}: got {got.tolist()} expected {exp.tolist()} "
                             f"declared={v.spec.get(key)} adder={v.adder.tolist()} scaler={v.scaler.tolist()}")
            if voi_type == 'constraint':
                got = np.asarray(eq_vec[v.name], dtype=float).ravel()
                if is_eq:
                    exp, _, tol = v.bound('equals', 0.0)
                    _cmp(res, 'bounds-constraint:equals', v.name, got, exp, tol, f"declared={v.spec.get('equals')}")
                elif not np.all(np.isnan(got)):
                    res.fail('bounds-constraint:equals-sentinel', f"{v.name}: documented NaN sentinel, got {got.tolist()}")

    # -- 3. total Jacobian blocks -----------------------------------------------------------------------------
    resp = [obj] + cons
    of = [v.name for v in resp]
    wrt = [v.name for v in dvs]
    nx = case['nx']

    def block(r, d):
        M = mats['f'] if r is obj else mats['y']
        cols = d.pos if d.name == 'x' else d.pos + nx
        return M[np.ix_(r.pos, cols)] * r.total_factor()[:, None] / d.total_factor()[None, :]

    ok, J = guarded('totals', lambda: p.compute_totals(of=of, wrt=wrt, driver_scaling=True, return_format=case['fmt']))
    if ok:
        for i, r in enumerate(resp):
            for j, d in enumerate(dvs):
                exp = block(r, d)
                try:
                    if case['fmt'] == 'flat_dict':
                        got = J[r.name, d.name]
                    elif case['fmt'] == 'dict':
                        got = J[r.name][d.name]
                    else:
                        r0 = sum(v.m for v in resp[:i])
                        c0 = sum(v.m for v in dvs[:j])
                        got = np.asarray(J)[r0:r0 + r.m, c0:c0 + d.m]
                except (KeyError, IndexError) as exc:
                    res.fail('totals:missing-block', f"({r.name},{d.name}): {type(exc).__name__}: {exc}")
                    continue
                got = np.asarray(got, dtype=float)
                if got.shape != exp.shape:
                    res.fail('totals:shape', f"({r.name},{d.name}): got {got.shape} expected {exp.shape}")
                    continue
                if not np.all(np.abs(got - exp) <= 1e-13 * np.abs(exp) + 1e-300):
                    res.fail('totals:block', f"({r.name},{d.name}) fmt={case['fmt']}: got {got.tolist()} expected {exp.tolist()} "
                             f"resp factor={r.total_factor().tolist()} dv factor={d.total_factor().tolist()}")

    # the driver's own entry point (what optimizers call); first totals request on this driver instance
    ok, Jd = guarded('totals-driver', lambda: drv._compute_totals(of=of, wrt=wrt, return_format='array', driver_scaling=True))
    if ok:
        exp = np.vstack([np.hstack([block(r, d) for d in dvs]) for r in resp])
        got = np.asarray(Jd, dtype=float)
        if got.shape != exp.shape:
            res.fail('totals-driver:shape', f"got {got.shape} expected {exp.shape}")
        elif not np.all(np.abs(got - exp) <= 1e-13 * np.abs(exp) + 1e-300):
            res.fail('totals-driver:block', f"got {got.tolist()} expected {exp.tolist()}")

    # -- 4. set path (unscale) and round trips -----------------------------------------------------------------
    dv_vec = drv._vectors['design_var']
    src0 = {d.name: np.array(p.get_val(d.name), dtype=float).ravel() for d in dvs}

    def set_driver_values(vals):
        dv_vec.set_data(np.concatenate(vals), driver_scaling=True)
        drv._set_design_vars(driver_scaling=True)

    def inv_tol(d, t):
        u = np.abs(t / d.scaler)
        w = np.abs(t / d.scaler - d.adder)
        return 16.0 * EPS * ((2 * u + np.abs(d.adder) + w) / abs(d.f) + abs(d.off)) * (64.0 if d.f != 1.0 or d.off else 1.0) + 1e-300

    # 4a. unscale(scale(x)) == x
    ok, s0 = guarded('roundtrip', lambda: drv.get_design_var_values(driver_scaling=True))
    if ok:
        ok, _ = guarded('roundtrip', lambda: set_driver_values([np.asarray(s0[d.name], dtype=float).ravel() for d in dvs]))
    if ok:
        for d in dvs:
            now = np.array(p.get_val(d.name), dtype=float).ravel()
            _cmp(res, 'roundtrip:unscale-scale', d.name, now[d.pos], src0[d.name][d.pos], inv_tol(d, d.scaled()),
                 f"spec={d.spec}")
            other = np.setdiff1d(np.arange(now.size), d.pos)
            if other.size and not np.array_equal(now[other], src0[d.name][other]):
                res.fail('roundtrip:untouched-entries-changed', f"{d.name}: {now.tolist()} vs {src0[d.name].tolist()}")
    # 4b. arbitrary driver-space targets: model value is the inverse image, and scale(unscale(t)) == t
    targets = [np.array(case['targets'][d.name], dtype=float)[:d.m] for d in dvs]
    ok, _ = guarded('set', lambda: set_driver_values(targets))
    if ok:
        newsrc = {}
        for d, t in zip(dvs, targets):
            now = np.array(p.get_val(d.name), dtype=float).ravel()
            newsrc[d.name] = now
            exp = (t / d.scaler - d.adder) / d.f - d.off
            _cmp(res, 'set:model-value', d.name, now[d.pos], exp, inv_tol(d, t), f"target={t.tolist()} spec={d.spec}")
        ok, s1 = guarded('set', lambda: drv.get_design_var_values(driver_scaling=True))
        if ok:
            for d, t in zip(dvs, targets):
                dd = Voi(d.name, newsrc[d.name], d.pos, case['xu'] if d.name == 'x' else case['zu'], d.spec)
                tol = dd.scaled_tol() + np.abs(d.scaler * d.f) * inv_tol(d, t)
                _cmp(res, 'set:scale-unscale', d.name, s1[d.name], t, tol, f"spec={d.spec}")
    return res


# ---------------------------------------------------------------------------------------------
# (c) Lagrange multipliers on constructed convex QPs
# ---------------------------------------------------------------------------------------------

def _make_quad_comp():
    import openmdao.api as om

    class Quad(om.ExplicitComponent):
        """f = 0.5 * sum(D (x-c)^2) ; g = A x + b ; h = E x + e."""

        def initialize(self):
            self.options.declare('q', types=dict)

        def setup(self):
            q = self.options['q']
            n = len(q['D'])
            self.add_input('x', np.zeros(n))
            self.add_output('f', 0.0)
            self.declare_partials('f', 'x')
            for nm, M in (('g', q['A']), ('h', q['E'])):
                if len(M):
                    self.add_output(nm, np.zeros(len(M)))
                    self.declare_partials(nm, 'x', val=np.array(M, dtype=float).reshape(len(M), n))

        def compute(self, inputs, outputs):
            q = self.options['q']
            x = inputs['x']
            outputs['f'] = 0.5 * np.sum(np.array(q['D']) * (x - np.array(q['c'])) ** 2)
            if len(q['A']):
                outputs['g'] = np.array(q['A'], dtype=float) @ x + np.array(q['b'])
            if len(q['E']):
                outputs['h'] = np.array(q['E'], dtype=float) @ x + np.array(q['e'])

        def compute_partials(self, inputs, partials):
            q = self.options['q']
            partials['f', 'x'] = (np.array(q['D']) * (inputs['x'] - np.array(q['c']))).reshape(1, -1)

    return Quad


def qp_from_case(case):
    """Derive the QP data (c, bounds) from the chosen optimum, active set and multipliers."""
    n = len(case['D'])
    D = np.array(case['D'], dtype=float)
    xs = np.array(case['xstar'], dtype=float)
    A = np.array(case['A'], dtype=float).reshape(len(case['A']), n)
    E = np.array(case['E'], dtype=float).reshape(len(case['E']), n)
    b = np.array(case['b'], dtype=float)
    e = np.array(case['e'], dtype=float)
    lam_x = np.array([s['lam'] if s['side'] in ('lower', 'upper') else 0.0 for s in case['xact']])
    lam_g = np.array([s['lam'] if s['side'] in ('lower', 'upper') else 0.0 for s in case['gact']])
    lam_h = np.array(case['lam_h'], dtype=float)
    grad = -(lam_x + (A.T @ lam_g if len(A) else 0.0) + (E.T @ lam_h if len(E) else 0.0))    # grad f(x*)
    c = xs - grad / D
    gval = A @ xs + b if len(A) else np.zeros(0)
    hval = E @ xs + e if len(E) else np.zeros(0)

    def bounds(vals, act):
        lo, up = [], []
        for v, s in zip(vals, act):
            if s['side'] == 'lower':
                lo.append(float(v)); up.append(float(v + s['gap']) if s.get('two') else 'inf')
            elif s['side'] == 'upper':
                up.append(float(v)); lo.append(float(v - s['gap']) if s.get('two') else '-inf')
            else:
                lo.append(float(v - s['gap'])); up.append(float(v + s['gap']) if s.get('two') else 'inf')
        return lo, up
    xlo, xup = bounds(xs, case['xact'])
    glo, gup = bounds(gval, case['gact'])
    return {'D': D.tolist(), 'c': c.tolist(), 'A': A.tolist(), 'b': b.tolist(), 'E': E.tolist(), 'e': e.tolist(),
            'xlo': xlo, 'xup': xup, 'glo': glo, 'gup': gup, 'heq': hval.tolist(),
            'lam_x': lam_x, 'lam_g': lam_g, 'lam_h': lam_h, 'gval': gval, 'hval': hval}


def check_mult(case):
    import openmdao.api as om
    res = Result(classes=['kind_mult'])
    q = qp_from_case(case)
    n = len(q['D'])
    sx_a, sx = ref_adder_scaler(case['sx'], n)
    sf_a, sf = ref_adder_scaler(case['sf'], 1)
    sg_a, sg = ref_adder_scaler(case['sg'], len(q['A']))
    sh_a, sh = ref_adder_scaler(case['sh'], len(q['E']))
    A = np.array(q['A'], dtype=float).reshape(len(q['A']), n)
    E = np.array(q['E'], dtype=float).reshape(len(q['E']), n)
    ax = [i for i, s in enumerate(case['xact']) if s['side'] in ('lower', 'upper')]
    ag = [i for i, s in enumerate(case['gact']) if s['side'] in ('lower', 'upper')]
    rows = [np.eye(n)[i] * sx[i] / sx for i in ax] + [A[i] * sg[i] / sx for i in ag] + [E[i] * sh[i] / sx for i in range(len(E))]
    if not rows:
        res.discard = 'empty active set'
        return res
    Ms = np.array(rows)
    sv = np.linalg.svd(Ms, compute_uv=False)
    cond = float(sv[0] / sv[-1]) if sv[-1] > 0 else math.inf
    if len(rows) > n or cond > 1e6:
        res.discard = 'ill-conditioned or over-determined active set'
        return res
    lam_scaled_ref = np.concatenate([q['lam_x'][ax] * sf[0] / sx[ax], q['lam_g'][ag] * sf[0] / sg[ag], q['lam_h'] * sf[0] / sh])
    scale_norm = float(np.linalg.norm(lam_scaled_ref))

    p = om.Problem(reports=False)
    p.model.add_subsystem('q', _make_quad_comp()(q={k: q[k] for k in ('D', 'c', 'A', 'b', 'E', 'e')}), promotes=['*'])

    def skw(sc):
        return {k: dec(v) for k, v in sc.items() if v is not None}
    p.model.add_design_var('x', lower=dec(q['xlo']), upper=dec(q['xup']), **skw(case['sx']))
    p.model.add_objective('f', **skw(case['sf']))
    if len(q['A']):
        p.model.add_constraint('g', lower=dec(q['glo']), upper=dec(q['gup']), **skw(case['sg']))
    if len(q['E']):
        p.model.add_constraint('h', equals=dec(q['heq']), **skw(case['sh']))
    p.driver = om.ScipyOptimizeDriver(optimizer='SLSQP')
    p.driver.options['disp'] = False
    p.setup()
    p.set_val('x', np.array(case['xstar'], dtype=float))
    p.run_model()

    arr = any(isinstance(v, list) and len(v) > 1 for sc in (case['sx'], case['sg'], case['sh']) for v in sc.values())
    active_scaled = bool(np.any(sx[ax] != 1.0) or np.any(sg[ag] != 1.0) or np.any(sh != 1.0) or sf[0] != 1.0)
    res.nontrivial = active_scaled
    res.classes += ['mult_sparse' if case['sparse'] else 'mult_dense', 'mult_ds' if case['ds'] else 'mult_model_units']
    if arr:
        res.classes.append('array_scaling')
    if ax:
        res.classes.append('mult_active_dv_bound')
    if ag:
        res.classes.append('mult_active_ineq')
    if len(E):
        res.classes.append('mult_equality')

    known_arr = (bool(ax) and _is_array_scaler(case['sx'], sx)) or (bool(ag) and _is_array_scaler(case['sg'], sg)) \
        or (len(E) > 0 and _is_array_scaler(case['sh'], sh))
    try:
        act_dvs, act_cons = p.driver.compute_lagrange_multipliers(driver_scaling=bool(case['ds']), feas_tol=1e-6,
                                                                  use_sparse_solve=bool(case['sparse']))
    except Exception as exc:
        if known_arr and not case['ds'] and isinstance(exc, ValueError) and 'truth value' in str(exc):
            sig = 'F17-mult-unscaling-array-scaler:raises'
        else:
            sig = core.repo_frame_signature(exc, 'mult') or f"mult:{type(exc).__name__}"
        res.fail(sig, f"{type(exc).__name__}: {exc}")
        return res

    rel = (1e-5 if case['sparse'] else 1e-9) * cond

    def expect(lam_model, s_own):
        return lam_model * sf[0] / s_own if case['ds'] else lam_model

    def tol_for(s_own):
        # error bound of the least-squares solve lives in driver-scaled space
        t = rel * max(scale_norm, 1e-300)
        return t * np.ones_like(s_own) if case['ds'] else t * np.abs(s_own) / abs(sf[0])

    for name, lam, s_own, act, store in (('x', q['lam_x'], sx, ax, act_dvs), ('g', q['lam_g'], sg, ag, act_cons),
                                         ('h', q['lam_h'], sh, list(range(len(E))), act_cons)):
        if not len(lam):
            continue
        if not act:
            if name in store and np.any(np.asarray(store[name].get('multipliers', 0.0)) != 0.0):
                res.fail('mult:inactive-reported', f"{name}: {store[name]}")
            continue
        if name not in store:
            res.fail('mult:active-missing', f"{name}: active elements {act} not reported; got keys {list(store)}")
            continue
        got_idx = sorted(int(i) for i in store[name]['indices'])
        if got_idx != sorted(act):
            res.fail('mult:active-set', f"{name}: active indices {got_idx} expected {sorted(act)}")
            continue
        got = np.asarray(store[name]['multipliers'], dtype=float).ravel()
        exp = expect(lam, s_own)
        _cmp(res, 'mult:value', name, got, exp, tol_for(s_own),
             f"driver_scaling={case['ds']} sparse={case['sparse']} cond={cond:.3g} sx={case['sx']} sf={case['sf']} sg={case['sg']} sh={case['sh']}")
    return res


def _is_array_scaler(sc, s):
    """the total scaler stored by OpenMDAO is an ndarray with more than one element"""
    if s.size <= 1:
        return False
    if sc.get('ref') is not None or sc.get('ref0') is not None:
        return isinstance(sc.get('ref'), list) or isinstance(sc.get('ref0'), list)
    return isinstance(sc.get('scaler'), list)


def check(case):
    k = case.get('kind')
    if k == 'das':
        return check_das(case)
    if k == 'model':
        return check_model(case)
    if k == 'mult':
        return check_mult(case)
    raise ValueError(f"unknown kind {k!r}")


# ---------------------------------------------------------------------------------------------
# Hypothesis strategies
# ---------------------------------------------------------------------------------------------

def _common():
    from hypothesis import strategies as st
    nice = st.one_of(st.integers(-5, 5).map(float), st.floats(-100.0, 100.0, allow_nan=False, width=64))
    pos = st.one_of(st.sampled_from([0.5, 1.0, 2.0, 10.0]), st.floats(1e-2, 50.0, allow_nan=False, width=64))
    factor = st.one_of(st.sampled_from([1.0, 2.0, 10.0, 0.5, 1e-3, 1e3, 0.1]), st.floats(1e-2, 1e2, allow_nan=False, width=64))

    @st.composite
    def scal_or_arr(draw, elem, m, p_array=4):
        if draw(st.integers(0, 9)) < p_array:
            return [draw(elem) for _ in range(m)]
        return draw(elem)

    @st.composite
    def scaling(draw, m, allow_neg, lo=None, hi=None, p_neg=10):
        fac = factor if lo is None else st.floats(lo, hi, allow_nan=False, width=64)
        kind = draw(st.sampled_from(['none', 'sa', 'sa', 'ref', 'ref']))
        if kind == 'none':
            return {}
        neg = allow_neg and draw(st.integers(0, p_neg - 1)) == 0
        sgn = -1.0 if neg else 1.0
        if kind == 'sa':
            which = draw(st.sampled_from(['both', 'both', 'scaler', 'adder']))
            out = {}
            if which in ('both', 'scaler'):
                out['scaler'] = draw(scal_or_arr(fac.map(lambda v: sgn * v), m))
            if which in ('both', 'adder'):
                out['adder'] = draw(scal_or_arr(nice, m))
            return out
        which = draw(st.sampled_from(['both', 'both', 'ref', 'ref0']))
        if which == 'ref':
            return {'ref': draw(scal_or_arr(fac.map(lambda v: sgn * v), m))}
        r0 = draw(scal_or_arr(nice, m))
        if which == 'ref0':
            fix = lambda v: v if abs(1.0 - v) > 1e-2 else v - 0.5
            if not allow_neg:
                fix = lambda v: v if v < 0.99 else -v          # ref defaults to 1: keep 1/(1-ref0) positive
            return {'ref0': [fix(v) for v in r0] if isinstance(r0, list) else fix(r0)}
        d = draw(scal_or_arr(fac, m))
        if isinstance(r0, list) or isinstance(d, list):
            r0l = r0 if isinstance(r0, list) else [r0] * m
            dl = d if isinstance(d, list) else [d] * m
            ref = [r0l[i] + sgn * dl[i] for i in range(m)]
            if any(ref[i] == r0l[i] for i in range(m)):
                return {'ref0': 0.0, 'ref': 2.0}
            return {'ref0': r0, 'ref': ref}
        ref = r0 + sgn * d
        if ref == r0:
            return {'ref0': 0.0, 'ref': 2.0}
        return {'ref0': r0, 'ref': ref}

    return st, nice, pos, factor, scal_or_arr, scaling


def strategy_das():
    st, nice, pos, factor, scal_or_arr, scaling = _common()

    @st.composite
    def case(draw):
        m = draw(st.integers(1, 4))
        mode = draw(st.sampled_from(['ref', 'ref', 'sa', 'sa', 'none', 'both']))
        out = {'kind': 'das', 'ref0': None, 'ref': None, 'adder': None, 'scaler': None}
        opt = lambda s: draw(st.one_of(st.none(), s))
        if mode in ('ref', 'both'):
            r0 = opt(scal_or_arr(nice, m))
            d = draw(scal_or_arr(factor.flatmap(lambda v: st.sampled_from([v, -v])), m))
            if r0 is None:
                out['ref'] = d if not isinstance(d, list) else [v if v != 0 else 1.0 for v in d]
            else:
                out['ref0'] = r0
                if draw(st.booleans()):
                    r0l = r0 if isinstance(r0, list) else [r0] * m
                    dl = d if isinstance(d, list) else [d] * m
                    if isinstance(r0, list) or isinstance(d, list):
                        out['ref'] = [r0l[i] + dl[i] for i in range(m)]
                    else:
                        out['ref'] = r0 + d
                    refl = out['ref'] if isinstance(out['ref'], list) else [out['ref']] * m
                    if any(refl[i] == r0l[i] for i in range(m)):
                        out['ref'] = None
                if out['ref'] is None:
                    fix = lambda v: v if abs(1.0 - v) > 1e-2 else v - 0.5
                    out['ref0'] = [fix(v) for v in r0] if isinstance(r0, list) else fix(r0)
        if mode in ('sa', 'both'):
            out['adder'] = opt(scal_or_arr(nice, m))
            out['scaler'] = opt(scal_or_arr(factor.flatmap(lambda v: st.sampled_from([v, -v])), m))
            if mode == 'both' and out['adder'] is None and out['scaler'] is None:
                out['scaler'] = 2.0
        return out
    return case()


def strategy_model():
    st, nice, pos, factor, scal_or_arr, scaling = _common()
    small = st.one_of(st.integers(-3, 3).map(float), st.floats(-10.0, 10.0, allow_nan=False, width=64))

    @st.composite
    def bounds(draw, m, center):
        """lower/upper around the current value; None, scalar, array with +-inf elements"""
        out = {}
        for key, sgn in (('lower', -1.0), ('upper', 1.0)):
            form = draw(st.sampled_from(['none', 'scalar', 'array', 'array', 'infscalar']))
            if form == 'none':
                continue
            if form == 'infscalar':
                out[key] = draw(st.sampled_from(['inf', 1e30, 2e30])) if sgn > 0 else draw(st.sampled_from(['-inf', -1e30, -2e30]))
            elif form == 'scalar':
                ext = max(center) if sgn > 0 else min(center)
                out[key] = ext + sgn * draw(pos)
            else:
                arr = []
                for i in range(m):
                    if draw(st.integers(0, 3)) == 0:
                        arr.append(draw(st.sampled_from(['inf', 1e30])) if sgn > 0 else draw(st.sampled_from(['-inf', -1e30])))
                    else:
                        arr.append(center[i] + sgn * draw(pos))
                out[key] = arr
        return out

    @st.composite
    def indices(draw, n, exclude=()):
        avail = [i for i in range(n) if i not in exclude]
        k = draw(st.integers(1, len(avail)))
        perm = draw(st.permutations(avail))[:k]
        return [i - n if draw(st.booleans()) else i for i in perm]

    @st.composite
    def case(draw):
        nx = draw(st.integers(1, 4))
        nz = draw(st.sampled_from([0, 0, 1, 2]))
        nf = draw(st.sampled_from([1, 1, 2]))
        ny = draw(st.integers(1, 4))
        nv = nx + nz
        mat = lambda r: [[draw(small) for _ in range(nv)] for _ in range(r)]
        u = lambda: draw(st.sampled_from([None, None, 0, 1, 2, 3, 4]))
        c = {'kind': 'model', 'nx': nx, 'nz': nz, 'C': mat(nf), 'd': [draw(nice) for _ in range(nf)],
             'A': mat(ny), 'b': [draw(nice) for _ in range(ny)],
             'x': [draw(nice) for _ in range(nx)], 'z': [draw(nice) for _ in range(nz)],
             'xu': u(), 'zu': u(), 'fu': u(), 'yu': u(),
             'fmt': draw(st.sampled_from(['flat_dict', 'dict', 'array'])),
             'driver': draw(st.sampled_from(['base', 'scipy']))}
        v = np.array(c['x'] + c['z'])
        f = np.array(c['C']).reshape(nf, nv) @ v + np.array(c['d'])
        y = np.array(c['A']).reshape(ny, nv) @ v + np.array(c['b'])

        def declared(val, uidx, use):
            fct, off = unit_fo(uidx, use)
            return [float((t + off) * fct) for t in val]

        dvs = []
        for name, n, uidx, val in (('x', nx, c['xu'], c['x']), ('z', nz, c['zu'], c['z'])):
            if n == 0:
                continue
            idx = draw(indices(n)) if draw(st.integers(0, 2)) == 0 else None
            pos_ = [i % n for i in idx] if idx is not None else list(range(n))
            m = len(pos_)
            use_units = uidx is not None and draw(st.booleans())
            dv = {'name': name, 'indices': idx, 'units': use_units, 'scaling': draw(scaling(m, True))}
            dv.update(draw(bounds(m, declared([val[i] for i in pos_], uidx, use_units))))
            dvs.append(dv)
        c['dvs'] = dvs
        c['targets'] = {'x': [draw(nice) for _ in range(nx)], 'z': [draw(nice) for _ in range(max(nz, 1))]}
        oi = draw(st.integers(-nf, nf - 1)) if (nf > 1 or draw(st.booleans())) else None
        c['obj'] = {'index': oi, 'units': c['fu'] is not None and draw(st.booleans()), 'scaling': draw(scaling(1, True, p_neg=3))}
        if c['obj']['scaling'] and draw(st.integers(0, 3)) == 0:
            # scalar quantity with size-1 arrays
            c['obj']['scaling'] = {k: (w if isinstance(w, list) else [w]) for k, w in c['obj']['scaling'].items()}
        cons = []
        two = ny >= 2 and draw(st.booleans())
        used = []
        for k in range(2 if two else 1):
            if two or draw(st.integers(0, 2)) == 0:
                avail = [i for i in range(ny) if i not in used]
                if not avail:
                    break
                kk = draw(st.integers(1, len(avail) - (1 if two and k == 0 and len(avail) > 1 else 0)))
                perm = draw(st.permutations(avail))[:kk]
                used += perm
                idx = [i - ny if draw(st.booleans()) else i for i in perm]
                alias = f"g{k}"
            else:
                idx, alias = None, None
            pos_ = [i % ny for i in idx] if idx is not None else list(range(ny))
            m = len(pos_)
            use_units = c['yu'] is not None and draw(st.booleans())
            con = {'indices': idx, 'alias': alias, 'units': use_units, 'scaling': draw(scaling(m, True))}
            center = declared([float(y[i]) for i in pos_], c['yu'], use_units)
            if draw(st.integers(0, 3)) == 0:
                con['equals'] = draw(scal_or_arr(nice, m))
            else:
                b = draw(bounds(m, center))
                if not b:
                    b = {'upper': max(center) + 1.0}
                con.update(b)
            cons.append(con)
        c['cons'] = cons
        return c
    return case()


def strategy_mult():
    st, nice, pos, factor, scal_or_arr, scaling = _common()
    coef = st.integers(-3, 3).map(float)
    lamv = st.one_of(st.sampled_from([0.5, 1.0, 2.0, 3.0]), st.floats(0.1, 20.0, allow_nan=False, width=64))

    @st.composite
    def act(draw, allow_active, nfree=2):
        side = draw(st.sampled_from(['lower', 'upper'] + ['free'] * nfree)) if allow_active else 'free'
        lam = draw(lamv)
        if side == 'lower':
            lam = -lam           # grad f = -J^T lam with lam <= 0 on a lower bound (a true KKT point)
        return {'side': side, 'lam': lam if side != 'free' else 0.0, 'gap': draw(st.floats(1.0, 10.0, allow_nan=False, width=64)),
                'two': draw(st.booleans())}

    @st.composite
    def case(draw):
        n = draw(st.integers(2, 4))
        mg = draw(st.integers(0, 3))
        mh = draw(st.integers(0, 2))
        budget = n
        E = [[draw(coef) for _ in range(n)] for _ in range(mh)]
        for r, row in enumerate(E):
            if not any(row):
                row[r % n] = 1.0
        budget -= mh
        xact, gact = [], []
        for i in range(n):
            a = draw(act(budget > 0, 4))
            if a['side'] != 'free':
                budget -= 1
            xact.append(a)
        A = [[draw(coef) for _ in range(n)] for _ in range(mg)]
        for r, row in enumerate(A):
            if not any(row):
                row[(r + 1) % n] = 1.0
            a = draw(act(budget > 0, 1))
            if a['side'] != 'free':
                budget -= 1
            gact.append(a)
        rng = dict(lo=1e-2, hi=1e2)
        return {'kind': 'mult', 'D': [draw(st.floats(0.5, 5.0, allow_nan=False, width=64)) for _ in range(n)],
                'xstar': [draw(nice) for _ in range(n)], 'A': A, 'b': [draw(nice) for _ in range(mg)],
                'E': E, 'e': [draw(nice) for _ in range(mh)], 'xact': xact, 'gact': gact,
                'lam_h': [draw(lamv) * draw(st.sampled_from([-1.0, 1.0])) for _ in range(mh)],
                'sx': draw(scaling(n, False, **rng)), 'sf': draw(scaling(1, False, **rng)),
                'sg': draw(scaling(mg, False, **rng)) if mg else {}, 'sh': draw(scaling(mh, False, **rng)) if mh else {},
                'ds': draw(st.sampled_from([False, False, True])), 'sparse': draw(st.booleans())}
    return case()


# ---------------------------------------------------------------------------------------------
# work units
# ---------------------------------------------------------------------------------------------

def units(tier, seed):
    nshard = 16
    quick = tier == 'quick'
    us = []
    for i in range(nshard):
        us.append({'kind': 'random', 'seed': core.shard_seed(seed, ID, i),
                   'n_model': 330 if quick else 8000, 'n_das': 120 if quick else 2000, 'n_mult': 100 if quick else 2000})
    return us


def run_unit(unit, ctx):
    shrink = unit.get('tier') == 'thorough'
    core.run_hypothesis(ctx, strategy_model(), check, unit['n_model'], unit['seed'], shrink=shrink)
    core.run_hypothesis(ctx, strategy_das(), check, unit['n_das'], unit['seed'] + 1, shrink=shrink)
    core.run_hypothesis(ctx, strategy_mult(), check, unit['n_mult'], unit['seed'] + 2, shrink=shrink)
