"""C21  Optimizer success implies a feasible reported design.

Domain : strictly convex QPs  min 1/2 v^T Q v + c^T v  (Q = d I + M M^T/4, n <= 5) computed by an explicit component
         with analytic partials; 1-3 constraint outputs  y_K = A_K v + b_K + 1/2 w_K (v.v)  (w_K = 0 : linear) whose
         selected elements (`indices`) carry a bound pattern drawn PER ELEMENT (lower only / upper only / both / none,
         or an equality constraint), bounds placed around the images of a constructed feasible point, given as scalars,
         arrays, omitted, +-1e30 or +-inf; design-variable bounds; scaler/adder/ref/ref0 on everything;
         optimizers SLSQP, COBYLA, trust-constr, COBYQA.
Oracle : only when the driver reports success: (a) model design variables == result.x unscaled, model outputs == the
         reference functions at that design; (b) every bound holds at that design for the harness's own g; (c) the design
         is the optimum of the reference problem (solved directly with scipy in model units and certified by a KKT
         residual check), under both drawn scalings.
"""
import math

import numpy as np

from vfw import core
from vfw.core import Result

ID = 'C21'
LEVEL = 'exploration'
TECHNIQUE = ('Hypothesis-generated feasible-by-construction convex QPs with per-element bound patterns; independent NumPy '
             'reference functions, KKT-certified reference optimum, two driver scalings per problem')
RULE = ("case = (SPD Q, c, 1-3 constraint outputs with rows a.v + b + w/2 |v|^2, indices, per-element bound pattern in "
        "{L,U,B,N} or equality, bound margins around g(x_feasible), how each bound side is passed (omitted / scalar / array / "
        "1e30 / inf), linear flag, design-variable bounds, start point, optimizer, tol, two scaling sets). The sign of the "
        "curvature w of a row follows its pattern (U,N: convex, L: concave, B,E: zero) so every problem is convex with a "
        "unique optimum. Non-trivial = the driver reported success under at least one scaling AND some array constraint "
        "has elements with different bound patterns AND at least one constraint bound is active at the reference optimum. "
        "Distinct = distinct canonical JSON.")
ASSUMPTIONS = [
    "success is judged from Problem.run_driver().success and driver.fail; a run the optimizer reports as failed is discarded",
    "the reference optimum is accepted only if it is feasible to 1e-9 and its KKT residual (non-negative least squares over "
    "the active gradients) is below 1e-6*(1+|grad f|); lambda_min(Q) >= 1 then bounds its distance to the optimum by ~1e-6",
    "feasibility tolerance in model units: 10*max(tol, feasibility tolerance the scipy method guarantees for its own "
    "success flag: 1.5e-8 for COBYLA (sqrt(eps) catol), 1e-8 for COBYQA) / min(1, scaler) + round-off",
    "optimality tolerance: ||x - x*||_inf <= 1e-4*max(1,||x*||_inf); tol <= 1e-8 is passed to the driver so that the "
    "optimizers' own termination rules are at least two orders tighter",
    "a success reported by scipy for a run whose own reported constraint violation (result.maxcv / constr_violation, in "
    "driver units) exceeds the tolerance is third-party looseness: not judged for (b)/(c) (class optimizer_own_violation_above_tol)",
    "when a design misses the optimum, the same scipy method is run by the harness directly on the reference problem in the "
    "driver units of that run (same tol, options, start, one constraint per element and side); if that control misses the "
    "optimum too, 'success' carries no optimality claim for this problem (COBYLA/COBYQA stop on trust-region size) and the "
    "run is not judged for (c) (class optimizer_inaccurate_in_control_too)",
    "trust-constr: optimality tolerance 5e-3 relative: scipy's interior-point gtol test is met on the central path (direct "
    "scipy calls and the repaired driver miss the optimum by up to 8e-4 on 210 generated problems at tol <= 1e-8)",
    "scalers are positive (ref > ref0) on design variables and constraints: OpenMDAO states no bound re-ordering rule for "
    "negative scalers (DESIGN section 8 item 4); a negative objective scaler is used with a negated objective (maximisation)",
    "equality constraints only with SLSQP / trust-constr (OpenMDAO documents that the others reject them)",
    "for trust-constr / COBYQA with linear=True the start point is the constructed feasible point (scipy requires a feasible "
    "x0 for keep_feasible linear constraints)",
]
BOUND = {'quick': '4 units x 60 problems, each solved under two scalings',
         'thorough': '32 units x 600 problems, each solved under two scalings'}
MIN_CLASS_FRACTION = {'success': 0.15, 'mixed_pattern': 0.2, 'active': 0.4, 'success_outside_known_predicates': 0.1}
UNIT_TIMEOUT = {'quick': 3000, 'thorough': 6 * 3600}

INF = 1e30
OLD_STYLE = ('SLSQP', 'COBYLA')
NEW_STYLE = ('trust-constr', 'COBYQA')
EQ_OK = ('SLSQP', 'trust-constr')
GRAD_OPTS = ('SLSQP', 'trust-constr')


# ---------------------------------------------------------------------------------------------
# decoding of a case into the reference problem (model units)
# ---------------------------------------------------------------------------------------------

def _fit(val, size):
    """scalar stays scalar, list is resized (cyclically) to `size`."""
    if val is None:
        return None
    if isinstance(val, (list, tuple)):
        return np.resize(np.array(val, dtype=float), size)
    return float(val)


def _side(vals, form, infenc, sign):
    """How one bound side is handed to OpenMDAO.  vals: effective per-element values (+-inf where absent).
    Returns (argument or None, effective values)."""
    fin = np.isfinite(vals)
    big = sign * INF if infenc != 'npinf' else sign * np.inf
    if not fin.any():
        if infenc == 'none':
            return None, vals
        if form == 'scalar':
            return big, vals
        return np.full(vals.size, big), vals
    if fin.all() and form == 'scalar':
        v = float(vals.min() if sign < 0 else vals.max())
        return v, np.full(vals.size, v)
    arr = np.where(fin, vals, big)
    return arr, vals


class Con(object):
    pass


def decode(case):
    n = case['n']
    M = np.array(case['M'], dtype=float).reshape(n, n)
    Q = case['d'] * np.eye(n) + M @ M.T / 4.0
    c = np.array(case['c'], dtype=float) / 2.0
    xf = np.array(case['xf'], dtype=float) / 2.0
    P = Con()
    P.n, P.Q, P.c, P.xf = n, Q, c, xf
    P.split = case.get('split', 0) if 0 < case.get('split', 0) < n else 0
    P.dvnames = ['x'] if not P.split else ['x', 'z']
    P.dvsl = {'x': slice(0, P.split or n)}
    if P.split:
        P.dvsl['z'] = slice(P.split, n)
    opt = case['opt']
    P.cons = []
    for K, cs in enumerate(case['cons']):
        C = Con()
        m = len(cs['b'])
        C.A = np.array(cs['A'], dtype=float).reshape(m, n) / 2.0
        C.b = np.array(cs['b'], dtype=float) / 2.0
        wmag = np.abs(np.resize(np.array(cs['w'], dtype=float), m)) / 4.0
        idx = cs.get('idx')
        C.idx = idx
        C.sel = np.arange(m)[np.array(idx, dtype=int)] if idx is not None else np.arange(m)
        k = C.sel.size
        C.eq = bool(cs.get('eq')) and opt in EQ_OK
        pat = [str(p) for p in np.resize(np.array(cs['pat'], dtype=object), k)]
        C.linear = bool(cs.get('linear'))
        w = wmag.copy()
        if C.linear:
            w[:] = 0.0
        for j, r in enumerate(C.sel):
            if C.eq or pat[j] == 'B':
                w[r] = 0.0
            elif pat[j] == 'L':
                w[r] = -wmag[r] if not C.linear else 0.0
        C.w = w
        gf = (C.A @ xf + C.b + 0.5 * C.w * (xf @ xf))[C.sel]
        if C.eq:
            if cs.get('form_e') == 'scalar' and k > 1:
                # shift the offsets so that every selected element equals the same value at xf
                for j, r in enumerate(C.sel):
                    C.b[r] += gf[0] - gf[j]
                gf = (C.A @ xf + C.b + 0.5 * C.w * (xf @ xf))[C.sel]
            C.pat = ['E'] * k
            C.lo = np.full(k, -np.inf)
            C.up = np.full(k, np.inf)
            C.equals = gf.copy()
            C.kw = {'equals': float(gf[0]) if (cs.get('form_e') == 'scalar') else gf.copy()}
        else:
            C.pat = pat
            ml = np.abs(np.resize(np.array(cs['ml'], dtype=float), k)) / 8.0 + 0.125
            mu = np.abs(np.resize(np.array(cs['mu'], dtype=float), k)) / 8.0 + 0.125
            lo = np.array([gf[j] - ml[j] if pat[j] in 'LB' else -np.inf for j in range(k)])
            up = np.array([gf[j] + mu[j] if pat[j] in 'UB' else np.inf for j in range(k)])
            C.equals = None
            C.kw = {}
            arg, C.lo = _side(lo, cs.get('form_l', 'array'), cs.get('inf_l', 'none'), -1)
            if arg is not None:
                C.kw['lower'] = arg
            arg, C.up = _side(up, cs.get('form_u', 'array'), cs.get('inf_u', 'none'), +1)
            if arg is not None:
                C.kw['upper'] = arg
        C.size = k
        C.name = f"y{K}"
        P.cons.append(C)
    # design variable bounds
    db = case.get('dvb') or {}
    pat = [str(p) for p in np.resize(np.array(db.get('pat', ['N']), dtype=object), n)]
    ml = np.abs(np.resize(np.array(db.get('ml', [0]), dtype=float), n)) / 4.0 + 0.25
    mu = np.abs(np.resize(np.array(db.get('mu', [0]), dtype=float), n)) / 4.0 + 0.25
    P.dvkw = {}
    P.xlo = np.full(n, -np.inf)
    P.xup = np.full(n, np.inf)
    for name in P.dvnames:
        s = P.dvsl[name]
        lo = np.array([xf[i] - ml[i] if pat[i] in 'LB' else -np.inf for i in range(n)][s])
        up = np.array([xf[i] + mu[i] if pat[i] in 'UB' else np.inf for i in range(n)][s])
        kw = {}
        arg, P.xlo[s] = _side(lo, db.get('form_l', 'array'), db.get('inf_l', 'none'), -1)
        if arg is not None:
            kw['lower'] = arg
        arg, P.xup[s] = _side(up, db.get('form_u', 'array'), db.get('inf_u', 'none'), +1)
        if arg is not None:
            kw['upper'] = arg
        P.dvkw[name] = kw
    x0 = xf + np.resize(np.array(case.get('dx0', [0]), dtype=float), n) / 2.0
    if opt in NEW_STYLE and any(C.linear for C in P.cons):
        x0 = xf.copy()
    P.x0 = np.minimum(np.maximum(x0, P.xlo), P.xup)
    P.sign = -1.0 if case.get('neg_obj') else 1.0
    return P


def f_ref(P, v):
    return 0.5 * v @ P.Q @ v + P.c @ v


def g_ref(C, v, full=False):
    g = C.A @ v + C.b + 0.5 * C.w * (v @ v)
    return g if full else g[C.sel]


def J_ref(C, v, full=False):
    J = C.A + np.outer(C.w, v)
    return J if full else J[C.sel]


# ---------------------------------------------------------------------------------------------
# reference optimum (direct scipy on the reference problem, certified by a KKT residual)
# ---------------------------------------------------------------------------------------------

def _ineq_list(P, drop=()):
    """list of (key, fun h(v) >= 0, jac) for every finite inequality side not in `drop`."""
    out = []
    for K, C in enumerate(P.cons):
        if C.eq:
            continue
        for j in range(C.size):
            if np.isfinite(C.lo[j]) and (K, j, 'L') not in drop:
                out.append(((K, j, 'L'),
                            (lambda v, C=C, j=j: g_ref(C, v)[j] - C.lo[j]),
                            (lambda v, C=C, j=j: J_ref(C, v)[j])))
            if np.isfinite(C.up[j]) and (K, j, 'U') not in drop:
                out.append(((K, j, 'U'),
                            (lambda v, C=C, j=j: C.up[j] - g_ref(C, v)[j]),
                            (lambda v, C=C, j=j: -J_ref(C, v)[j])))
    for i in range(P.n):
        e = np.zeros(P.n)
        e[i] = 1.0
        if np.isfinite(P.xlo[i]):
            out.append((('x', i, 'L'), (lambda v, i=i: v[i] - P.xlo[i]), (lambda v, e=e: e)))
        if np.isfinite(P.xup[i]):
            out.append((('x', i, 'U'), (lambda v, i=i: P.xup[i] - v[i]), (lambda v, e=e: -e)))
    return out


def _eq_list(P, drop=()):
    out = []
    for K, C in enumerate(P.cons):
        if not C.eq:
            continue
        for j in range(C.size):
            if (K, j, 'E') not in drop:
                out.append(((K, j, 'E'),
                            (lambda v, C=C, j=j: g_ref(C, v)[j] - C.equals[j]),
                            (lambda v, C=C, j=j: J_ref(C, v)[j])))
    return out


def kkt_certificate(P, v, drop=()):
    """(feasibility violation, KKT residual, list of active keys) of v for the reference problem."""
    from scipy.optimize import nnls
    grad = P.Q @ v + P.c
    viol = 0.0
    cols = []
    active = []
    for key, h, dh in _ineq_list(P, drop):
        s = h(v)
        viol = max(viol, -s)
        if s <= 1e-6:
            cols.append(dh(v))          # stationarity: grad f = sum mu_i dh_i, mu_i >= 0
            active.append(key)
    for key, h, dh in _eq_list(P, drop):
        viol = max(viol, abs(h(v)))
        cols.append(dh(v))
        cols.append(-dh(v))
    if cols:
        Amat = np.array(cols).T
        mu, rn = nnls(Amat, grad, maxiter=50 * Amat.shape[1] + 50)
        resid = float(np.linalg.norm(Amat @ mu - grad))
    else:
        resid = float(np.linalg.norm(grad))
    return viol, resid, active


def ref_solve(P, drop=()):
    """Optimum of the reference problem without the bound sides listed in `drop`.  Returns (x*, active keys) or
    (None, reason)."""
    from scipy.optimize import minimize
    ineq = _ineq_list(P, drop)
    eqs = _eq_list(P, drop)
    cons = [{'type': 'ineq', 'fun': h, 'jac': dh} for _, h, dh in ineq] + \
           [{'type': 'eq', 'fun': h, 'jac': dh} for _, h, dh in eqs]
    fun = lambda v: f_ref(P, v)
    jac = lambda v: P.Q @ v + P.c
    best = None
    for start in (P.xf, P.x0):
        try:
            r = minimize(fun, start, jac=jac, method='SLSQP', constraints=cons,
                         options={'ftol': 1e-15, 'maxiter': 400})
        except Exception:
            continue
        viol, resid, active = kkt_certificate(P, r.x, drop)
        if viol <= 1e-9 and resid <= 1e-6 * (1.0 + np.linalg.norm(jac(r.x))):
            return r.x, active
        best = (viol, resid)
    try:
        from scipy.optimize import NonlinearConstraint
        nc = [NonlinearConstraint(h, 0.0, np.inf, jac=dh) for _, h, dh in ineq] + \
             [NonlinearConstraint(h, 0.0, 0.0, jac=dh) for _, h, dh in eqs]
        r = minimize(fun, P.xf, jac=jac, hess=lambda v: P.Q, method='trust-constr', constraints=nc,
                     options={'gtol': 1e-11, 'xtol': 1e-14, 'barrier_tol': 1e-12, 'maxiter': 2000})
        viol, resid, active = kkt_certificate(P, r.x, drop)
        if viol <= 1e-9 and resid <= 1e-6 * (1.0 + np.linalg.norm(jac(r.x))):
            return r.x, active
        best = (viol, resid)
    except Exception:
        pass
    return None, f"reference-not-certified"


# ---------------------------------------------------------------------------------------------
# known findings: predicates over the input
# ---------------------------------------------------------------------------------------------

F9A = 'F9a-oldstyle-elem0-decides-twosided'
F9B = 'F9b-newstyle-only-last-element'
F9D = 'F9d-newstyle-linear-intercept-ignored'
F9E = 'F9e-newstyle-linear-vector-single-row'
F9C = 'F9c-final-design-not-set'
F9F = 'F9f-trustconstr-callbacks-return-previous-point'
F9G = 'F9g-trustconstr-jacobian-negated-for-upper-only'


def as_implemented(case, P, dv_a, con_a):
    """What the driver actually hands to scipy, as a predicate over the input (case + scaling of this run).

    Returns (drop, shift, cause, exc_tags, general):
      drop  : set of bound sides (K, j, 'L'|'U'|'E') that never reach the optimizer
      shift : {K: delta} constraint K is imposed with its bounds moved by delta (model units)
      cause : {key or ('shift', K): tag}
      exc_tags : tags of findings that make scipy raise before the first iteration
      general  : tag of the finding that makes every result of this optimizer unreliable (trust-constr only), or None

    F9a (old-style dict constraints: SLSQP, COBYLA): in the per-element loop `upper = upper[j]` / `lower = lower[j]` rebind
        the arrays to element 0's values, so whether the second (upper) dict of a two-sided element is emitted is decided
        by element 0 for every j: if element 0 is not two-sided, the upper bound of every later two-sided element is dropped.
    F9b (new-style objects: trust-constr, COBYQA): `constraints.append(con)` sits after the `for j` loop, so for a
        constraint routed through NonlinearConstraint only the LAST element is constrained.
    F9d (trust-constr, linear=True): LinearConstraint(A, lb, ub) is built from the total derivative only; the constant
        term of the (affine) constraint in driver units, s_g*(b + a_g - A a_x), is ignored: bounds are effectively shifted.
    F9e (trust-constr, linear=True, size > 1): A is the single row `lincongrad[lin_i]` instead of rows lin_i:lin_i+size;
        scipy rejects the shapes.
    F9f (trust-constr, always): scipy asks for the objective gradient, the constraint values and the constraint Jacobians
        at a new trial point BEFORE it asks for the objective there; `_gradfunc`, `_con_val_func` and `_congradfunc` ignore
        their x argument and answer from the model state / caches of the previous point.
    F9g (trust-constr, element routed through NonlinearConstraint with no lower bound): `_congradfunc` negates the
        gradient when `lower <= -INF_BOUND` (the old-style `upper - g >= 0` convention) although the new-style constraint
        function returns +g.
    """
    opt = case['opt']
    drop = set()
    shift = {}
    cause = {}
    exc_tags = set()
    general = None
    if opt == 'trust-constr':
        general = F9F
        for C in P.cons:
            if not (C.linear and opt in GRAD_OPTS) and not C.eq and np.isfinite(C.up[-1]) and not np.isfinite(C.lo[-1]):
                general = F9G
    for K, C in enumerate(P.cons):
        if opt in OLD_STYLE:
            if C.eq or C.size < 2:
                continue
            two0 = np.isfinite(C.lo[0]) and np.isfinite(C.up[0])
            if not two0:
                for j in range(1, C.size):
                    if np.isfinite(C.lo[j]) and np.isfinite(C.up[j]):
                        drop.add((K, j, 'U'))
                        cause[(K, j, 'U')] = F9A
            continue
        routed_linear = C.linear and opt in GRAD_OPTS
        if routed_linear:
            if C.size > 1:
                exc_tags.add(F9E)
                continue
            r = C.sel[0]
            delta = float(C.b[r] + con_a[K][0] - C.A[r] @ dv_a)
            if delta != 0.0:
                shift[K] = delta
                cause[('shift', K)] = F9D
            continue
        for j in range(C.size - 1):
            keys = [(K, j, 'E')] if C.eq else \
                [(K, j, sd) for sd, arr in (('L', C.lo), ('U', C.up)) if np.isfinite(arr[j])]
            for key in keys:
                drop.add(key)
                cause[key] = F9B
    return drop, shift, cause, exc_tags, general


def shifted_problem(P, shift):
    """copy of P in which constraint K is imposed with bounds moved by shift[K]."""
    import copy
    P2 = copy.copy(P)
    P2.cons = []
    for K, C in enumerate(P.cons):
        C2 = copy.copy(C)
        d = shift.get(K, 0.0)
        if d:
            C2.lo = C.lo + d
            C2.up = C.up + d
            if C.equals is not None:
                C2.equals = C.equals + d
        P2.cons.append(C2)
    return P2


# ---------------------------------------------------------------------------------------------
# the OpenMDAO side
# ---------------------------------------------------------------------------------------------

def scal_kwargs(spec, size):
    """(kwargs for add_design_var/add_constraint/add_objective, reference adder array, reference scaler array)."""
    if not spec:
        return {}, np.zeros(size), np.ones(size)
    kw = {}
    if spec.get('kind') == 'ref':
        ref = _fit(spec.get('ref'), size)
        ref0 = _fit(spec.get('ref0'), size)
        if ref is not None:
            kw['ref'] = ref
        if ref0 is not None:
            kw['ref0'] = ref0
        r = np.ones(size) if ref is None else np.broadcast_to(ref, (size,)).astype(float)
        r0 = np.zeros(size) if ref0 is None else np.broadcast_to(ref0, (size,)).astype(float)
        return kw, -r0, 1.0 / (r - r0)
    sc = _fit(spec.get('scaler'), size)
    ad = _fit(spec.get('adder'), size)
    if sc is not None:
        kw['scaler'] = sc
    if ad is not None:
        kw['adder'] = ad
    s = np.ones(size) if sc is None else np.broadcast_to(sc, (size,)).astype(float)
    a = np.zeros(size) if ad is None else np.broadcast_to(ad, (size,)).astype(float)
    return kw, a, s


def opt_settings(case):
    opt = case['opt']
    if opt == 'COBYLA':
        return {'maxiter': 1500}
    if opt == 'trust-constr':
        return {'maxiter': 600}
    if opt == 'SLSQP':
        return {'maxiter': 300}
    return {}


def run_om(case, P, scal):
    """Build the model, run the driver once.  Returns a dict."""
    import openmdao.api as om
    n = P.n
    sign = P.sign
    cons = P.cons
    sizes = {nm: (P.dvsl[nm].stop - P.dvsl[nm].start) for nm in P.dvnames}
    evals = []

    class QP(om.ExplicitComponent):
        def setup(self):
            for nm in P.dvnames:
                self.add_input(nm, val=np.zeros(sizes[nm]))
            self.add_output('f', val=0.0)
            for C in cons:
                self.add_output(C.name, val=np.zeros(C.b.size))
            self.declare_partials('*', '*')

        def _v(self, inputs):
            return np.concatenate([np.asarray(inputs[nm]).ravel() for nm in P.dvnames])

        def compute(self, inputs, outputs):
            v = self._v(inputs)
            evals.append(v)
            outputs['f'] = sign * f_ref(P, v)
            for C in cons:
                outputs[C.name] = g_ref(C, v, full=True)

        def compute_partials(self, inputs, partials):
            v = self._v(inputs)
            gr = sign * (P.Q @ v + P.c)
            for nm in P.dvnames:
                partials['f', nm] = gr[P.dvsl[nm]].reshape(1, -1)
            for C in cons:
                J = J_ref(C, v, full=True)
                for nm in P.dvnames:
                    partials[C.name, nm] = J[:, P.dvsl[nm]]

    p = om.Problem(reports=False)
    if case.get('ivc'):
        ivc = p.model.add_subsystem('iv', om.IndepVarComp(), promotes=['*'])
        for nm in P.dvnames:
            ivc.add_output(nm, val=np.zeros(sizes[nm]))
    p.model.add_subsystem('qp', QP(), promotes=['*'])

    sc = scal or {}
    dv_a = np.zeros(n)
    dv_s = np.ones(n)
    for nm in P.dvnames:
        kw, a, s = scal_kwargs(sc.get(nm), sizes[nm])
        dv_a[P.dvsl[nm]] = a
        dv_s[P.dvsl[nm]] = s
        p.model.add_design_var(nm, **dict(P.dvkw[nm], **kw))
    fspec = sc.get('f')
    kw, fa, fs = scal_kwargs(fspec, 1)
    if sign < 0:
        # maximisation: negated objective with a negative scaler / ref < ref0
        kw = {k: (-np.asarray(v) if k in ('scaler',) else v) for k, v in kw.items()}
        if 'ref' in kw or 'ref0' in kw:
            r = kw.get('ref', 1.0)
            r0 = kw.get('ref0', 0.0)
            kw['ref'], kw['ref0'] = r0 - (r - r0), r0
        if not kw or ('scaler' not in kw and 'ref' not in kw):
            kw['scaler'] = -1.0
    p.model.add_objective('f', **kw)
    fs = -fs if sign < 0 else fs
    con_s = []
    con_a = []
    for K, C in enumerate(cons):
        gspec = (sc.get('g') or [None] * len(cons))
        gspec = gspec[K] if K < len(gspec) else None
        kw, a, s = scal_kwargs(gspec, C.size)
        con_s.append(s)
        con_a.append(a)
        kw = dict(C.kw, **kw)
        if C.idx is not None:
            kw['indices'] = list(C.idx)
        if C.linear:
            kw['linear'] = True
        p.model.add_constraint(C.name, **kw)

    drv = om.ScipyOptimizeDriver(optimizer=case['opt'], tol=case['tol'], disp=False)
    drv.opt_settings.update(opt_settings(case))
    p.driver = drv
    out = {'con_s': con_s, 'con_a': con_a, 'dv_s': dv_s, 'dv_a': dv_a, 'evals': evals, 'f_s': float(fs[0]), 'f_a': float(fa[0])}
    import io
    import contextlib
    buf = io.StringIO()
    try:
        with contextlib.redirect_stdout(buf):
            p.setup()
            for nm in P.dvnames:
                p.set_val(nm, P.x0[P.dvsl[nm]])
            result = p.run_driver()
    except Exception as e:
        out['exc'] = e
        return out
    out['success'] = bool(result.success) and not drv.fail
    sres = drv._scipy_optimize_result
    out['sres'] = sres
    out['x_model'] = np.concatenate([np.asarray(p.get_val(nm)).ravel() for nm in P.dvnames])
    out['f_model'] = float(np.asarray(p.get_val('f')).ravel()[0])
    out['y_model'] = [np.asarray(p.get_val(C.name)).ravel().copy() for C in cons]
    out['x_res'] = np.asarray(sres.x, dtype=float).ravel() if sres is not None else None
    return out


# ---------------------------------------------------------------------------------------------
# control: the same scipy method on the reference problem, written in driver units the way the driver documents it
# ---------------------------------------------------------------------------------------------

def control_run(case, P, run):
    """Solve the reference problem directly with scipy.optimize.minimize, same method / tol / options / start point,
    in the scaled coordinates of this run (one constraint per element and side, in declaration order).  Used only to
    tell an optimizer that is itself inaccurate on this problem from a driver that misinforms the optimizer."""
    from scipy.optimize import minimize, NonlinearConstraint, Bounds
    opt = case['opt']
    sx, ax = run['dv_s'], run['dv_a']
    sf, af = run['f_s'], run['f_a']
    unsc = lambda xs: xs / sx - ax
    fun = lambda xs: (P.sign * f_ref(P, unsc(xs)) + af) * sf
    jac = lambda xs: P.sign * (P.Q @ unsc(xs) + P.c) * sf / sx
    big = 1e30
    cons = []
    x0s_ = (P.x0 + ax) * sx
    for K, C in enumerate(P.cons):
        sg, ag = run['con_s'][K], run['con_a'][K]
        if C.linear and opt == 'trust-constr' and not C.eq:   # (COBYQA gets NonlinearConstraints from the driver: no gradients)
            # like the driver: one LinearConstraint(A, lb - y0, ub - y0, keep_feasible=True) for a linear=True constraint
            from scipy.optimize import LinearConstraint
            A = np.array([J_ref(C, unsc(x0s_))[j] * sg[j] / sx for j in range(C.size)])
            g0 = np.array([(g_ref(C, unsc(x0s_))[j] + ag[j]) * sg[j] for j in range(C.size)])
            y0 = g0 - A @ x0s_
            lo_ = np.array([(C.lo[j] + ag[j]) * sg[j] - y0[j] if np.isfinite(C.lo[j]) else -np.inf for j in range(C.size)])
            up_ = np.array([(C.up[j] + ag[j]) * sg[j] - y0[j] if np.isfinite(C.up[j]) else np.inf for j in range(C.size)])
            cons.append(LinearConstraint(A, lo_, up_, keep_feasible=True))
            continue
        for j in range(C.size):
            gs = lambda xs, C=C, j=j, sg=sg, ag=ag: (g_ref(C, unsc(xs))[j] + ag[j]) * sg[j]
            dgs = lambda xs, C=C, j=j, sg=sg: J_ref(C, unsc(xs))[j] * sg[j] / sx
            lo = (C.lo[j] + ag[j]) * sg[j] if np.isfinite(C.lo[j]) else -big
            up = (C.up[j] + ag[j]) * sg[j] if np.isfinite(C.up[j]) else big
            if opt in OLD_STYLE:
                def add(kind, f, df):
                    d = {'type': kind, 'fun': f}
                    if opt == 'SLSQP':
                        d['jac'] = df
                    cons.append(d)
                if C.eq:
                    e = (C.equals[j] + ag[j]) * sg[j]
                    add('eq', (lambda xs, gs=gs, e=e: gs(xs) - e), dgs)
                else:
                    if lo <= -big:
                        add('ineq', (lambda xs, gs=gs, up=up: up - gs(xs)), (lambda xs, dgs=dgs: -dgs(xs)))
                    else:
                        add('ineq', (lambda xs, gs=gs, lo=lo: gs(xs) - lo), dgs)
                        if up < big:
                            add('ineq', (lambda xs, gs=gs, up=up: up - gs(xs)), (lambda xs, dgs=dgs: -dgs(xs)))
            else:
                if C.eq:
                    lo = up = (C.equals[j] + ag[j]) * sg[j]
                # the driver hands scipy infinite values for missing sides (since 2d4cb2f); the control does the same so
                # that it stays a like-for-like statement of the problem
                cons.append(NonlinearConstraint(gs, -np.inf if lo <= -big else lo, np.inf if up >= big else up, jac=dgs))
    blo = np.where(np.isfinite(P.xlo), (P.xlo + ax) * sx, -np.inf)
    bup = np.where(np.isfinite(P.xup), (P.xup + ax) * sx, np.inf)
    if opt in OLD_STYLE:
        bounds = [(None if not np.isfinite(a) else a, None if not np.isfinite(b) else b) for a, b in zip(blo, bup)]
    else:
        bounds = Bounds(blo, bup, keep_feasible=True)
    options = dict(opt_settings(case), disp=False)
    options.setdefault('maxiter', 200)
    x0s = (P.x0 + ax) * sx
    try:
        r = minimize(fun, x0s, method=opt, jac=jac if opt in GRAD_OPTS else None, bounds=bounds, constraints=cons,
                     tol=case['tol'], options=options)
    except Exception:
        return None
    return unsc(np.asarray(r.x, dtype=float))


# ---------------------------------------------------------------------------------------------
# oracle
# ---------------------------------------------------------------------------------------------

X0_INFEASIBLE = 'is infeasible with respect to some inequality constraint'


def feas_tol_method(case):
    t = case['tol']
    if case['opt'] == 'COBYLA':
        t = max(t, 1.5e-8)
    elif case['opt'] == 'COBYQA':
        t = max(t, 1e-8)
    return t


def _first_tag(cause, keys=None):
    order = [F9E, F9D, F9B, F9A]
    tags = {cause[k] for k in (keys if keys is not None else cause)}
    for t in order:
        if t in tags:
            return t
    return None


def judge_run(case, P, run, xstar, res, label):
    """Judge one driver run.  Returns the judged design (or None when the run is not judged for optimality)."""
    opt = case['opt']
    drop, shift, cause, exc_tags, general = as_implemented(case, P, run['dv_a'], run['con_a'])
    run['tags'] = sorted(set(cause.values()) | exc_tags | ({general} if general else set()))
    if 'exc' in run:
        e = run['exc']
        msg = f"{type(e).__name__}: {e}"
        sig = core.repo_frame_signature(e, 'exc')
        if sig is None:
            raise e
        if F9E in exc_tags and 'must be broadcastable' in str(e):
            res.fail(F9E + '|' + sig, f"[{label}] {msg}")
        elif shift and X0_INFEASIBLE in str(e):
            res.fail(F9D + '|exc:feasible-start-reported-infeasible', f"[{label}] {msg}; constant terms ignored: {shift}")
        else:
            res.fail(sig, f"[{label}] {msg}")
        return None
    if not run['success']:
        return None
    sres = run['sres']
    xm = run['x_model']
    eps = np.finfo(float).eps
    # (a) model state == returned design
    xs = run['x_res']
    xu = xs / run['dv_s'] - run['dv_a']
    tol_a = 16 * eps * (np.abs(xs / run['dv_s']) + np.abs(run['dv_a'])) + 1e-300
    xj = xm
    if xs.shape != xm.shape or np.any(np.abs(xu - xm) > tol_a):
        ev = run['evals']
        evaluated = bool(len(ev)) and bool(np.any(np.all(np.abs(np.array(ev) - xu[None, :]) <= tol_a[None, :], axis=1)))
        last = bool(len(ev)) and bool(np.all(ev[-1] == xm))
        if opt != 'SLSQP' and evaluated and last:
            # the returned design is one of the evaluated points, the model simply stays at the last evaluated one
            res.fail(F9C + '|state:model-left-at-last-trial-point',
                     f"[{label}] {opt}: result.x unscaled {xu.tolist()} model {xm.tolist()}")
            xj = xu
        else:
            res.fail('state:desvars-differ-from-returned-x',
                     f"[{label}] {opt}: result.x unscaled {xu.tolist()} model {xm.tolist()} (returned x evaluated: {evaluated})")
    fm = P.sign * f_ref(P, xm)
    mag = 1.0 + abs(fm) + float(np.abs(xm) @ np.abs(P.Q) @ np.abs(xm)) + float(np.abs(P.c) @ np.abs(xm))
    if abs(run['f_model'] - fm) > 1e-12 * mag:
        res.fail('state:objective-output-stale', f"[{label}] {opt}: model f {run['f_model']!r} reference at model x {fm!r}")
    for C, ym in zip(P.cons, run['y_model']):
        yr = g_ref(C, xm, full=True)
        magy = 1.0 + np.abs(C.A) @ np.abs(xm) + np.abs(C.b) + 0.5 * np.abs(C.w) * (xm @ xm)
        if np.any(np.abs(ym - yr) > 1e-12 * magy):
            res.fail('state:constraint-output-stale', f"[{label}] {opt}: model {C.name} {ym.tolist()} reference {yr.tolist()}")
    # third-party looseness: not judged further
    tfe = feas_tol_method(case)
    own = getattr(sres, 'maxcv', None)
    if own is None:
        own = getattr(sres, 'constr_violation', None)
    if own is not None and own > 10 * tfe:
        res.classes.append('optimizer_own_violation_above_tol')
        return None
    if opt == 'trust-constr' and getattr(sres, 'status', 1) == 2:
        res.classes.append('tc_xtol_termination')
    # (b) feasibility by the reference g, model units, at the judged design
    violated = []
    det = []
    for K, C in enumerate(P.cons):
        g = g_ref(C, xj)
        s = run['con_s'][K]
        tb = 10 * tfe / np.minimum(1.0, s) + 1e-12 * (1.0 + np.abs(g))
        for j in range(C.size):
            if C.eq:
                if abs(g[j] - C.equals[j]) > tb[j]:
                    violated.append((K, j, 'E'))
                    det.append(f"{C.name}[{j}]={float(g[j])!r} equals {float(C.equals[j])!r}")
            else:
                if g[j] < C.lo[j] - tb[j]:
                    violated.append((K, j, 'L'))
                    det.append(f"{C.name}[{j}]={float(g[j])!r} < lower {float(C.lo[j])!r}")
                if g[j] > C.up[j] + tb[j]:
                    violated.append((K, j, 'U'))
                    det.append(f"{C.name}[{j}]={float(g[j])!r} > upper {float(C.up[j])!r}")
    tx = 10 * tfe / np.minimum(1.0, run['dv_s']) + 1e-12 * (1.0 + np.abs(xj))
    for i in range(P.n):
        if xj[i] < P.xlo[i] - tx[i]:
            violated.append(('x', i, 'L'))
            det.append(f"x[{i}]={float(xj[i])!r} < lower {float(P.xlo[i])!r}")
        if xj[i] > P.xup[i] + tx[i]:
            violated.append(('x', i, 'U'))
            det.append(f"x[{i}]={float(xj[i])!r} > upper {float(P.xup[i])!r}")
    if violated:
        ckeys = [k if k in cause else ('shift', k[0]) for k in violated]
        if all(k in cause for k in ckeys):
            res.fail(_first_tag(cause, ckeys) + '|feasibility:bound-not-imposed-violated',
                     f"[{label}] {opt} success, " + '; '.join(det))
        elif general:
            res.fail(general + '|feasibility:bound-violated-on-success', f"[{label}] {opt} success, " + '; '.join(det))
        else:
            res.fail('feasibility:bound-violated-on-success', f"[{label}] {opt} success, " + '; '.join(det))
    # (c) optimality
    # 1e-4 relative, plus what an objective decrease of `tol` (driver units) can hide: s_f*lambda_min(Q)/2*|dx|^2 <= tol
    tc = 1e-4 * max(1.0, float(np.max(np.abs(xstar)))) + \
        2.0 * math.sqrt(2.0 * case['tol'] / (abs(run['f_s']) * float(np.linalg.eigvalsh(P.Q)[0])))
    if opt == 'trust-constr':
        # scipy's interior-point method meets its gtol test on the central path, before the barrier parameter is small
        tc = max(tc, 5e-3 * max(1.0, float(np.max(np.abs(xstar)))))
    err = float(np.max(np.abs(xj - xstar)))
    if err > tc:
        ximpl = None
        if cause:
            ximpl, _ = ref_solve(shifted_problem(P, shift), drop=drop)
        if ximpl is not None and float(np.max(np.abs(xj - ximpl))) <= 1e-4 * max(1.0, float(np.max(np.abs(ximpl)))):
            res.fail(_first_tag(cause) + '|optimum:of-the-problem-actually-imposed',
                     f"[{label}] {opt}: design {xj.tolist()} optimum {xstar.tolist()} optimum without the lost/shifted "
                     f"bounds {ximpl.tolist()}")
        elif _control_inaccurate(case, P, run, xstar, tc):
            # the optimizer itself stops away from the optimum on this problem (no optimality claim behind 'success')
            res.classes.append('optimizer_inaccurate_in_control_too')
            return None
        elif general:
            res.fail(general + '|optimum:design-differs-from-qp-optimum',
                     f"[{label}] {opt}: design {xj.tolist()} optimum {xstar.tolist()} err {err:.3e} tol {tc:.1e} "
                     f"status {getattr(sres, 'status', None)} msg {str(getattr(sres, 'message', ''))[:80]}")
        else:
            res.fail('optimum:design-differs-from-qp-optimum',
                     f"[{label}] {opt}: design {xj.tolist()} optimum {xstar.tolist()} err {err:.3e} tol {tc:.1e} "
                     f"status {getattr(sres, 'status', None)} msg {str(getattr(sres, 'message', ''))[:80]} tags {run['tags']}")
    run['tc'] = tc
    return xj


def _control_inaccurate(case, P, run, xstar, tc):
    xc = control_run(case, P, run)
    return xc is not None and float(np.max(np.abs(xc - xstar))) > tc


def check(case):
    res = Result()
    P = decode(case)
    opt = case['opt']
    cls = [opt]
    xstar, active = ref_solve(P)
    if xstar is None:
        res.discard = 'reference-not-certified'
        res.classes = cls
        return res
    mixed = any(C.size > 1 and len(set(zip(np.isfinite(C.lo).tolist(), np.isfinite(C.up).tolist()))) > 1 for C in P.cons)
    con_active = [k for k in active if k[0] != 'x'] + [1 for C in P.cons if C.eq]
    if mixed:
        cls.append('mixed_pattern')
    if con_active:
        cls.append('active')
    if any(k[0] == 'x' for k in active):
        cls.append('dv_bound_active')
    if any(C.linear for C in P.cons):
        cls.append('linear_true')
    if any(C.eq for C in P.cons):
        cls.append('equality')
    if any(C.idx is not None for C in P.cons):
        cls.append('indices')
    if any(np.any(C.w[C.sel] != 0) for C in P.cons):
        cls.append('nonlinear')
    if any(C.size > 1 for C in P.cons):
        cls.append('array_constraint')
    if P.split:
        cls.append('two_desvars')
    res.classes = cls
    designs = []
    tcs = []
    nsucc = 0
    nclean = 0
    tags = set()
    for label, scal in zip(('A', 'B'), case['sc']):
        run = run_om(case, P, scal)
        if run.get('success'):
            nsucc += 1
        xj = judge_run(case, P, run, xstar, res, label)
        tags.update(run['tags'])
        if run.get('success') and not run['tags']:
            nclean += 1
        if xj is not None:
            designs.append(xj)
            tcs.append(run['tc'])
        if scal and (any(scal.get(k) for k in ('x', 'z', 'f')) or any(scal.get('g') or [])):
            if 'scaled' not in res.classes:
                res.classes.append('scaled')
    for t in sorted(tags):
        res.classes.append('known_' + t.split('-')[0])
    if nsucc:
        res.classes.append('success')
        res.classes.append('success_' + opt)
    if nclean:
        res.classes.append('success_outside_known_predicates')
        res.classes.append('clean_' + opt)
    if nsucc == 0 and not res.violations:
        res.discard = res.discard or f"optimizer-reported-failure:{opt}"
    if len(designs) == 2 and not any('optimum' in s for s, _ in res.violations):
        d = float(np.max(np.abs(designs[0] - designs[1])))
        if d > sum(tcs):
            res.fail('scaling:designs-differ-between-scalings', f"{opt}: A {designs[0].tolist()} B {designs[1].tolist()}")
    res.nontrivial = bool(nsucc and mixed and con_active)
    return res


# ---------------------------------------------------------------------------------------------
# generator
# ---------------------------------------------------------------------------------------------

def available_optimizers():
    from openmdao.drivers.scipy_optimizer import _optimizers
    opts = ['SLSQP', 'COBYLA', 'trust-constr']
    if 'COBYQA' in _optimizers:
        opts.append('COBYQA')
    return opts


def strategy(tier, opts):
    from hypothesis import strategies as st

    num = st.sampled_from([0.25, 0.5, 2.0, 4.0, 10.0])
    off = st.sampled_from([-2.0, -0.5, 0.0, 1.0, 3.0])

    @st.composite
    def scal_spec(draw, size, noadd=False):
        kind = draw(st.sampled_from(['none', 'sa', 'sa', 'ref']))
        if kind == 'none':
            return None
        if noadd:
            # multiplicative scaling only (keeps a homogeneous linear constraint homogeneous in driver units)
            if size > 1 and draw(st.booleans()):
                v = [draw(num) for _ in range(size)]
            else:
                v = draw(num)
            return {'kind': 'sa', 'scaler': v} if kind == 'sa' else {'kind': 'ref', 'ref': v}
        arr = size > 1 and draw(st.booleans())

        def val(s):
            if arr:
                return [draw(s) for _ in range(size)]
            return draw(s)
        if kind == 'sa':
            sp = {'kind': 'sa'}
            which = draw(st.sampled_from(['s', 'a', 'sa']))
            if 's' in which:
                sp['scaler'] = val(num)
            if 'a' in which:
                sp['adder'] = val(off)
            return sp
        sp = {'kind': 'ref'}
        which = draw(st.sampled_from(['r', 'r0', 'rr0']))
        r0 = val(off) if '0' in which else None
        if which != 'r0':
            width = val(num)
            if r0 is None:
                sp['ref'] = width
            elif arr:
                sp['ref'] = [a + b for a, b in zip(r0, width)]
            else:
                sp['ref'] = r0 + width
        if r0 is not None:
            sp['ref0'] = r0
            if 'ref' not in sp:
                # ref defaults to 1: keep ref > ref0
                sp['ref0'] = [min(v, 0.0) for v in r0] if arr else min(r0, 0.0)
        return sp

    @st.composite
    def case(draw):
        opt = draw(st.sampled_from(opts_weighted))
        n = draw(st.integers(1, 5))
        ints = lambda lo, hi, k: [draw(st.integers(lo, hi)) for _ in range(k)]
        c = {'opt': opt, 'n': n, 'd': draw(st.integers(1, 3)), 'M': ints(-2, 2, n * n), 'c': ints(-8, 8, n),
             'xf': ints(-6, 6, n), 'dx0': ints(-4, 4, n), 'split': draw(st.integers(0, n - 1)) if n > 1 else 0,
             'ivc': draw(st.booleans()), 'neg_obj': draw(st.integers(0, 4)) == 0,
             'tol': draw(st.sampled_from([1e-10, 1e-11, 1e-12] if opt == 'SLSQP' else [1e-8, 1e-9, 1e-10]))}
        ncon = draw(st.sampled_from([1, 1, 2, 2, 3]))
        cons = []
        neq = 0
        # search behind the known findings: new-style optimizers with size-1 constraints only, trust-constr with
        # homogeneous linear constraints (no constant term in driver units)
        scalar_cons = opt in NEW_STYLE and draw(st.booleans())
        homog = opt == 'trust-constr' and draw(st.booleans())
        for K in range(ncon):
            m = draw(st.integers(1, 5))
            use_idx = draw(st.booleans())
            if scalar_cons and not use_idx:
                m = 1
            if use_idx:
                k = 1 if scalar_cons else draw(st.integers(1, min(4, m)))
                perm = draw(st.permutations(list(range(m))))[:k]
                idx = [(i - m) if draw(st.integers(0, 3)) == 0 else i for i in perm]
            else:
                m = min(m, 4)
                k = m
                idx = None
            eq = opt in EQ_OK and neq + k < n and draw(st.integers(0, 4)) == 0
            if eq:
                neq += k
            style = draw(st.sampled_from(['mixed', 'mixed', 'mixed', 'uniform']))
            if style == 'uniform':
                pat = [draw(st.sampled_from(['L', 'U', 'B']))] * k
            else:
                pat = [draw(st.sampled_from(['L', 'U', 'B', 'B', 'N'])) for _ in range(k)]
                if all(p == 'N' for p in pat):
                    pat[0] = 'U'
            linear = draw(st.integers(0, 2)) == 0
            cs = {'A': ints(-4, 4, m * n), 'b': [0] * m if (homog and linear) else ints(-6, 6, m),
                  'w': [0] * m if linear else [draw(st.sampled_from([0, 0, 1, 2])) for _ in range(m)],
                  'idx': idx, 'eq': eq, 'pat': pat, 'ml': ints(0, 12, k), 'mu': ints(0, 12, k),
                  'form_l': draw(st.sampled_from(['scalar', 'array'])), 'form_u': draw(st.sampled_from(['scalar', 'array'])),
                  'form_e': draw(st.sampled_from(['scalar', 'array'])),
                  'inf_l': draw(st.sampled_from(['none', '1e30', 'npinf'])),
                  'inf_u': draw(st.sampled_from(['none', '1e30', 'npinf'])), 'linear': linear}
            cons.append(cs)
        c['cons'] = cons
        if draw(st.booleans()):
            c['dvb'] = {'pat': [draw(st.sampled_from(['L', 'U', 'B', 'N', 'N'])) for _ in range(n)],
                        'ml': ints(0, 12, n), 'mu': ints(0, 12, n),
                        'form_l': draw(st.sampled_from(['scalar', 'array'])), 'form_u': draw(st.sampled_from(['scalar', 'array'])),
                        'inf_l': draw(st.sampled_from(['none', '1e30'])), 'inf_u': draw(st.sampled_from(['none', '1e30']))}
        sizes = {'x': (c['split'] or n), 'z': n - c['split'] if c['split'] else 0}
        ksel = [len(cs['idx']) if cs['idx'] is not None else len(cs['b']) for cs in cons]
        scs = []
        for which in range(2):
            if which == 1 and draw(st.integers(0, 2)) == 0:
                scs.append(None)
                continue
            sp = {'x': draw(scal_spec(sizes['x'], homog)), 'f': draw(scal_spec(1)),
                  'g': [draw(scal_spec(k, homog and cs['linear'])) for k, cs in zip(ksel, cons)]}
            if sizes['z']:
                sp['z'] = draw(scal_spec(sizes['z'], homog))
            scs.append(sp)
        c['sc'] = scs
        return c

    w = {'SLSQP': 6, 'COBYLA': 2, 'trust-constr': 2, 'COBYQA': 1}
    opts_weighted = [o for o in opts for _ in range(w[o])]
    return case()


def units(tier, seed):
    # few, long units: importing OpenMDAO + scipy + Hypothesis dominates the cost of a short unit
    nunits = 4 if tier == 'quick' else 32
    per = 60 if tier == 'quick' else 600
    return [{'kind': 'random', 'n': per, 'seed': core.shard_seed(seed, ID, i)} for i in range(nunits)]


def run_unit(unit, ctx):
    core.run_hypothesis(ctx, strategy(unit.get('tier'), available_optimizers()), check, unit['n'], unit['seed'],
                        shrink=unit.get('tier') == 'thorough')
