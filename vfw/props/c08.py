"""C08  Solver scaling never changes physical results.

Oracle : metamorphic - the same spec with and without ref/ref0/res_ref on its outputs must converge to the same
         physical outputs, inputs and totals - paired with the absolute reference of C01.
"""
import copy

import numpy as np

from vfw import core
from vfw.core import Result

ID = 'C08'
LEVEL = 'exploration'
TECHNIQUE = 'Hypothesis-generated model programs with drawn ref/ref0/res_ref; scaled-vs-unscaled metamorphic relation + independent reference'
RULE = ("case = model spec (see C01, with feedback loops, Newton/NLBGS/NLBJ stacks, units, src_indices) + a drawn assignment "
        "of ref (scalar or per-element array, magnitudes 0.01..250, both signs), ref0 and res_ref to a subset of outputs. "
        "The spec is run unscaled and scaled from the same initial values in fwd and rev mode. Non-trivial = at least one "
        "scaled output inside an iterating solver loop, or a scaled output feeding a connection with a unit conversion or "
        "src_indices. Distinct = distinct canonical JSON.")
ASSUMPTIONS = [
    "only converged-vs-converged runs are compared (scaling legitimately changes convergence rates and norms); an "
    "AnalysisError in either run discards the case",
    "tolerances as in C01 (1e-9*max(1,cond)); both runs are also compared with the reference, so a common error cannot pass",
]
MIN_CLASS_FRACTION = {'judged': 0.4}


def strip_scaling(spec):
    s = copy.deepcopy(spec)
    for c in s['comps']:
        for v in c['outputs']:
            for k in ('ref', 'ref0', 'res_ref'):
                v.pop(k, None)
    return s


def scaled_outputs(spec):
    out = set()
    for c in spec['comps']:
        for v in c['outputs']:
            if any(v.get(k) is not None for k in ('ref', 'ref0', 'res_ref')):
                out.add('.'.join(c['path'] + [c['name'], v['name']]))
    return out


def check(case):
    import openmdao.api as om
    from vfw.gen_model import build_problem
    from vfw.refmodel import RefModel
    from vfw.props.c01 import spec_flags, known_sigs_for, tag
    spec = case['spec']
    q = case['query']
    res = Result()
    flags = spec_flags(spec)
    cls = sorted(flags)
    known = known_sigs_for(spec, flags, q)
    ref = RefModel(spec)
    sc = scaled_outputs(spec)
    if not sc:
        res.classes = cls + ['no_scaling_drawn']
        return res
    results = {}
    for label, sp in (('unscaled', strip_scaling(spec)), ('scaled', spec)):
        for mode in ('fwd', 'rev'):
            try:
                p, _ = build_problem(sp, mode=mode)
                p.final_setup()
                p.run_model()
                J = np.asarray(p.compute_totals(of=q['of'], wrt=q['wrt'], return_format='array'))
            except om.AnalysisError:
                res.discard = 'nonconverged-' + label
                res.classes = cls + ['nonconverged']
                return res
            except Exception as e:
                if isinstance(e, ValueError) and 'infs or NaNs' in str(e):
                    # a diverging Newton iteration handed non-finite values to the LU solve: not a converged model
                    res.discard = 'nonfinite'
                    res.classes = cls + ['nonfinite']
                    return res
                sig = core.repo_frame_signature(e, 'run-' + label)
                if sig is None:
                    raise
                res.fail(tag(known, sig), f"{label}/{mode}: {type(e).__name__}: {e}")
                res.classes = cls
                return res
            u = np.zeros(ref.nu)
            for n, m in ref.uvars.items():
                u[m['off']:m['off'] + m['size']] = np.asarray(p.get_val(n)).ravel()
            ins = {}
            for c in ref.comps:
                for v in c['inputs']:
                    an = '.'.join(c['path'] + [c['name'], v['name']])
                    ins[an] = np.asarray(p.get_val(an, from_src=False)).ravel().copy()
            results[label, mode] = (u, J, ins)
    u0 = results['unscaled', 'fwd'][0]
    if not np.all(np.isfinite(u0)):
        res.discard = 'nonfinite'
        return res
    u_ref, rn = ref.solve(u0, ref.x0)
    if not rn < 1e-10:
        res.discard = 'reference-newton-failed'
        return res
    dudx, cond = ref.totals(u_ref, ref.x0)
    if not np.isfinite(cond) or cond > 1e8:
        res.discard = 'ill-conditioned'
        return res
    ofs = [ref.var_positions(n) for n in q['of']]
    wrts = [ref.var_positions(n) for n in q['wrt']]
    Jref = np.block([[ref.total_block(dudx, (ok, op), (wk, wp)) for (wk, wp, _) in wrts] for (ok, op, _) in ofs])
    scale = 1.0 + float(np.max(np.abs(u_ref))) if u_ref.size else 1.0
    utol = 1e-9 * max(1.0, cond) * scale
    jtol = 1e-9 * max(1.0, cond) * (float(np.max(np.abs(Jref))) if Jref.size else 0.0) + 1e-11 + \
        8 * np.finfo(float).eps * max(1.0, cond) * (1.0 + ref.totals_scale(u_ref, ref.x0))   # round-off floor, see C01
    for (label, mode), (u, J, ins) in results.items():
        if not np.all(np.isfinite(u)):
            res.fail(tag(known, f"outputs-nonfinite-{label}"), f"{label}/{mode}")
            continue
        e = float(np.max(np.abs(u - u_ref))) if u.size else 0.0
        if e > utol:
            res.fail(tag(known, f"outputs:{label}-differ-from-reference"), f"{label}/{mode}: max err {e:.3e} tol {utol:.3e}")
        ej = float(np.max(np.abs(J - Jref))) if J.size else 0.0
        if J.shape != Jref.shape or ej > jtol:
            res.fail(tag(known, f"totals:{label}-differ-from-reference"),
                     f"{label}/{mode}: max err {ej:.3e} tol {jtol:.3e}\nJ={J.tolist()}\nJref={Jref.tolist()}")
        for an, val in ins.items():
            exp = ref.input_val(an, u_ref, ref.x0)
            m = ref.inmap[an]
            # an input carries the error allowed for its source (utol) multiplied by the unit factor of the connection
            t = 1e-8 * max(1.0, cond) * (np.abs(exp) + abs(m.get('o', 0.0)) + 1.0) + 10.0 * abs(m.get('f', 1.0)) * utol
            if val.shape != exp.shape or np.any(np.abs(val - exp) > t):
                res.fail(tag(known, f"inputs:{label}-differ-from-reference"), f"{label}/{mode} {an}: {val.tolist()} vs {exp.tolist()}")
                break
    # non-triviality
    in_loop = False
    for key, g in spec['groups'].items():
        if g.get('nl') and g['nl'] != 'runonce':
            pre = key + '.' if key else ''
            if any(n.startswith(pre) for n in sc):
                in_loop = True
    conv_conn = False
    for cn in spec['conns']:
        if cn['src'] in sc and (cn.get('idx') is not None):
            conv_conn = True
    res.nontrivial = in_loop or conv_conn or ('unit_factor' in flags)
    res.classes = cls + ['judged'] + (['scaled_in_loop'] if in_loop else []) + (['scaled_src_indices'] if conv_conn else [])
    return res


def strategy(tier):
    from hypothesis import strategies as st
    from vfw.gen_spec import model_spec, profile

    @st.composite
    def case(draw):
        spec = draw(model_spec(profile(out_scaling=True, p_feedback=0.6, max_comps=4)))
        outs = ['.'.join(c['path'] + [c['name'], v['name']]) for c in spec['comps'] if c['kind'] != 'ivc' for v in c['outputs']]
        ins = ['.'.join(c['path'] + [c['name'], v['name']]) for c in spec['comps'] if c['kind'] == 'ivc' for v in c['outputs']]
        of = draw(st.lists(st.sampled_from(outs), min_size=1, max_size=3, unique=True))
        wrt = draw(st.lists(st.sampled_from(ins), min_size=1, max_size=2, unique=True))
        return {'spec': spec, 'query': {'of': of, 'wrt': wrt}}
    return case()


def units(tier, seed):
    n = 16 if tier == 'quick' else 32
    per = 30 if tier == 'quick' else 300
    return [{'kind': 'random', 'n': per, 'seed': core.shard_seed(seed, ID, i)} for i in range(n)]


def run_unit(unit, ctx):
    core.run_hypothesis(ctx, strategy(unit.get('tier')), check, unit['n'], unit['seed'], shrink=unit.get('tier') == 'thorough')
