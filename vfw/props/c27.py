"""C27  Option declarations are enforced and temporary values always restored.

Domain : operation lists (declare / assign / set / update / get / temporary (normal exit, exception in the
         body, rejected kwarg on entry, nested) / read-only switch / undeclare) generated as JSON by Hypothesis
         and interpreted against a real OptionsDictionary.
Oracle : a Python-dict reference model + a validity function written from the `declare` docstring.
"""
import warnings

from vfw import core
from vfw.core import Result

ID = 'C27'
LEVEL = 'exploration'
TECHNIQUE = ('stateful model-based testing: Hypothesis-generated operation lists interpreted against '
             'OptionsDictionary and a dict reference model written from the declare() docstring')
RULE = ("case = {read_only, parent, ops}; ops is a JSON list over declare(name, drawn declaration: values as "
        "list/tuple/set, types incl. tuples, bool and list(+values), lower/upper, allow_none, check_valid, "
        "set_function, deprecation str or (msg, alias), default/required/invalid default), assign, set(**kw), "
        "update(dict), get, temporary(**kw){body ops; optional exception propagating through 1-2 levels} nested to "
        "depth 3, read-only switch, undeclare. Values are drawn from the declaration of the addressed option so "
        "that about two thirds are valid and the rest straddle the boundary (neighbour of a bound, equal-but-"
        "other-type, wrong type, None, non-member). After every operation every option is read back and compared "
        "with the model. Non-trivial = the sequence contains a temporary() left by an exception (body or rejected "
        "kwarg on entry) or a rejected assignment that follows a successful one. Distinct = distinct canonical "
        "JSON of the case.")
ASSUMPTIONS = [
    "validity is the declare() docstring: member of values (Python `in`); isinstance(value, types); types=list with "
    "values means a list whose items are all members; lower <= value <= upper; None allowed iff allow_none or "
    "default=None; check_valid raising means invalid",
    "exception classes are judged only where the repository's own tests pin them (values/bounds ValueError, types "
    "TypeError, undeclared/read-only/missing alias KeyError, unset required option RuntimeError); for types=bool "
    "either ValueError or TypeError is accepted",
    "set(**kw) / update(dict) are sequential assignments (no atomicity is demanded)",
    "set_function is applied to values that are valid both before and after it and is idempotent (like the "
    "documented units_setter); a value whose validity differs before/after set_function is not judged",
    "values not comparable with a declared bound (str/None/list against a number) are not judged",
    "`types` given as a list/set of types is not generated (docstring: type or tuple of types)",
    "a rejected declare() leaves the option in an unspecified state: the harness undeclares it before going on",
    "a deprecated option must warn on its first use; later uses are not judged; alias chains are not generated",
    "body operations of temporary() do not declare/undeclare options or switch read-only",
]
BOUND = {'quick': '16 x 3000 operation lists (<= 4+10 top-level operations, bodies <= 3, nesting <= 3)',
         'thorough': '16 x 60000 operation lists'}
MIN_CLASS_FRACTION = {'in_temp': 0.6, 'in_temp_raise': 0.3, 'in_temp_no_raise': 0.4, 'in_temp_nested': 0.15,
                      'in_temp_multi_kwargs': 0.4, 'in_decl_alias': 0.2, 'in_read_only': 0.05, 'in_decl_bounds': 0.3,
                      'in_decl_values': 0.4, 'in_decl_types': 0.6, 'in_decl_bool': 0.1, 'in_decl_check_valid': 0.15,
                      'in_decl_set_function': 0.15, 'in_assign': 0.6, 'in_set': 0.2, 'in_update': 0.2,
                      'in_undeclare': 0.1}

TYPES = {'int': int, 'float': float, 'str': str, 'bool': bool, 'list': list, 'num': (int, float),
         'numstr': (int, float, str), 'object': object}
NAMES = ['a', 'b', 'c', 'd']
DEP_NAMES = ['old1', 'old2']

ANY = 'any'     # marker: any exception class is acceptable


# ---------------------------------------------------------------------------------------------
# user-supplied functions (shared by the real dictionary and the model: they are *inputs*)
# ---------------------------------------------------------------------------------------------

def make_check_valid(spec):
    if spec is None:
        return None
    k = spec['k']
    if k == 'template':
        from openmdao.utils.options_dictionary import check_valid
        return check_valid
    if k == 'even':
        def check_even(name, value):
            if isinstance(value, int) and not isinstance(value, bool) and value % 2 != 0:
                raise ValueError(f"Option '{name}' with value {value} is not an even number.")
        return check_even
    if k == 'maxlen':
        n = spec['n']

        def check_len(name, value):
            if isinstance(value, (str, list)) and len(value) > n:
                raise IndexError(f"Option '{name}' with value {value} is too long.")
        return check_len
    raise ValueError(spec)


_FACT = {'m': 100.0, 'cm': 1.0}


def make_set_function(kind):
    if kind is None:
        return None
    if kind == 'abs':
        return lambda meta, value: abs(value) if isinstance(value, (int, float)) and not isinstance(value, bool) else value
    if kind == 'upper':
        return lambda meta, value: value.upper() if isinstance(value, str) else value
    if kind == 'units':
        def units_setter(meta, value):      # analogue of the documented units_setter
            x, u = value
            old, units = meta['val']
            if u == units:
                return [x, units]
            return [x * _FACT[u] / _FACT[units], units]
        return units_setter
    raise ValueError(kind)


# ---------------------------------------------------------------------------------------------
# reference model
# ---------------------------------------------------------------------------------------------

def same(a, b):
    if type(a) is not type(b):
        return False
    if isinstance(a, list):
        return len(a) == len(b) and all(same(x, y) for x, y in zip(a, b))
    return a == b


def decl_allow_none(d):
    return bool(d['allow_none']) or (d['has_default'] and d['default'] is None)


def decl_values(d):
    if d['values'] is None:
        return None
    k = d.get('values_kind', 'list')
    if k == 'tuple':
        return tuple(d['values'])
    if k == 'set':
        return set(d['values'])
    return list(d['values'])


def judge_raw(d, value, cv):
    """('valid'|'invalid'|'either', allowed exception classes) from the declare() docstring."""
    fails = []
    either = False
    if not (value is None and decl_allow_none(d)):
        values = decl_values(d)
        types = TYPES[d['types']] if d['types'] else None
        if types is bool:
            if not isinstance(value, bool):
                fails += [ValueError, TypeError]
        elif values is not None:
            if types is list:
                if not isinstance(value, list):
                    fails.append(ANY)
                else:
                    try:
                        if any(v not in values for v in value):
                            fails.append(ValueError)
                    except TypeError:
                        fails.append(ANY)
            else:
                try:
                    if value not in values:
                        fails.append(ValueError)
                except TypeError:          # unhashable candidate against a set
                    fails.append(ANY)
        elif types is not None:
            if not isinstance(value, types):
                fails.append(TypeError)
        for key in ('upper', 'lower'):
            b = d[key]
            if b is None:
                continue
            if isinstance(value, (int, float)):
                if (value > b) if key == 'upper' else (value < b):
                    fails.append(ValueError)
            else:
                either = True       # not comparable with the bound: not judged
    if cv is not None:
        try:
            cv(d['name'], value)
        except Exception as e:
            fails.append(type(e))
    if fails:
        return 'invalid', fails
    if either:
        return 'either', [ANY]
    return 'valid', []


def known_bool(d, value):
    """types=bool and a non-bool number equal to True/False (0, 1, 0.0, 1.0)."""
    return d['types'] == 'bool' and not isinstance(value, bool) and isinstance(value, (int, float)) \
        and value in (0, 1)


def known_list_nonlist(d, value):
    """types=list with values, and a str whose characters are all members (incl. the empty str)."""
    return d['types'] == 'list' and d['values'] is not None and isinstance(value, str) \
        and all(ch in d['values'] for ch in value)


class Opt(object):
    __slots__ = ('decl', 'val', 'isset', 'warned', 'tainted', 'cv', 'sf')

    def __init__(self, decl):
        self.decl = decl
        self.val = decl['default'] if decl['has_default'] else None
        self.isset = bool(decl['has_default'])
        self.warned = False
        self.tainted = False
        self.cv = make_check_valid(decl['check_valid'])
        self.sf = make_set_function(decl['set_function'])


class _Stop(Exception):
    pass


class _Body(Exception):
    def __init__(self, levels):
        Exception.__init__(self, 'raised in the body of temporary()')
        self.levels = levels


class Interp(object):
    def __init__(self, case, res):
        from openmdao.utils.options_dictionary import OptionsDictionary
        self.res = res
        self.cls = set()
        self.o = OptionsDictionary(parent_name=case.get('parent'), read_only=bool(case.get('read_only')))
        self.read_only = bool(case.get('read_only'))
        self.m = {}                 # name -> Opt
        self.success_seen = False
        self.nontrivial = False
        self.exc_keys = []          # stack of sets: kwarg keys of temporaries left exceptionally inside a body

    # -- helpers ---------------------------------------------------------------------------------
    def call(self, fn):
        with warnings.catch_warnings(record=True) as w:
            warnings.simplefilter('always')
            try:
                return 'ok', fn(), w
            except _Body:
                raise
            except _Stop:
                raise
            except Exception as e:
                return 'exc', e, w

    def fail(self, sig, detail, stop=True):
        self.res.fail(sig, detail)
        if stop:
            raise _Stop()

    def class_ok(self, e, classes):
        if ANY in classes:
            return True
        return isinstance(e, tuple(classes))

    def mismatches(self):
        out = []
        o = self.o
        real = set(iter(o))
        mod = set(self.m)
        if real != mod:
            out.append(('<declared names>', sorted(real), sorted(mod)))
        for name in mod & real:
            if (name in o) is not True:
                out.append((name, '`name in options` is False', 'True'))
        items = None
        for name, st in self.m.items():
            if st.tainted or name not in real:
                continue
            dep = st.decl['deprecation']
            if dep is not None:
                # read without consuming the first-use warning: items() yields the stored values
                if not isinstance(dep, list) and st.isset:
                    if items is None:
                        items = dict(o.items())
                    if name not in items or not same(items[name], st.val):
                        out.append((name, repr(items.get(name, '<missing from items()>')), repr(st.val)))
                continue
            kind, got, _ = self.call(lambda: o[name])
            if not st.isset:
                if not (kind == 'exc' and isinstance(got, RuntimeError)):
                    out.append((name, repr(got), 'RuntimeError (required, not set)'))
            elif kind == 'exc':
                out.append((name, f"{type(got).__name__}: {got}", repr(st.val)))
            elif not same(got, st.val):
                out.append((name, repr(got), repr(st.val)))
        return out

    def expect_state(self, sig, ctxt):
        mm = self.mismatches()
        if mm:
            self.fail(sig, f"{ctxt}: " + '; '.join(f"{n}: got {g}, expected {e}" for n, g, e in mm[:4]))

    def resolve(self, name):
        """-> (status, target name, exception classes). status in ok / exc / unspec."""
        st = self.m.get(name)
        if st is None:
            return 'exc', None, [KeyError]
        if st.tainted:
            return 'unspec', name, [ANY]
        dep = st.decl['deprecation']
        if dep is not None and isinstance(dep, list):
            alias = dep[1]
            tgt = self.m.get(alias)
            if tgt is None:
                return 'exc', None, [KeyError]
            if tgt.decl['deprecation'] is not None:
                return 'unspec', alias, [ANY]
            return 'ok', alias, []
        return 'ok', name, []

    def note_warning(self, name, w, required):
        st = self.m.get(name)
        if st is None or st.decl['deprecation'] is None:
            return
        dep = st.decl['deprecation']
        msg = dep[0] if isinstance(dep, list) else dep
        seen = any(msg in str(x.message) for x in w)
        if required and not st.warned and not seen:
            self.fail('deprecation:no-warning-on-first-use', f"option {name!r}: no warning containing {msg!r}")
        if seen or required:
            st.warned = True
        if seen:
            self.cls.add('deprecation_warned')

    def plan_set(self, name, value):
        """Model verdict for o[name] = value  ->  (verdict, target, classes, stored value)."""
        if name not in self.m:
            return 'invalid', None, [KeyError], None
        if self.read_only:
            return 'invalid', None, [KeyError], None
        status, tgt, classes = self.resolve(name)
        if status == 'exc':
            return 'invalid', None, classes, None
        if status == 'unspec' or self.m[tgt].tainted:
            return 'unspec', tgt, [ANY], None
        t = self.m[tgt]
        verdict, classes = judge_raw(t.decl, value, t.cv)
        stored = value
        if t.sf is not None and verdict != 'invalid':
            try:
                stored = t.sf({'val': t.val}, value)
            except Exception:
                return 'unspec', tgt, [ANY], None
            v2, c2 = judge_raw(t.decl, stored, t.cv)
            if v2 != verdict:
                return 'either', tgt, [ANY], stored
        elif t.sf is not None:
            # invalid before set_function: judged only if also invalid (or not computable) afterwards
            try:
                v2, _ = judge_raw(t.decl, t.sf({'val': t.val}, value), t.cv)
            except Exception:
                v2 = 'invalid'
            if v2 != 'invalid':
                return 'either', tgt, [ANY], t.sf({'val': t.val}, value)
        return verdict, tgt, classes, stored

    def sig_for_accept(self, tgt, value):
        d = self.m[tgt].decl
        if known_bool(d, value):
            return 'bool-type-accepts-equal-number'
        if known_list_nonlist(d, value):
            return 'list-values-accepts-str'
        return 'assign:accepts-invalid-value'

    def note_reject_class(self, tgt, value):
        if tgt is None:
            return
        t = self.m[tgt]
        d = t.decl
        v, _ = judge_raw(dict(d, lower=None, upper=None), value, None)
        if v == 'invalid':
            self.cls.add('reject_values' if d['values'] is not None and d['types'] != 'bool' else 'reject_types')
        elif judge_raw(d, value, None)[0] == 'invalid':
            self.cls.add('reject_bounds')
        else:
            self.cls.add('reject_check_valid')

    def apply_one(self, name, value, fn, what):
        """One assignment through `fn` (a thunk on the real object) judged against the model.
        Returns True when the assignment was accepted."""
        verdict, tgt, classes, stored = self.plan_set(name, value)
        kind, out, w = self.call(fn)
        ctxt = f"{what} {name!r} = {value!r}"
        if verdict == 'unspec':
            if tgt is not None and tgt in self.m:
                self.m[tgt].tainted = True
            self.note_warning(name, w, False)
            self.cls.add('unspecified')
            return kind == 'ok'
        if verdict == 'invalid':
            if kind == 'ok':
                if tgt is not None:
                    sig = self.sig_for_accept(tgt, value)
                    if sig != 'assign:accepts-invalid-value':
                        # listed root cause: follow the implementation and go on
                        self.res.fail(sig, f"{ctxt} accepted; declaration {self.m[tgt].decl}")
                        self.m[tgt].val = value
                        self.m[tgt].isset = True
                        self.note_warning(name, w, False)
                        self.expect_state('assign:state-after-known-accept', ctxt)
                        return True
                    self.fail(sig, f"{ctxt} accepted; declaration {self.m[tgt].decl}")
                self.fail('assign:accepts-undeclared-or-read-only', f"{ctxt} accepted")
            if not self.class_ok(out, classes):
                self.fail('assign:wrong-exception-class',
                          f"{ctxt}: {type(out).__name__}: {out}; expected one of {[getattr(c, '__name__', c) for c in classes]}")
            self.note_warning(name, w, False)
            if self.read_only and name in self.m:
                self.cls.add('read_only_reject')
            elif tgt is not None or name in self.m:
                self.cls.add('rejected')
                self.note_reject_class(self.resolve(name)[1], value)
                if self.success_seen:
                    self.cls.add('rejected_after_success')
                    self.nontrivial = True
            else:
                self.cls.add('undeclared_reject')
            self.expect_state('assign:rejected-but-state-changed', ctxt)
            return False
        # valid or either
        if kind == 'exc':
            if verdict == 'either':
                self.cls.add('unspecified')
                self.note_warning(name, w, False)
                self.expect_state('assign:rejected-but-state-changed', ctxt)
                return False
            self.fail('assign:rejects-valid-value',
                      f"{ctxt}: {type(out).__name__}: {out}; declaration {self.m[tgt].decl}")
        t = self.m[tgt]
        t.val = stored
        t.isset = True
        self.success_seen = True
        self.note_warning(name, w, True)
        if tgt != name:
            self.cls.add('alias_set')
        if t.sf is not None:
            self.cls.add('set_function')
        self.expect_state('assign:stored-value-differs', ctxt)
        if verdict == 'either':
            self.cls.add('unspecified')
            t.tainted = True        # the stored value may not satisfy the declaration: not judged any further
        return True

    # -- operations ------------------------------------------------------------------------------
    def exec_ops(self, ops, depth):
        for op in ops:
            getattr(self, 'op_' + op['op'])(op, depth)

    def op_declare(self, op, depth):
        d = op['decl']
        name = d['name']
        o = self.o
        kwargs = {}
        bad = None          # reason the declaration itself must be rejected
        if d['values'] is not None:
            kwargs['values'] = decl_values(d) if d.get('values_kind') != 'scalar' else d['values'][0]
            if d.get('values_kind') == 'scalar':
                bad = 'values-not-a-container'
        if d['types'] is not None:
            kwargs['types'] = TYPES[d['types']]
        if d['values'] is not None and d['types'] is not None and d['types'] != 'list':
            bad = 'types-and-values'
        for k in ('lower', 'upper'):
            if d[k] is not None:
                kwargs[k] = d[k]
        if d['allow_none']:
            kwargs['allow_none'] = True
        if d['has_default']:
            kwargs['default'] = d['default']
        cv = make_check_valid(d['check_valid'])
        if cv is not None:
            kwargs['check_valid'] = cv
        sf = make_set_function(d['set_function'])
        if sf is not None:
            kwargs['set_function'] = sf
        dep = d['deprecation']
        if dep is not None:
            kwargs['deprecation'] = tuple(dep) if isinstance(dep, list) else dep
            if isinstance(dep, list) and len(dep) != 2:
                bad = 'deprecation-tuple-length'
        default_verdict = 'valid'
        if bad is None and d['has_default']:
            default_verdict, _ = judge_raw(d, d['default'], cv)
        kind, out, _ = self.call(lambda: o.declare(name, **kwargs))
        ctxt = f"declare {d}"
        if bad is not None or default_verdict == 'invalid':
            self.cls.add('declare_rejected')
            if kind == 'ok':
                if bad is None and known_bool(d, d['default']):
                    self.res.fail('bool-type-accepts-equal-number', f"{ctxt}: invalid default accepted")
                elif bad is None and known_list_nonlist(d, d['default']):
                    self.res.fail('list-values-accepts-str', f"{ctxt}: invalid default accepted")
                else:
                    self.fail('declare:accepts-invalid-declaration', f"{ctxt} ({bad or 'invalid default'}) accepted")
            # the state of this option is unspecified afterwards (old declaration, new one, or none): the harness
            # removes it through the public interface so that model and object agree again
            o.undeclare(name)
            self.m.pop(name, None)
            self.expect_state('declare:state-after-rejected-declare', ctxt)
            return
        if kind == 'exc':
            self.fail('declare:rejects-valid-declaration', f"{ctxt}: {type(out).__name__}: {out}")
        st = Opt(d)
        st.cv, st.sf = cv, sf
        if default_verdict == 'either':
            st.tainted = True
        self.m[name] = st
        self.cls.add('declare')
        self.expect_state('declare:state', ctxt)

    def op_undeclare(self, op, depth):
        name = op['name']
        kind, out, _ = self.call(lambda: self.o.undeclare(name))
        if kind == 'exc':
            self.fail('undeclare:raises', f"undeclare({name!r}): {type(out).__name__}: {out}")
        if name in self.m:
            self.cls.add('undeclare')
        self.m.pop(name, None)
        self.expect_state('undeclare:state', f"undeclare({name!r})")

    def op_readonly(self, op, depth):
        self.o._read_only = bool(op['flag'])        # the way Driver.supports is frozen in the repository
        self.read_only = bool(op['flag'])

    def op_assign(self, op, depth):
        name, value = op['name'], op['value']
        o = self.o

        def fn():
            o[name] = value
        self.apply_one(name, value, fn, 'assign')

    def _multi(self, op, how):
        kw = [(k, v) for k, v in op['kw']]
        o = self.o
        # sequential semantics: judged one at a time through single-item calls is not the same code path, so
        # call the real method once and replay the model over the items until the first expected rejection
        plans = [self.plan_set(k, v) for k, v in kw]
        known_accept = any(p[0] == 'invalid' and p[1] is not None
                           and self.sig_for_accept(p[1], v) != 'assign:accepts-invalid-value'
                           for p, (_, v) in zip(plans, kw))
        if known_accept or any(p[0] in ('unspec', 'either') for p in plans) \
                or len({self.resolve(k)[1] for k, _ in kw}) < len(kw):
            # unspecified item, an item hitting a listed root cause, or two keys forwarding to one option:
            # execute item by item instead
            for k, v in kw:
                if how == 'set':
                    ok = self.apply_one(k, v, lambda k=k, v=v: o.set(**{k: v}), 'set')
                else:
                    ok = self.apply_one(k, v, lambda k=k, v=v: o.update({k: v}), 'update')
                if not ok:
                    break
            return
        d = dict(kw)
        if how == 'set':
            kind, out, w = self.call(lambda: o.set(**d))
        else:
            kind, out, w = self.call(lambda: o.update(d))
        ctxt = f"{how}({d})"
        for (k, v) in kw:
            verdict, tgt, classes, stored = self.plan_set(k, v)     # re-planned: earlier items changed the model
            if verdict in ('unspec', 'either'):
                # set_function reading the value stored by an earlier item of the same call
                if tgt in self.m:
                    self.m[tgt].tainted = True
                self.cls.add('unspecified')
                return
            if verdict == 'invalid':
                if kind == 'ok':
                    sig = self.sig_for_accept(tgt, v) if tgt is not None else 'assign:accepts-undeclared-or-read-only'
                    if sig in ('bool-type-accepts-equal-number', 'list-values-accepts-str'):
                        self.res.fail(sig, f"{ctxt}: item {k!r}={v!r} accepted")
                        self.m[tgt].val = v
                        self.m[tgt].isset = True
                        continue
                    self.fail(sig, f"{ctxt}: item {k!r}={v!r} accepted")
                if not self.class_ok(out, classes):
                    self.fail('assign:wrong-exception-class', f"{ctxt}: {type(out).__name__}: {out}")
                self.cls.add('multi_rejected')
                if self.read_only and k in self.m:
                    self.cls.add('read_only_reject')
                elif k in self.m:
                    self.cls.add('rejected')
                    self.note_reject_class(self.resolve(k)[1], v)
                    if self.success_seen:
                        self.cls.add('rejected_after_success')
                        self.nontrivial = True
                self.note_warning(k, w, False)
                self.expect_state('assign:rejected-but-state-changed', ctxt)
                return
            t = self.m[tgt]
            t.val = stored
            t.isset = True
            self.success_seen = True
            if tgt != k:
                self.cls.add('alias_set')
            if t.sf is not None:
                self.cls.add('set_function')
            self.note_warning(k, w, kind == 'ok')
        if kind == 'exc':
            self.fail('assign:rejects-valid-value', f"{ctxt}: {type(out).__name__}: {out}")
        self.cls.add('multi_' + how)
        self.expect_state('assign:stored-value-differs', ctxt)

    def op_set(self, op, depth):
        self._multi(op, 'set')

    def op_update(self, op, depth):
        self._multi(op, 'update')

    def op_get(self, op, depth):
        name = op['name']
        o = self.o
        status, tgt, classes = self.resolve(name)
        kind, out, w = self.call(lambda: o[name])
        ctxt = f"get {name!r}"
        if status == 'unspec' or (tgt is not None and self.m[tgt].tainted):
            self.note_warning(name, w, False)
            return
        if status == 'exc':
            if kind == 'ok':
                self.fail('get:returns-for-undeclared', f"{ctxt} returned {out!r}")
            if not self.class_ok(out, classes):
                self.fail('get:wrong-exception-class', f"{ctxt}: {type(out).__name__}: {out}")
            self.note_warning(name, w, False)
            return
        t = self.m[tgt]
        self.note_warning(name, w, True)
        if not t.isset:
            if not (kind == 'exc' and isinstance(out, RuntimeError)):
                self.fail('get:unset-required-option', f"{ctxt}: got {out!r}, expected RuntimeError")
            return
        if kind == 'exc':
            self.fail('get:raises', f"{ctxt}: {type(out).__name__}: {out}")
        if not same(out, t.val):
            self.fail('get:value-differs', f"{ctxt}: got {out!r}, expected {t.val!r}")
        if tgt != name:
            self.cls.add('alias_get')

    def op_temp(self, op, depth):
        kw = [(k, v) for k, v in op['kw']]
        o = self.o
        d = dict(kw)
        ctxt = f"temporary({d})"
        # --- model of the entry: each item is read, then assigned -------------------------------
        plan = []           # (key, target, stored)
        entry_fail = None   # (index, classes)
        unspec = False
        # simulate sequentially on a scratch copy of the values
        saved_model = {n: (s.val, s.isset) for n, s in self.m.items()}
        for i, (k, v) in enumerate(kw):
            status, tgt, classes = self.resolve(k)
            if status == 'unspec' or (tgt is not None and self.m[tgt].tainted):
                unspec = True
                break
            if status == 'exc':
                entry_fail = (i, classes)
                break
            if not self.m[tgt].isset:
                entry_fail = (i, [RuntimeError, KeyError] if self.read_only else [RuntimeError])
                break
            t = self.m[tgt]
            if t.sf is not None:
                # restoring re-applies set_function to the saved value: judged only if that value is a fixed point
                try:
                    fixed = same(t.sf({'val': t.val}, saved_model[tgt][0]), saved_model[tgt][0])
                except Exception:
                    fixed = False
                if not fixed:
                    unspec = True
                    break
            verdict, tgt, classes, stored = self.plan_set(k, v)
            if verdict in ('unspec', 'either') or (verdict == 'invalid' and tgt is not None
                                                   and self.sig_for_accept(tgt, v) != 'assign:accepts-invalid-value'):
                unspec = True
                break
            if verdict == 'invalid':
                entry_fail = (i, classes)
                break
            plan.append((k, tgt, stored))
            self.m[tgt].val = stored        # later items (set_function, same target) see this value
        for n, (val, isset) in saved_model.items():
            self.m[n].val, self.m[n].isset = val, isset
        if unspec:
            self.cls.add('temp_skipped_unspecified')
            return
        pre = {tgt: self.m[tgt].val for _, tgt, _ in plan}
        targets = [tgt for _, tgt, _ in plan]
        shared_target = len(set(targets)) < len(targets)

        entered = False
        body_exc = None
        phase = 'entry'
        self.exc_keys.append(set())
        with warnings.catch_warnings(record=True) as wrec:
            warnings.simplefilter('always')
            try:
                with o.temporary(**d):
                    entered = True
                    phase = 'body'
                    for k, _ in kw:     # first-use warnings of deprecated kwargs are emitted on entry
                        self.note_warning(k, list(wrec), True)
                    if entry_fail is not None:
                        self.fail('temp:enters-with-invalid-kwarg', f"{ctxt}: entered although item "
                                  f"{kw[entry_fail[0]]} must be rejected")
                    for k, tgt, stored in plan:
                        self.m[tgt].val = stored
                        self.m[tgt].isset = True
                    self.success_seen = True
                    self.expect_state('temp:values-inside-context', ctxt)
                    self.exec_ops(op['body'], depth + 1)
                    phase = 'exit'
                    if op.get('raise'):
                        raise _Body(int(op['raise']))
            except _Body as e:
                body_exc = e
            except _Stop:
                raise
            except Exception as e:
                if phase == 'entry':
                    if entry_fail is None:
                        self.fail('temp:rejects-valid-kwargs', f"{ctxt}: {type(e).__name__}: {e}")
                    if not self.class_ok(e, entry_fail[1]):
                        self.fail('assign:wrong-exception-class', f"{ctxt}: {type(e).__name__}: {e}")
                elif phase == 'exit':
                    self.fail('temp:exit-raises', f"{ctxt}: {type(e).__name__}: {e}")
                else:
                    raise       # harness error inside the body interpretation
        inner_exc_keys = self.exc_keys.pop()
        if not entered:
            for k, _ in kw:
                self.note_warning(k, wrec, False)

        # --- required state after the context: every option given as a kwarg holds its pre-entry value -----
        for tgt, val in pre.items():
            self.m[tgt].val = val
        exceptional = body_exc is not None or not entered
        if body_exc is not None:
            kind_lbl = 'temp_body_exception'
        elif not entered:
            kind_lbl = 'temp_entry_rejected'
        else:
            kind_lbl = 'temp_normal'
        self.cls.add(kind_lbl)
        if depth > 0:
            self.cls.add('temp_nested')
        if len(kw) > 1:
            self.cls.add('temp_multi_kwargs')
        if exceptional:
            self.nontrivial = True
            if entry_fail is not None and entry_fail[0] > 0:
                self.cls.add('temp_entry_rejected_after_first')
        mm = self.mismatches()
        if mm:
            detail = f"{ctxt} left by {kind_lbl[5:]}: " + '; '.join(f"{n}: got {g}, expected {e}" for n, g, e in mm[:4])
            keys_here = {k for k, _ in kw}
            if body_exc is not None:
                sig = 'F1-temporary-no-finally:body-exception'
            elif not entered:
                sig = 'F1-temporary-no-finally:entry-rejected'
            elif keys_here & inner_exc_keys:
                sig = 'F1-temporary-no-finally:stale-cache-in-outer'
            elif shared_target:
                sig = 'temp-restore-order:two-kwargs-one-option'
            else:
                sig = None
            if sig is None:
                self.fail('temp:not-restored', detail)
            self.res.fail(sig, detail)
            # continue the search behind the listed root cause: restore by hand through the public interface
            for tgt in reversed(targets):
                if tgt in self.m and tgt in o:
                    kind, out, _ = self.call(lambda: o.__setitem__(tgt, pre[tgt]))
                    if kind == 'exc':
                        self.cls.add('resync_failed')
                        raise _Stop()
            self.expect_state('temp:state-after-manual-restore', ctxt)
        if exceptional:
            # remember for enclosing temporaries: a stale entry for these keys may sit in the cache
            upto = len(plan) + (1 if not entered else 0)
            for s in self.exc_keys:
                s.update(k for k, _ in kw[:upto])
        # an exceptional exit inside this body also matters to the contexts enclosing this one
        for s in self.exc_keys:
            s.update(inner_exc_keys)
        if body_exc is not None and body_exc.levels > 1 and depth > 0:
            body_exc.levels -= 1
            raise body_exc


def static_classes(case):
    """Classes computed from the input alone (used for the minimum class fractions: against a broken implementation
    every case ends at its first violation, which must not look like a generator problem)."""
    cls = set()
    if case.get('read_only'):
        cls.add('in_read_only')

    def walk(ops, depth):
        for op in ops:
            k = op['op']
            if k == 'declare':
                d = op['decl']
                if d['values'] is not None:
                    cls.add('in_decl_values')
                if d['types'] is not None:
                    cls.add('in_decl_types')
                if d['types'] == 'bool':
                    cls.add('in_decl_bool')
                if d['types'] == 'list' and d['values'] is not None:
                    cls.add('in_decl_list_values')
                if d['lower'] is not None or d['upper'] is not None:
                    cls.add('in_decl_bounds')
                if d['check_valid'] is not None:
                    cls.add('in_decl_check_valid')
                if d['set_function'] is not None:
                    cls.add('in_decl_set_function')
                if d['allow_none'] or (d['has_default'] and d['default'] is None):
                    cls.add('in_decl_allow_none')
                if not d['has_default']:
                    cls.add('in_decl_required')
                if isinstance(d['deprecation'], list):
                    cls.add('in_decl_alias')
                elif d['deprecation'] is not None:
                    cls.add('in_decl_deprecated')
            elif k == 'temp':
                cls.add('in_temp')
                if op.get('raise'):
                    cls.add('in_temp_raise')
                else:
                    cls.add('in_temp_no_raise')
                if depth > 0:
                    cls.add('in_temp_nested')
                if len(op['kw']) > 1:
                    cls.add('in_temp_multi_kwargs')
                walk(op['body'], depth + 1)
            elif k == 'readonly' and op['flag']:
                cls.add('in_read_only')
            else:
                cls.add('in_' + k)
    walk(case['ops'], 0)
    return cls


def check(case):
    res = Result()
    it = Interp(case, res)
    it.cls |= static_classes(case)
    try:
        it.exec_ops(case['ops'], 0)
    except _Stop:
        pass
    res.nontrivial = it.nontrivial
    if case.get('read_only'):
        it.cls.add('read_only_ctor')
    res.classes = sorted(it.cls)
    return res


# ---------------------------------------------------------------------------------------------
# Hypothesis strategy
# ---------------------------------------------------------------------------------------------

WORDS = ['a', 'b', 'c', 'ab', 'x', 'yy', '']
GENERIC = [None, True, False, 0, 1, 2, 3, -1, 7, 0.0, 1.0, 2.0, 0.5, 2.5, -1.5, 1e308, 'a', 'b', 'ab', 'x', '',
           ['a'], ['a', 'b'], [], ['x'], [1]]


class _Src(object):
    """Entropy source: a byte string consumed left to right (zeros once exhausted)."""
    __slots__ = ('b', 'i')

    def __init__(self, b):
        self.b = b
        self.i = 0

    def byte(self):
        i = self.i
        self.i = i + 1
        return self.b[i] if i < len(self.b) else 0


NBYTES = 900


def strategy():
    """Operation lists decoded from a Hypothesis-drawn byte string (one cheap draw per case; every choice of the
    decoder below consumes one byte, so Hypothesis can still mutate and shrink the choices)."""
    from hypothesis import strategies as st
    return st.binary(min_size=NBYTES, max_size=NBYTES).map(lambda b: build_case(_Src(b)))


def build_case(src):
    import math

    def nextafter(x, up):
        return math.nextafter(float(x), math.inf if up else -math.inf)

    if True:
        decls = {}          # generator's view: name -> latest declaration
        counter = [0]

        def sample(seq):
            seq = list(seq)
            return seq[src.byte() % len(seq)]

        def chance(p):
            return src.byte() < int(p * 256)

        def integers(a, b):
            return a + src.byte() % (b - a + 1)

        def base_decl(name):
            return {'name': name, 'values': None, 'values_kind': 'list', 'types': None, 'lower': None, 'upper': None,
                    'allow_none': False, 'check_valid': None, 'set_function': None, 'deprecation': None,
                    'has_default': False, 'default': None}

        def valid_value(d):
            """A value that satisfies declaration d (by construction)."""
            if d['set_function'] == 'units':
                return [sample([1.0, 2.5, 12.0, 0.5]), sample(['cm', 'm'])]
            if d['types'] == 'bool':
                return sample([True, False])
            if d['values'] is not None:
                if d['types'] == 'list':
                    k = integers(0, len(d['values']))
                    return [sample(d['values']) for _ in range(k)]
                return sample(d['values'])
            lo, hi = d['lower'], d['upper']
            t = d['types']
            if lo is not None or hi is not None:
                lo_ = lo if lo is not None else (hi - 5)
                hi_ = hi if hi is not None else (lo + 5)
                cands = [lo_, hi_, (lo_ + hi_) / 2.0, nextafter(lo_, True), nextafter(hi_, False)]
                if t == 'int':
                    cands = [c for c in range(int(math.ceil(lo_)), int(math.floor(hi_)) + 1)] or [int(lo_)]
                elif t == 'float':
                    cands = [float(c) for c in cands]
                v = sample(cands)
                if d['check_valid'] and d['check_valid']['k'] == 'even' and isinstance(v, int) and v % 2:
                    v = v + 1 if (hi is None or v + 1 <= hi) else v - 1
                return v
            if t == 'int':
                v = integers(-3, 12)
                if d['check_valid'] and d['check_valid']['k'] == 'even':
                    v *= 2
                return v
            if t == 'float':
                return sample([0.0, -0.0, 1.0, 0.5, 2.5, -1.5, 3.25, 1e308])
            if t == 'str':
                return sample(['a', 'b', 'ab', 'x', ''])
            if t == 'list':
                return sample([[], ['a'], ['a', 'b'], [1, 2]])
            if t == 'num':
                return sample([0, 1, 5, 0.5, 2.0, -1])
            if t == 'numstr':
                return sample([0, 1.5, 'a', 'ab'])
            return sample(GENERIC)

        def near_miss(d):
            """A value likely (not surely) outside declaration d, close to its boundary."""
            c = []
            if d['types'] == 'bool':
                c += [0, 1, 1.0, 0.0, 2, 'True', None]
            if d['values'] is not None:
                if d['types'] == 'list':
                    vs = d['values']
                    c += [[vs[0], 'zz'], ['zz'], vs[0], ''.join(v for v in vs if isinstance(v, str))[:2], '',
                          [None], None, 3]
                else:
                    for v in d['values'][:2]:
                        if isinstance(v, bool):
                            c += [int(v)]
                        elif isinstance(v, int):
                            c += [v + 1, float(v), v - 1]
                        elif isinstance(v, str):
                            c += [v + 'q', v.upper() if v else 'Q', [v]]
                        elif isinstance(v, float):
                            c += [nextafter(v, True), -v if v else 1.0]
                    c += [None]
            for key, up in (('upper', True), ('lower', False)):
                b = d[key]
                if b is not None:
                    c += [nextafter(b, up), b + (1 if up else -1), float(b) + (0.5 if up else -0.5),
                          1e308 if up else -1e308]
            t = d['types']
            if t == 'int':
                c += [1.0, 2.5, '1', None, True, [1]]
                if d['check_valid'] and d['check_valid']['k'] == 'even':
                    c += [1, 3, 7, -1]
            elif t == 'float':
                c += [1, 0, '1.0', None, True]
            elif t == 'str':
                c += [1, None, ['a'], 0.5, 'abcdefgh']
            elif t == 'list':
                c += ['a', None, 1, 'ab']
            elif t == 'num':
                c += ['1', None, [1], True]
            elif t == 'numstr':
                c += [None, ['a'], []]
            if d['check_valid'] and d['check_valid']['k'] == 'maxlen':
                c += ['abcdefgh', 'abcd', ['a', 'b', 'c', 'd', 'e']]
            if d['check_valid'] and d['check_valid']['k'] == 'template':
                c += [1, 'a']
            if not c:
                c = [None]
            return sample(c)

        def value_for(name, p_valid=0.62):
            d = decls.get(name)
            if d is not None and d['deprecation'] is not None and isinstance(d['deprecation'], list):
                d = decls.get(d['deprecation'][1])
            if d is None:
                return sample(GENERIC)
            r = integers(0, 99)
            if r < p_valid * 100:
                return valid_value(d)
            if r < 92:
                return near_miss(d)
            return sample(GENERIC)

        def draw_decl(name, deprecated=False):
            d = base_decl(name)
            kind = sample(['free', 'values', 'values', 'types', 'types', 'types_bounds', 'types_bounds',
                           'bounds_only', 'list_values', 'list', 'bool', 'check_valid', 'units', 'str_sf'])
            if deprecated:
                kind = sample(['free', 'types'])
            if kind == 'values':
                pool = sample([['a', 'b', 'c'], ['x', 'yy'], [1, 2, 4], [2, 4, 6, 8], [0.5, 2.5], [True, 'a', 3],
                               ['a', None], [0, 1]])
                d['values'] = list(pool)
                d['values_kind'] = sample(['list', 'list', 'tuple', 'set'])
            elif kind == 'types':
                d['types'] = sample(['int', 'float', 'str', 'num', 'numstr', 'object', 'int', 'str'])
            elif kind == 'types_bounds':
                d['types'] = sample(['int', 'float', 'num'])
                lo = sample([0, 1, -2, 0.5])
                d['lower'] = sample([None, lo, lo])
                d['upper'] = sample([None, lo + 2, lo + 7.5, lo]) if d['lower'] is not None else lo + 3
                if d['types'] == 'int' and chance(0.3):
                    d['check_valid'] = {'k': 'even'}
                if chance(0.15):
                    d['set_function'] = 'abs'
            elif kind == 'bounds_only':
                d['lower'] = sample([None, 0.0, -1, 2])
                d['upper'] = sample([10, 2.5, 3]) if d['lower'] is None else sample([None, d['lower'] + 4])
                if chance(0.3):
                    d['values'] = [0, 1, 2, 3, 4, 5, 12]        # values and bounds together
            elif kind == 'list_values':
                d['types'] = 'list'
                d['values'] = sample([['desvars', 'objs', 'totals'], ['a', 'b', 'c'], ['x', 'yy', 'zzz'], [1, 2, 3]])
                d['values_kind'] = sample(['list', 'tuple'])
            elif kind == 'list':
                d['types'] = 'list'
                if chance(0.3):
                    d['check_valid'] = {'k': 'maxlen', 'n': 2}
            elif kind == 'bool':
                d['types'] = 'bool'
            elif kind == 'check_valid':
                which = sample(['even', 'even', 'maxlen', 'template'])
                d['check_valid'] = {'k': which} if which != 'maxlen' else {'k': 'maxlen', 'n': sample([1, 3])}
                d['types'] = {'even': sample(['int', None]), 'maxlen': sample(['str', None]), 'template': None}[which]
            elif kind == 'units':
                d['set_function'] = 'units'
                d['has_default'] = True
                d['default'] = [sample([12.0, 1.0, 2.5]), sample(['cm', 'm'])]
                return d
            elif kind == 'str_sf':
                d['types'] = 'str'
                d['set_function'] = 'upper'
            d['allow_none'] = chance(0.25)
            # default: required / valid / None / (rarely) questionable
            r = integers(0, 99)
            if kind == 'check_valid' and d['check_valid']['k'] == 'template':
                r = 0           # the template check_valid rejects everything: only a required option can be declared
            if r < 14:
                pass
            elif r < 80:
                d['has_default'] = True
                d['default'] = valid_value(d)
                if d['set_function'] == 'upper' and isinstance(d['default'], str):
                    d['default'] = d['default'].upper()
                if d['set_function'] == 'abs' and isinstance(d['default'], (int, float)):
                    d['default'] = abs(d['default'])
            elif r < 94:
                d['has_default'] = True
                d['default'] = None
            else:
                d['has_default'] = True
                d['default'] = near_miss(d)
            # rarely an invalid declaration
            r = integers(0, 99)
            if r < 2 and d['types'] not in (None, 'list') and d['values'] is None:
                d['values'] = ['a', 'b']
            elif r < 3 and d['values'] is not None:
                d['values_kind'] = 'scalar'
            return d

        ops = []

        def do_declare(name):
            d = draw_decl(name)
            decls[name] = d
            return {'op': 'declare', 'decl': d}

        def do_declare_dep(name):
            d = draw_decl(name, deprecated=True)
            counter[0] += 1
            msg = f"option {name} is deprecated ({counter[0]})"
            form = sample(['str', 'alias', 'alias', 'alias', 'missing'])
            if form == 'str':
                d['deprecation'] = msg
            elif form == 'alias':
                cand = [n for n in decls if decls[n]['deprecation'] is None] or ['a']
                d['deprecation'] = [msg, sample(cand)]
                d['has_default'] = False
                d['default'] = None
            else:
                d['deprecation'] = [msg, 'zz']
                d['has_default'] = False
                d['default'] = None
            decls[name] = d
            return {'op': 'declare', 'decl': d}

        def names_pool(temp=False):
            known = list(decls)
            if temp:
                # temporaries mostly address options that hold a value, so that most of them are entered
                have = [n for n in known if decls[n]['has_default'] or isinstance(decls[n]['deprecation'], list)]
                return have * 12 + known * 2 + NAMES + ['nope']
            pool = known * 4 + NAMES + ['nope']
            return pool

        def draw_kw(maxn, temp=False):
            n = integers(1, maxn)
            keys = []
            for _ in range(n):
                k = sample(names_pool(temp))
                if k not in keys:
                    keys.append(k)
            # multi-kwarg calls: first items mostly valid so that a later rejection has something to undo
            out = []
            for i, k in enumerate(keys):
                pv = 0.85 if i < len(keys) - 1 else 0.75
                out.append([k, value_for(k, pv)])
            return out

        def draw_op(depth, in_body):
            kinds = ['assign'] * 6 + ['set', 'update', 'get', 'get'] + (['temp'] * 6 if depth < 3 else [])
            if not in_body:
                kinds += ['declare', 'declare_dep', 'undeclare', 'readonly']
            k = sample(kinds)
            if k == 'assign':
                name = sample(names_pool())
                return {'op': 'assign', 'name': name, 'value': value_for(name)}
            if k in ('set', 'update'):
                return {'op': k, 'kw': draw_kw(3)}
            if k == 'get':
                return {'op': 'get', 'name': sample(names_pool())}
            if k == 'declare':
                return do_declare(sample(NAMES))
            if k == 'declare_dep':
                return do_declare_dep(sample(DEP_NAMES))
            if k == 'undeclare':
                name = sample(names_pool())
                decls.pop(name, None)
                return {'op': 'undeclare', 'name': name}
            if k == 'readonly':
                return {'op': 'readonly', 'flag': sample([True, False, False])}
            # temporary
            kw = draw_kw(3, temp=True)
            nb = integers(0, 3 if depth < 2 else 1)
            body = [draw_op(depth + 1, True) for _ in range(nb)]
            rz = sample([0, 0, 0, 1, 1, 2])
            return {'op': 'temp', 'kw': kw, 'body': body, 'raise': rz}

        read_only = chance(0.06)
        n0 = integers(2, 4)
        for name in NAMES[:n0]:
            ops.append(do_declare(name))
        if chance(0.45):
            ops.append(do_declare_dep('old1'))
        nops = integers(1, 10)
        for _ in range(nops):
            ops.append(draw_op(0, False))
        return {'read_only': read_only, 'parent': sample([None, None, 'Comp']), 'ops': ops}


# ---------------------------------------------------------------------------------------------
# work units
# ---------------------------------------------------------------------------------------------

def units(tier, seed):
    n = 16
    per = 3000 if tier == 'quick' else 60000
    return [{'kind': 'random', 'n': per, 'seed': core.shard_seed(seed, ID, i)} for i in range(n)]


def run_unit(unit, ctx):
    core.run_hypothesis(ctx, strategy(), check, unit['n'], unit['seed'], shrink=unit.get('tier') == 'thorough')
