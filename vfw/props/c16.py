"""C16  Interpolation derivatives are exact derivatives of the interpolant.

Domain : as C15 (grids of dimension 1-3 with drawn spacing / scale / sign, every table method and fixed-dimension
         variant, rough / ramp / constant tables) at cell-interior points; MetaModelStructuredComp with
         training_data_gradients=True; order-reducing splines (InterpND x_interp + evaluate_spline incl. bsplines)
         and SplineComp.
Oracle : d/dx   complex step through the same InterpND for every method that propagates complex x (all but
                scipy_*); 4th-order central differences of the returned values over a decreasing step sequence
                with a convergence gate for scipy_* (not converged => inconclusive, never a violation);
         d/dval linearity  interp(values + delta) - interp(values) == (d/dvalues) . delta  for the methods that are
                linear in the table (all but akima); for akima (a nonlinear scheme) the directional derivative
                J.delta is compared with a complex step of the returned value in the table direction.
"""
import numpy as np

from vfw import core
from vfw.core import Result
from vfw.props import c15 as base

ID = 'C16'
LEVEL = 'exploration'
TECHNIQUE = ('Hypothesis-generated tables/points; complex-step and gated high-order finite-difference reference for '
             'd/dx, exact linearity identity (complex step in the table for akima) for d/dvalues, on InterpND, MetaModelStructuredComp, '
             'evaluate_spline and SplineComp')
RULE = ("case kinds: 'table' (InterpND.interpolate(compute_derivative=True) and .gradient, general + fixed-dimension "
        "variant, single-point calls then one vectorised call), 'train' (MetaModelStructuredComp with "
        "training_data_gradients=True inside a Problem: totals of the output wrt the table and wrt the query inputs), "
        "'spline' (InterpND(x_interp=...).evaluate_spline(compute_derivative=True), all SPLINE_METHODS incl. bsplines), "
        "'splinecomp' (SplineComp totals).  Grids as in C15 (dimension 1-3, spacing uniform/mild/wild, scale 1e-2..1e2, "
        "sign neg/end0/straddle/start0/pos); tables rough cosine / integer ramp / constant; query points strictly inside "
        "cells (5%..95% of the cell in every coordinate); perturbation tables/vectors drawn.  Non-trivial = at least one "
        "derivative was judged and (dimension >= 2 or some axis non-uniform).  Distinct = distinct canonical JSON.  "
        "(Cases that used to be excluded because of the C15 findings F18 - akima on a 4-point grid - and F19 - akima "
        "delta_x > 0 on 3-D tables - are judged since those defects were repaired.)  Boundary queries are not generated at "
        "all (the derivative is one-sided there).")
ASSUMPTIONS = [
    "inside a cell every interpolant is differentiable in x; points are kept 5% of the cell away from the cell faces",
    "complex step: the imaginary part of interpolate(x + i*h*e_k)/h is the exact derivative of the returned value "
    "for the pure-arithmetic table formulas (and for akima, whose abs is complex-step safe); h = 1e-30 * cell size",
    "scipy_* drop the imaginary part, so they are judged by 4th-order central differences at steps 1e-2, 1e-3, 1e-4 "
    "of the cell; the estimate is used only when the last two agree (gap <= 1e-6 of the estimate or 4x the round-off "
    "floor) and the "
    "tolerance is 10*gap + round-off floor; otherwise the case is counted inconclusive",
    "tolerance for derivatives = 256*eps*A*F/h_min(axis): the C15 value tolerance divided by the smallest spacing of "
    "the axis (A, F as in C15)",
    "akima is not linear in the table values (its weights depend on them), so the property's linearity clause is "
    "applied to slinear/lagrange2/lagrange3/cubic/scipy_*/bsplines only; for akima J.delta is compared with the complex "
    "step imag(interp(values + i*h*delta))/h (the akima code is complex-safe in the table values: upstream checks its "
    "partials the same way; evaluate_spline takes complex values, the components are run in complex-step mode); "
    "a table (or query point) where conj-symmetry of the complex step fails (an abs() argument of the Akima weights is "
    "exactly zero: the step direction decides the branch) is counted as a kink and not judged; "
    "for akima the constant direction is judged separately and without any step: interp(V + c) - interp(V) = c exactly "
    "(translation equivariance of the returned values), so the rows of the table Jacobian must sum to "
    "(interp(V+c)-interp(V))/c; tables whose smallest relative slope difference is below 1e-9 (weights at round-off "
    "level) are judged in that direction only, between 1e-9 and 1e-3 the tolerance grows like 1e-3/gap; "
    "control values are exactly zero or within three decades of their amplitude (cases whose non-zero entries span more "
    "than six decades are discarded: subnormal products underflow and no round-off model applies); "
    "tables with two exactly equal consecutive slopes (constant / linear data) are likewise judged in the constant "
    "direction only: both Akima weights vanish there and the scheme is not differentiable in the table values (directional "
    "derivatives exist but are not linear in the direction), so no Jacobian can satisfy the property",
    "fixed-dimension methods do not support training_data_gradients (documented RuntimeError): not generated",
]
BOUND = {'quick': '16 shards x 220 Hypothesis cases', 'thorough': '32 shards x 8000 Hypothesis cases'}
MIN_CLASS_FRACTION = {'judged': 0.6, 'kind:table': 0.3, 'kind:train': 0.1, 'kind:spline': 0.1,
                      'kind:splinecomp': 0.05, 'dim3': 0.05, 'oracle:cs': 0.3, 'oracle:fd': 0.03,
                      'oracle:linearity': 0.15, 'oracle:cs-values': 0.02,
                      'oracle:constant-direction': 0.02}

EPS = base.EPS
TOL_K = 256.0
_STATS = None


def _stat(key, err, tol):
    if _STATS is not None and tol > 0 and np.size(err):
        r = float(np.max(err)) / tol
        if r > _STATS.get(key, (0.0,))[0]:
            _STATS[key] = (r,)


SPLINE_METHODS = ['slinear', 'lagrange2', 'lagrange3', 'cubic', 'akima', 'bsplines',
                  'scipy_cubic', 'scipy_slinear', 'scipy_quintic']


def supports_complex(method):
    return not method.startswith('scipy')


# ---------------------------------------------------------------------------------------------
# finite-difference reference with convergence gate
# ---------------------------------------------------------------------------------------------

def central4(f, h):
    """4th-order central difference of the scalar/array function f(s) at s = 0."""
    return (-f(2 * h) + 8 * f(h) - 8 * f(-h) + f(-2 * h)) / (12 * h)


def gated_fd(f, steps, scale, floor_unit):
    """Derivative of f at 0 from 4th-order central differences over the decreasing `steps`.

    Returns (estimate, tolerance) or (None, reason).  `scale` is the magnitude of the derivative being estimated,
    `floor_unit` the magnitude of f (round-off of one difference quotient is ~ eps*floor_unit/step).
    """
    est = [central4(f, h) for h in steps]
    gap = np.max(np.abs(est[-1] - est[-2]))
    floor = 64 * EPS * floor_unit / steps[-1]
    mag = float(np.max(np.abs(est[-1]))) if np.all(np.isfinite(est[-1])) else np.inf
    if not np.isfinite(mag) or gap > max(1e-6 * min(mag, scale), 4 * floor):
        return None, 'fd-not-converged'
    return est[-1], 10 * gap + 4 * floor


# ---------------------------------------------------------------------------------------------
# helpers
# ---------------------------------------------------------------------------------------------

def _cells(grids, p):
    """Cell size of each coordinate of the interior point p."""
    out = []
    for g, x in zip(grids, p):
        k = int(np.searchsorted(g, x, side='right')) - 1
        k = min(max(k, 0), len(g) - 2)
        out.append(g[k + 1] - g[k])
    return out


def _interior(grids, pts):
    for p in pts:
        for g, x in zip(grids, p):
            k = int(np.searchsorted(g, x, side='right')) - 1
            if k < 0 or k > len(g) - 2:
                return False
            t = (x - g[k]) / (g[k + 1] - g[k])
            if not (0.04 <= t <= 0.96):
                return False
    return True


def _query(pts, dim, dtype=float):
    x = np.array(pts, dtype=dtype)
    if dim == 1:
        return x[:, 0].copy()
    return x


def known_akima4(case):
    """F18 (found by C15): akima with training_data_gradients on a table of >= 2 dimensions where a non-last axis has
    exactly 4 points and a query coordinate lies in its middle cell (g[1] < x <= g[2]): the `elif idx == 1` branch
    skips the end-slope extrapolation of `idx == ngrid-3`, so dm5_dv is never set (the last axis pre-sets it to 0 and,
    like the value path, silently uses m5 = 0)."""
    if case['method'] != 'akima' or case['kind'] != 'train':
        return False
    axes, pts = case['grids'], case['points']
    for i, g in enumerate(axes[:-1]):
        if len(g) == 4 and any(g[1] < p[i] <= g[2] for p in pts):
            return True
    return False


def known_bsplines_square(case):
    """F25: bsplines with as many interpolation points as vec_size (>= 2): InterpND.spline_gradient tells akima's
    per-row derivative array from the shared bspline Jacobian by `d_dvalues.shape[0] == vec_size`."""
    return (case['kind'] in ('spline', 'splinecomp') and case['method'] == 'bsplines' and
            len(case['y']) >= 2 and len(case['x_interp']) == len(case['y']))


def _exc_sig(e, where, case=None):
    if case is not None and isinstance(e, UnboundLocalError) and "m5" in str(e) and known_akima4(case):
        return 'F18-akima-4-point-grid-middle-cell:UnboundLocalError'
    if (case is not None and isinstance(e, ValueError) and 'setting an array element with a sequence' in str(e) and
            known_bsplines_square(case)):
        return 'F25-bsplines-n_interp-equals-vec_size:ValueError'
    return core.repo_frame_signature(e, prefix=where) or f"{where}:{type(e).__name__}"


def _discard(res, cls, why):
    res.discard = why
    res.classes = cls
    return res


def has_equal_slopes(axes, table):
    """Some line of the table has two exactly equal consecutive slopes: both Akima weights vanish there, the scheme
    switches to its eps fallback and is not differentiable with respect to the table values."""
    table = np.asarray(table, dtype=float)
    for i, g in enumerate(axes):
        t = np.moveaxis(table, i, -1)
        m = np.diff(t, axis=-1) / np.diff(np.asarray(g, dtype=float))
        if m.shape[-1] >= 2 and np.any(m[..., 1:] == m[..., :-1]):
            return True
    return False


def slope_rel_gap(axes, table):
    """Smallest difference of two consecutive slopes along any grid line of the table, relative to the largest slope
    of the table along that axis (exactly equal pairs are ignored here: has_equal_slopes handles them).  The Akima weights are these differences; when they sink to
    round-off level (gap ~ 1e-16, e.g. linear data on np.linspace control points) the weight ratios are noise."""
    table = np.asarray(table, dtype=float)
    gap = np.inf
    for i, g in enumerate(axes):
        t = np.moveaxis(table, i, -1)
        m = np.diff(t, axis=-1) / np.diff(np.asarray(g, dtype=float))
        if m.shape[-1] < 2:
            continue
        d = np.abs(m[..., 1:] - m[..., :-1])
        mag = float(np.max(np.abs(m)))          # slope scale of the whole table along this axis
        ok = d > 0
        if ok.any() and mag > 0:
            gap = min(gap, float(np.min(d[ok])) / mag)
    return gap


NEAR_COLLINEAR = 1e-9


def table_of(case):
    return base.rough_table({'grids': case['grids'], 'rough': case['rough']})


def delta_table(case):
    return base.rough_table({'grids': case['grids'], 'rough': case['delta']})


# ---------------------------------------------------------------------------------------------
# kind 'table': d/dx of InterpND
# ---------------------------------------------------------------------------------------------

def check_table(case, res, cls):
    from openmdao.components.interp_util.interp import InterpND
    grids = [list(map(float, g)) for g in case['grids']]
    dim = len(grids)
    method = case['method']
    pts = [list(map(float, p)) for p in case['points']]
    table = table_of(case)
    F = max(base.rough_magnitude(case), 1e-300)
    opts = {}
    if method == 'akima' and case.get('delta_x'):
        opts['delta_x'] = float(case['delta_x'])
    fixed = base.FIXED.get((method, dim))
    names = [method] + ([fixed] if fixed else [])
    if fixed:
        cls.append(f"m:{fixed}")
    hmin = [float(np.min(np.diff(g))) for g in grids]
    judged = 0

    for name in names:
        A = base.amplification(method, grids, variant=name if name != method else None)
        tolk = [TOL_K * EPS * A * F / h for h in hmin]
        try:
            obj = InterpND(method=name, points=tuple(np.array(g) for g in grids), values=table.copy(),
                           extrapolate=bool(case.get('extrapolate', False)), **opts)
        except Exception as e:
            res.fail(_exc_sig(e, 'build'), f"{name}: {type(e).__name__}: {e}")
            continue

        def values_at(points, _obj=obj):
            return np.asarray(_obj.interpolate(_query(points, dim)), dtype=float).ravel()

        def reference(points, mode):
            """(m, dim) reference derivative or None entries; uses CS where possible, gated FD otherwise."""
            m = len(points)
            ref = np.full((m, dim), np.nan)
            rtol = np.zeros((m, dim))
            for k in range(dim):
                cell = [_cells(grids, p)[k] for p in points]
                if supports_complex(name):
                    cls.append('oracle:cs')
                    h = np.array([1e-30 * c for c in cell])
                    xc = np.array(points, dtype=complex)
                    xc[:, k] += 1j * h
                    if mode == 'vector':
                        out = np.asarray(obj.interpolate(xc[:, 0].copy() if dim == 1 else xc)).ravel()
                    else:
                        out = np.array([np.asarray(obj.interpolate(xc[j:j + 1, 0].copy() if dim == 1
                                                                   else xc[j:j + 1])).ravel()[0] for j in range(m)])
                    ref[:, k] = out.imag / h
                    rtol[:, k] = tolk[k]
                    if 'akima' in name:
                        # kink test: for a differentiable interpolant f(x - ih) is the conjugate of f(x + ih)
                        xm = np.array(points, dtype=complex)
                        xm[:, k] -= 1j * h
                        if mode == 'vector':
                            outm = np.asarray(obj.interpolate(xm[:, 0].copy() if dim == 1 else xm)).ravel()
                        else:
                            outm = np.array([np.asarray(obj.interpolate(xm[j:j + 1, 0].copy() if dim == 1
                                                                        else xm[j:j + 1])).ravel()[0]
                                             for j in range(m)])
                        kink = ~(np.abs(out.imag + outm.imag) / h <= tolk[k])
                        if kink.any():
                            cls.append('cs_kink')
                            ref[kink, k] = np.nan
                else:
                    cls.append('oracle:fd')
                    for j, p in enumerate(points):
                        def f(s, _p=p, _k=k):
                            q = list(_p)
                            q[_k] = _p[_k] + s
                            return values_at([q])[0]
                        steps = [cell[j] * s for s in (1e-2, 1e-3, 1e-4)]
                        est, t = gated_fd(f, steps, A * F / cell[j], A * F)
                        if est is None:
                            cls.append('fd_inconclusive')
                            continue
                        ref[j, k] = est
                        rtol[j, k] = t + tolk[k]
            return ref, rtol

        def judge(d, ref, rtol, points, mode):
            nonlocal judged
            d = np.asarray(d, dtype=float).reshape(len(points), dim)
            ok = np.isfinite(ref)
            if not ok.any():
                return
            judged += int(ok.sum())
            err = np.where(ok, np.abs(d - np.where(ok, ref, 0.0)), 0.0)
            with np.errstate(invalid='ignore', divide='ignore'):
                _stat(f"ddx/{name}/{mode}", np.where(ok, err / np.where(rtol > 0, rtol, 1.0), 0.0), 1.0)
            bad = ok & ~(err <= rtol)
            if bad.any():
                j, k = np.argwhere(bad)[0]
                orc = 'cs' if supports_complex(name) else 'fd'
                res.fail(f"ddx-{orc}:{name}",
                         f"{name} ({mode} call) at x={points[j]} axis {k}: returned d/dx {d[j, k]!r}, reference "
                         f"({orc}) {ref[j, k]!r}, |diff| {err[j, k]:.3g} > tol {rtol[j, k]:.3g}")

        try:
            # scalar path: one point per call
            for p in pts:
                val, d = obj.interpolate(_query([p], dim), compute_derivative=True)
                d = np.array(d, dtype=float).copy()
                g2 = np.array(obj.gradient(_query([p], dim)), dtype=float).ravel()
                if not np.array_equal(g2, d.ravel()):
                    res.fail(f"gradient-api:{name}", f"{name}: gradient(x) {g2.tolist()} != derivative returned by "
                                                     f"interpolate(x, compute_derivative=True) {d.ravel().tolist()}")
                ref, rtol = reference([p], 'scalar')
                judge(d, ref, rtol, [p], 'scalar')
            # vectorised path: all points in one call (after the single calls: see F16 of C15)
            if len(pts) > 1:
                val, d = obj.interpolate(_query(pts, dim), compute_derivative=True)
                d = np.array(d, dtype=float).copy()
                ref, rtol = reference(pts, 'vector')
                judge(d, ref, rtol, pts, 'vector')
        except Exception as e:
            res.fail(_exc_sig(e, 'table', case), f"{name} points {pts}: {type(e).__name__}: {e}")
    return judged


# ---------------------------------------------------------------------------------------------
# d/dvalues judged through an evaluation function and a Jacobian
# ---------------------------------------------------------------------------------------------

def judge_values(res, cls, label, method, evalf, J0, V, D, A, Fv, Fd, evalc, rho=np.inf, collinear=False):
    """evalf(values) -> outputs (flat, length q); J0 = d outputs/d values at V, shape (q, V.size); evalc = evalf for
    complex values.  Linear methods: exact linearity with the Jacobian as coefficients.  akima (nonlinear in the
    table): complex step in the table direction D."""
    judged = 0
    JD = J0.reshape(J0.shape[0], -1) @ D.ravel()
    if method != 'akima':
        cls.append('oracle:linearity')
        f0 = evalf(V)
        f1 = evalf(V + D)
        tol = TOL_K * EPS * A * (Fv + Fd)
        err = np.abs((f1 - f0) - JD)
        _stat(f"lin/{label}/{method}", err, tol)
        judged += err.size
        if (err > tol).any():
            j = int(np.argmax(err))
            res.fail(f"dvalues-linearity:{label}:{method}",
                     f"{label} {method}: output {j}: interp(V+D)-interp(V) = {(f1 - f0)[j]!r} but (d/dvalues).D = "
                     f"{JD[j]!r} (|diff| {err[j]:.3g} > tol {tol:.3g})")
        return judged
    # (i) constant direction: every interpolant is translation equivariant, interp(V + c) = interp(V) + c, so along
    # D = 1 the returned value is exactly affine and the finite quotient below IS its derivative (no step issue).
    c = Fv if Fv > 1e-200 else 1.0
    q1 = (evalf(V + c) - evalf(V)) / c
    rows = J0.reshape(J0.shape[0], -1).sum(axis=1)
    amp = max(1.0, 1e-3 / rho) if rho >= NEAR_COLLINEAR else 1.0
    tol1 = TOL_K * EPS * A * amp * (1.0 + J0.reshape(J0.shape[0], -1).shape[1])
    err1 = np.abs(rows - q1)
    _stat(f"const/{label}/{method}", err1, tol1)
    judged += err1.size
    cls.append('oracle:constant-direction')
    if not (err1 <= tol1).all():
        j = int(np.argmax(~(err1 <= tol1)))
        sig = f"dvalues-constant-direction:{label}:{method}"
        if rho < NEAR_COLLINEAR or collinear:
            # exactly equal table slopes become nearly equal slopes of interpolated sub-values on the upper levels
            sig = 'F24-akima-table-gradient-noise-near-collinear:constant-direction'
        res.fail(sig, f"{label} akima: output {j}: sum_j d out/d value_j = {rows[j]!r} but (interp(V+c)-interp(V))/c = "
                      f"{q1[j]!r} for c = {c!r} (smallest relative slope difference of the table {rho:.3g}; "
                      f"tol {tol1:.3g})")
    if collinear:
        # both Akima weights vanish somewhere: the scheme is not differentiable in the table values there
        cls.append('akima_collinear_generic_direction_skipped')
        return judged
    if rho < NEAR_COLLINEAR:
        # generic directions: the weight ratios are round-off noise, the derivative is not defined to any accuracy
        cls.append('akima_nearly_collinear_generic_direction_skipped')
        return judged
    # (ii) drawn direction: complex step in the table
    h = 1e-30
    est = np.asarray(evalc(V.astype(complex) + 1j * h * D)).ravel().imag / h
    est_m = -np.asarray(evalc(V.astype(complex) - 1j * h * D)).ravel().imag / h
    tol = TOL_K * EPS * A * Fd * amp
    if not (np.abs(est - est_m) <= tol).all():
        # An abs() argument of the Akima weights is exactly zero at this table: the complex step takes the side
        # given by the sign of the imaginary part, i.e. the value is not differentiable in this direction.
        cls.append('cs_values_kink')
        return judged
    cls.append('oracle:cs-values')
    err = np.abs(est - JD)
    _stat(f"csv/{label}/{method}", err, tol)
    judged += err.size
    if not (err <= tol).all():
        j = int(np.argmax(~(err <= tol)))
        res.fail(f"dvalues-cs:{label}:{method}",
                 f"{label} akima: output {j}: (d/dvalues).D = {JD[j]!r}, complex step of the returned value in the table "
                 f"direction D gives {est[j]!r} (|diff| {err[j]:.3g} > tol {tol:.3g})")
    return judged


def known_akima_train_2d(case):
    """F23: akima with training_data_gradients on a table of exactly two dimensions: the leaf table sees slopes of
    shape (k,) and takes the 1-D branch (`len(m2.shape) > 1` is False) with (k, n) value-derivatives."""
    return case['kind'] == 'train' and case['method'] == 'akima' and len(case['grids']) == 2


def check_train(case, res, cls):
    import openmdao.api as om
    grids = [list(map(float, g)) for g in case['grids']]
    dim = len(grids)
    method = case['method']
    pts = np.array(case['points'], dtype=float)
    n = len(pts)
    V = table_of(case)
    D = delta_table(case)
    Fv = max(base.rough_magnitude(case), 1e-300)
    Fd = max(base.rough_magnitude({'grids': grids, 'rough': case['delta']}), 1e-300)
    A = base.amplification(method, grids)
    try:
        p = om.Problem(reports=False)
        ivc = p.model.add_subsystem('tab', om.IndepVarComp())
        ivc.add_output('f_train', V.copy())
        for i in range(dim):
            ivc.add_output(f"x{i}", pts[:, i].copy())
        comp = om.MetaModelStructuredComp(method=method, extrapolate=bool(case.get('extrapolate', False)),
                                          training_data_gradients=True, vec_size=n)
        for i, g in enumerate(grids):
            comp.add_input(f"x{i}", 0.5 * (g[0] + g[-1]), training_data=np.array(g))
        comp.add_output('f', 0.0, training_data=V.copy())
        p.model.add_subsystem('mm', comp)
        p.model.connect('tab.f_train', 'mm.f_train')
        for i in range(dim):
            p.model.connect(f"tab.x{i}", f"mm.x{i}")
        p.setup(force_alloc_complex=True)
        p.run_model()
        wrt = ['tab.f_train'] + [f"tab.x{i}" for i in range(dim)]
        tot = p.compute_totals(of=['mm.f'], wrt=wrt)
        J0 = np.array(tot[('mm.f', 'tab.f_train')], dtype=float)
        Jx = [np.array(tot[('mm.f', f"tab.x{i}")], dtype=float) for i in range(dim)]

        def evalf(values):
            p.set_val('tab.f_train', values)
            p.run_model()
            return np.array(p.get_val('mm.f'), dtype=float).ravel().copy()

        def evalc(values):
            p.set_complex_step_mode(True)
            try:
                p.set_val('tab.f_train', values)
                p.model.run_solve_nonlinear()
                return np.array(p.get_val('mm.f')).ravel().copy()
            finally:
                p.set_complex_step_mode(False)

        rho = slope_rel_gap(grids, V) if method == 'akima' else np.inf
        col = method == 'akima' and has_equal_slopes(grids, V)
        judged = judge_values(res, cls, 'MetaModelStructuredComp', method, evalf, J0, V, D, A, Fv, Fd, evalc, rho, col)
        p.set_val('tab.f_train', V)
        p.run_model()
    except Exception as e:
        if known_akima_train_2d(case) and isinstance(e, ValueError) and 'could not be broadcast' in str(e):
            res.fail('F23-akima-training-gradients-2D-table:ValueError',
                     f"MetaModelStructuredComp(method='akima', training_data_gradients=True) on a 2-D table "
                     f"{[len(g) for g in grids]} at {pts.tolist()}: {type(e).__name__}: {e}")
        else:
            res.fail(_exc_sig(e, 'train', case), f"{method} training_data_gradients, grids "
                                                 f"{[len(g) for g in grids]}, points {pts.tolist()}: "
                                                 f"{type(e).__name__}: {e}")
        return 0

    # the query-input totals of the component must be the derivative of its own output (diagonal over vec_size)
    from openmdao.components.interp_util.interp import InterpND
    hmin = [float(np.min(np.diff(g))) for g in grids]
    for k in range(dim):
        Jk = Jx[k].reshape(n, n)
        off = Jk - np.diag(np.diag(Jk))
        if np.any(off != 0.0):
            res.fail('train-dx-offdiagonal', f"{method}: d f[j]/d x{k}[l] nonzero for j != l: {Jk.tolist()}")
        ref = np.full(n, np.nan)
        tol = np.zeros(n)
        ref_obj = InterpND(method=method, points=tuple(np.array(g) for g in grids), values=V.copy(), extrapolate=True)
        for j in range(n):
            cell = _cells(grids, pts[j])[k]
            if supports_complex(method):
                cls.append('oracle:cs')
                xc = pts[j:j + 1].astype(complex)
                xc[0, k] += 1j * 1e-30 * cell
                ref[j] = np.asarray(ref_obj.interpolate(xc[:, 0].copy() if dim == 1 else xc)).ravel()[0].imag / \
                    (1e-30 * cell)
                tol[j] = TOL_K * EPS * A * Fv / hmin[k]
            else:
                cls.append('oracle:fd')

                def f(s, _j=j, _k=k):
                    q = pts[_j:_j + 1].copy()
                    q[0, _k] += s
                    return np.asarray(ref_obj.interpolate(q[:, 0].copy() if dim == 1 else q)).ravel()[0]
                est, t = gated_fd(f, [cell * s for s in (1e-2, 1e-3, 1e-4)], A * Fv / cell, A * Fv)
                if est is None:
                    cls.append('fd_inconclusive')
                    continue
                ref[j] = est
                tol[j] = t + TOL_K * EPS * A * Fv / hmin[k]
        ok = np.isfinite(ref)
        err = np.where(ok, np.abs(np.diag(Jk) - np.where(ok, ref, 0.0)), 0.0)
        judged += int(ok.sum())
        with np.errstate(invalid='ignore', divide='ignore'):
            _stat(f"train-dx/{method}", np.where(ok, err / np.where(tol > 0, tol, 1.0), 0.0), 1.0)
        bad = ok & ~(err <= tol)
        if bad.any():
            j = int(np.argmax(bad))
            res.fail(f"train-dx:{method}",
                     f"MetaModelStructuredComp {method}: total d f/d x{k} at {pts[j].tolist()} = {Jk[j, j]!r}, "
                     f"reference {ref[j]!r} (tol {tol[j]:.3g})")
    return judged


# ---------------------------------------------------------------------------------------------
# splines
# ---------------------------------------------------------------------------------------------

def _spline_amp(method, xcp):
    if method == 'bsplines':
        return 4.0
    return base.amplification(method, [list(xcp)])


def check_spline(case, res, cls):
    from openmdao.components.interp_util.interp import InterpND
    method = case['method']
    Y = np.array(case['y'], dtype=float)
    D = np.array(case['dy'], dtype=float)
    vec, ncp = Y.shape
    xi = np.array(case['x_interp'], dtype=float)
    opts = dict(case.get('opts', {}))
    Fv = max(float(np.max(np.abs(Y))), 1e-300)
    Fd = max(float(np.max(np.abs(D))), 1e-300)
    if method == 'bsplines':
        kw = {'num_cp': ncp}
        A = 4.0
    else:
        xcp = np.array(case['xcp'], dtype=float)
        kw = {'points': xcp}
        A = _spline_amp(method, xcp)
    judged = 0
    try:
        if case['kind'] == 'spline':
            obj = InterpND(method=method, x_interp=xi, **kw, **opts)

            def both(values):
                v = values if vec > 1 else values[0]
                r, J = obj.evaluate_spline(v.copy(), compute_derivative=True)
                return np.asarray(r, dtype=float).reshape(vec, len(xi)), np.asarray(J, dtype=float).reshape(
                    vec, len(xi), ncp)

            def evalrow(values):
                if np.iscomplexobj(values):
                    v = values if vec > 1 else values[0]
                    return np.asarray(obj.evaluate_spline(v.copy())).reshape(vec, len(xi))
                return both(values)[0]
            r0, J0 = both(Y)
            label = 'evaluate_spline'
        else:
            import openmdao.api as om
            p = om.Problem(reports=False)
            ivc = p.model.add_subsystem('ivc', om.IndepVarComp())
            ivc.add_output('ycp', Y.copy())
            ckw = {'num_cp': ncp} if method == 'bsplines' else {'x_cp_val': np.array(case['xcp'], dtype=float)}
            comp = om.SplineComp(method=method, x_interp_val=xi, vec_size=vec, interp_options=opts, **ckw)
            comp.add_spline(y_cp_name='ycp', y_interp_name='yint', y_cp_val=Y.copy())
            p.model.add_subsystem('sp', comp)
            p.model.connect('ivc.ycp', 'sp.ycp')
            p.setup(force_alloc_complex=True)
            p.run_model()
            tot = p.compute_totals(of=['sp.yint'], wrt=['ivc.ycp'])
            Jfull = np.array(tot[('sp.yint', 'ivc.ycp')], dtype=float).reshape(vec, len(xi), vec, ncp)
            J0 = np.empty((vec, len(xi), ncp))
            for v in range(vec):
                J0[v] = Jfull[v, :, v, :]
                for w in range(vec):
                    if w != v and np.any(Jfull[v, :, w, :] != 0.0):
                        res.fail('splinecomp-cross-vec-coupling',
                                 f"{method}: d yint[{v}]/d ycp[{w}] is not zero")

            def evalrow(values):
                if np.iscomplexobj(values):
                    p.set_complex_step_mode(True)
                    try:
                        p.set_val('ivc.ycp', values)
                        p.model.run_solve_nonlinear()
                        return np.array(p.get_val('sp.yint')).reshape(vec, len(xi)).copy()
                    finally:
                        p.set_complex_step_mode(False)
                p.set_val('ivc.ycp', values)
                p.run_model()
                return np.array(p.get_val('sp.yint'), dtype=float).reshape(vec, len(xi)).copy()
            label = 'SplineComp'
        # each vec row is an independent curve: judge row by row with a block-diagonal Jacobian
        for v in range(vec):
            def evalf(values, _v=v):
                full = Y.astype(values.dtype)
                full[_v] = values
                return evalrow(full)[_v]
            rho = slope_rel_gap([case['xcp']], Y[v]) if method == 'akima' else np.inf
            col = method == 'akima' and has_equal_slopes([case['xcp']], Y[v])
            judged += judge_values(res, cls, label, method, evalf, J0[v], Y[v], D[v], A, Fv, Fd, evalf, rho, col)
        if case['kind'] == 'splinecomp':
            p.set_val('ivc.ycp', Y)
            p.run_model()
    except Exception as e:
        res.fail(_exc_sig(e, case['kind'], case), f"{method} {case['kind']}: {type(e).__name__}: {e}")
    return judged


# ---------------------------------------------------------------------------------------------
# check
# ---------------------------------------------------------------------------------------------

def check(case):
    res = Result()
    kind = case['kind']
    method = case['method']
    cls = [f"kind:{kind}", f"m:{method}"]
    if kind in ('table', 'train'):
        grids = [list(map(float, g)) for g in case['grids']]
        dim = len(grids)
        cls.append(f"dim{dim}")
        cls.append(f"rough:{case['rough'].get('kind', 'cos')}")
        for s in sorted(set(case.get('signs', []))):
            cls.append(f"sign:{s}")
        for g in grids:
            if len(g) < base.MIN_POINTS[method] or not np.all(np.diff(g) > 0):
                return _discard(res, cls, 'invalid-grid')
        if not _interior(grids, case['points']):
            return _discard(res, cls, 'point-not-cell-interior')
        Amax = base.amplification(method, grids, variant=base.FIXED.get((method, dim)))
        if TOL_K * EPS * Amax > base.MAX_REL_TOL:
            return _discard(res, cls, 'ill-conditioned-grid')
        nonuni = any(not base._uniform(g) for g in grids)
        judged = check_table(case, res, cls) if kind == 'table' else check_train(case, res, cls)
        res.nontrivial = judged > 0 and (dim >= 2 or nonuni)
    else:
        for rows in (case['y'], case['dy']):
            a = np.abs(np.array(rows, dtype=float))
            if a.max() > 0 and np.any((a > 0) & (a < 1e-6 * a.max())):
                # entries spanning > 6 decades (down to subnormals) put the formulas into the underflow regime
                return _discard(res, cls, 'value-magnitudes-span-more-than-6-decades')
        if method != 'bsplines':
            xcp = list(map(float, case['xcp']))
            if len(xcp) < base.MIN_POINTS.get(method, 2) or not np.all(np.diff(xcp) > 0):
                return _discard(res, cls, 'invalid-grid')
            xi = case['x_interp']
            if min(xi) < xcp[0] or max(xi) > xcp[-1]:
                return _discard(res, cls, 'x_interp-outside-control-points')
            if TOL_K * EPS * _spline_amp(method, xcp) > base.MAX_REL_TOL:
                return _discard(res, cls, 'ill-conditioned-grid')
            nonuni = not base._uniform(xcp)
        else:
            nonuni = True
        judged = check_spline(case, res, cls)
        res.nontrivial = judged > 0 and nonuni
    if judged > 0:
        cls.append('judged')
    res.classes = sorted(set(cls))
    return res


# ---------------------------------------------------------------------------------------------
# Hypothesis strategy
# ---------------------------------------------------------------------------------------------

def strategy():
    from hypothesis import strategies as st
    nice = base._nice

    @st.composite
    def axis(draw, nmin, nmax):
        n = draw(st.integers(nmin, nmax))
        pattern = draw(st.sampled_from(['uniform', 'mild', 'mild', 'wild']))
        sign = draw(st.sampled_from(['neg', 'end0', 'straddle', 'start0', 'pos']))
        if pattern == 'uniform':
            step = draw(st.sampled_from([0.25, 1.0, 2.0, 8.0]))
            k0 = {'neg': -(n + draw(st.integers(0, 20))), 'end0': -(n - 1),
                  'straddle': -draw(st.integers(1, max(1, n - 2))), 'start0': 0, 'pos': draw(st.integers(1, 20))}[sign]
            return [float((k0 + i) * step) for i in range(n)], sign, pattern
        if pattern == 'mild':
            u = [draw(nice(0.5, 2.0)) for _ in range(n - 1)]
        else:
            u = [draw(st.sampled_from([0.1, 0.3, 1.0, 1.0])) * draw(nice(0.8, 1.0)) for _ in range(n - 1)]
        scale = draw(st.sampled_from([0.01, 1.0, 1.0, 100.0])) * draw(nice(0.5, 2.0))
        h = [x * scale for x in u]
        span = float(sum(h))
        if sign in ('pos', 'start0', 'straddle'):
            start = {'pos': span * draw(st.sampled_from([0.01, 0.5, 3.0])) * draw(nice(0.5, 1.0)),
                     'start0': 0.0, 'straddle': -span * draw(nice(0.05, 0.95))}[sign]
            g = [start]
            for x in h:
                g.append(g[-1] + x)
        else:
            end = 0.0 if sign == 'end0' else -span * draw(st.sampled_from([0.01, 0.5, 3.0])) * draw(nice(0.5, 1.0))
            g = [end]
            for x in reversed(h):
                g.append(g[-1] - x)
            g = g[::-1]
        g = [float(x) for x in g]
        if not all(b > a for a, b in zip(g, g[1:])):
            g = [float(i) for i in range(n)]
            sign = 'start0'
        return g, sign, pattern

    @st.composite
    def rough(draw, dim):
        rkind = draw(st.sampled_from(['cos'] * 7 + ['ramp', 'ramp', 'const']))
        if rkind == 'cos':
            return {'kind': 'cos', 'w': [draw(nice(0.5, 3.0)) for _ in range(dim)], 'phi': draw(nice(0.0, 6.0)),
                    'amp': draw(st.sampled_from([1.0, 1e-3, 1e3])) * draw(nice(0.5, 2.0))}
        if rkind == 'ramp':
            return {'kind': 'ramp', 'a': [float(draw(st.integers(-3, 3))) for _ in range(dim)],
                    'c0': float(draw(st.integers(-5, 5)))}
        return {'kind': 'const', 'c0': draw(st.sampled_from([0.0, 1.0, -2.5, 1e3]))}

    @st.composite
    def interior_point(draw, grids):
        p = []
        for g in grids:
            k = draw(st.integers(0, len(g) - 2))
            t = draw(st.sampled_from([0.5, 0.25, 0.9, 0.05, 0.95, None]))
            if t is None:
                t = draw(nice(0.06, 0.94))
            x = g[k] + t * (g[k + 1] - g[k])
            tt = (x - g[k]) / (g[k + 1] - g[k])
            if not (0.045 <= tt <= 0.955):
                x = 0.5 * (g[k] + g[k + 1])
            p.append(float(x))
        return p

    @st.composite
    def table_case(draw, kind):
        if kind == 'train':
            method = draw(st.sampled_from(base.BASE_METHODS[:5] * 2 + ['akima'] * 3 + base.BASE_METHODS[5:]))
        else:
            method = draw(st.sampled_from(base.BASE_METHODS[:5] * 3 + base.BASE_METHODS[5:]))
        dim = draw(st.sampled_from([1, 2, 2, 3]))
        nmin = base.MIN_POINTS[method]
        nmax = {1: 8, 2: 6, 3: 5}[dim]
        if method.startswith('scipy') and dim == 3:
            nmax = 4
        axes = [draw(axis(nmin, max(nmin, nmax))) for _ in range(dim)]
        grids = [a[0] for a in axes]
        npts = draw(st.sampled_from([1, 2, 3]))
        pts = [draw(interior_point(grids)) for _ in range(npts)]
        c = {'kind': kind, 'method': method, 'grids': grids, 'rough': draw(rough(dim)), 'points': pts,
             'signs': [a[1] for a in axes], 'spacings': [a[2] for a in axes],
             'extrapolate': draw(st.booleans())}
        if method == 'akima':
            c['delta_x'] = draw(st.sampled_from([0.0, 0.0, 0.1, 0.1, 0.5]))
        if kind == 'train':
            d = draw(rough(dim))
            if d['kind'] == 'const' and d['c0'] == 0.0:
                d['c0'] = 1.0
            c['delta'] = d
        return c

    @st.composite
    def spline_case(draw, kind):
        method = draw(st.sampled_from(SPLINE_METHODS[:6] * 2 + ['akima'] * 3 + SPLINE_METHODS[6:]))
        vec = draw(st.sampled_from([1, 1, 2]))
        c = {'kind': kind, 'method': method}
        if method == 'bsplines':
            order = draw(st.sampled_from([2, 3, 4, 4]))
            ncp = draw(st.integers(order, order + 5))
            c['opts'] = {'order': order}
            nint = draw(st.sampled_from([2, 2, 3, 5, 7]))
            lo = draw(nice(-5.0, 5.0))
            xi = sorted({float(lo + draw(nice(0.0, 4.0))) for _ in range(nint - 2)} | {float(lo), float(lo + 4.0)})
            c['x_interp'] = xi
        else:
            nmin = base.MIN_POINTS[method]
            g, sign, pattern = draw(axis(nmin, max(nmin, 8)))
            ncp = len(g)
            c['xcp'] = g
            c['signs'] = [sign]
            nint = draw(st.integers(1, 6))
            xi = []
            for _ in range(nint):
                k = draw(st.integers(0, ncp - 2))
                t = draw(st.sampled_from([0.0, 0.5, 0.25, 1.0, None]))
                if t is None:
                    t = draw(nice(0.0, 1.0))
                x = g[k] + t * (g[k + 1] - g[k]) if t not in (0.0, 1.0) else (g[k] if t == 0.0 else g[k + 1])
                xi.append(float(min(max(x, g[0]), g[-1])))
            c['x_interp'] = sorted(xi)
            if method == 'akima':
                c['opts'] = {'delta_x': draw(st.sampled_from([0.0, 0.0, 0.1]))}
        amp = draw(st.sampled_from([1.0, 1e-3, 1e3]))
        ykind = draw(st.sampled_from(['rand'] * 6 + ['const', 'ramp']))

        def val():
            # exactly zero, or a magnitude within three decades of amp (DESIGN 2.2: bounded 'nice' floats)
            if draw(st.integers(0, 7)) == 0:
                return 0.0
            return amp * draw(nice(1e-3, 1.0)) * draw(st.sampled_from([-1.0, 1.0]))
        rows = []
        for _ in range(vec):
            if ykind == 'rand':
                rows.append([val() for _ in range(ncp)])
            elif ykind == 'const':
                rows.append([amp] * ncp)
            else:
                rows.append([amp * float(i) for i in range(ncp)])
        c['y'] = rows
        c['dy'] = [[amp * draw(nice(1e-3, 1.0)) * draw(st.sampled_from([-1.0, 1.0])) for _ in range(ncp)]
                   for _ in range(vec)]
        return c

    @st.composite
    def case(draw):
        kind = draw(st.sampled_from(['table'] * 5 + ['train'] * 2 + ['spline'] * 2 + ['splinecomp'] * 2))
        if kind in ('table', 'train'):
            return draw(table_case(kind))
        return draw(spline_case(kind))

    return case()


# ---------------------------------------------------------------------------------------------
# work units
# ---------------------------------------------------------------------------------------------

def units(tier, seed):
    nshards = 16 if tier == 'quick' else 32
    per = 220 if tier == 'quick' else 8000
    return [{'kind': 'random', 'n': per, 'seed': core.shard_seed(seed, ID, i)} for i in range(nshards)]


def run_unit(unit, ctx):
    core.run_hypothesis(ctx, strategy(), check, unit['n'], unit['seed'], shrink=unit.get('tier') == 'thorough')
