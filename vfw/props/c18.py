"""C18  Case recordings survive a crash at any point as a consistent prefix.   (level: fault_enumeration)

Fault model : the recording process dies (os._exit, i.e. no Python / SQLite cleanup - the OS-visible effect of SIGKILL
              between two system calls) at boundary k of its stream of sqlite calls (before / after every execute,
              executemany, commit and connection-context exit) after final_setup() returned.  ALL k are enumerated per run.
Oracle      : a complete run of the same spec gives the reference case list L; the crashed file must open with CaseReader,
              list a prefix of L, every listed case must load with values equal to L's, and the prefix length must be
              monotone in k.
"""
import json
import os
import shutil
import sqlite3
import sys
import tempfile

import numpy as np

from vfw import core
from vfw.core import Result

ID = 'C18'
LEVEL = 'fault_enumeration'
TECHNIQUE = 'exhaustive enumeration of process-death points at every sqlite call boundary of generated recorded runs (forked children, os._exit); complete run as reference'
RULE = ("case = (recorded-run spec, crash boundary k). Specs are drawn by Hypothesis: a 1-2 component model (optionally a "
        "coupled pair under NonlinearBlockGS), run by DOEDriver(ListGenerator, 2-4 points) or by repeated run_model with "
        "problem.record(), one SqliteRecorder attached to a drawn subset of {driver, problem, model, component, nonlinear "
        "solver}, record_derivatives drawn. For each spec EVERY boundary k = 1..K of the sqlite call stream after final_setup is "
        "a case in the thorough tier (K is typically 40-300); the quick tier visits all of them when K <= 45 and a seeded "
        "sample of 45 otherwise (the stream repeats the same statements for every recorded case); plus 4 (quick) or 6 real "
        "SIGKILLs at delays spread over the run. After every crash the per-source case listings must also agree with the "
        "global case list. Non-trivial = the process died strictly inside a transaction (after an INSERT, before "
        "its commit) or before the first commit of a case. Distinct = distinct (spec, k).")
ASSUMPTIONS = [
    "process death is modelled by os._exit(137) at a call boundary of the sqlite3 API inside a forked child: neither Python "
    "nor SQLite run any cleanup, buffered pages are lost exactly as with SIGKILL; kernel/disk power-loss durability is out of "
    "reach (no block-device fault injection in the sandbox)",
    "crash points start when final_setup() has returned (the recorder's own startup, which creates the schema in one "
    "transaction, is not part of 'after the recorder started')",
    "a second tier SIGKILLs an uninstrumented child after a delay (counted from the moment final_setup returned) spread over the measured recording time; its timing is not "
    "reproducible, so on a violation the crashed database files are embedded in the replay case",
    "the reader runs in the parent process on the files the dead child left behind (main database + hot journal)",
]
UNIT_TIMEOUT = {'quick': 1500, 'thorough': 4 * 3600}

_ref_cache = {}
_last = {}


# ---------------------------------------------------------------------------------------------------------------------
# the recorded run
# ---------------------------------------------------------------------------------------------------------------------

def build_run(spec, fname):
    import openmdao.api as om
    p = om.Problem(reports=False)
    m = p.model
    npts = spec['npts']
    m.add_subsystem('iv', om.IndepVarComp('x', val=np.array(spec['x0'], dtype=float)))
    if spec['coupled']:
        g = m.add_subsystem('g', om.Group())
        g.add_subsystem('a', om.ExecComp('y = 0.3*z + x[0] + 2*x[1]', x=np.ones(2)))
        g.add_subsystem('b', om.ExecComp('z = 0.2*y + 1.0'))
        g.connect('a.y', 'b.y')
        g.connect('b.z', 'a.z')
        g.nonlinear_solver = om.NonlinearBlockGS(maxiter=30, atol=1e-12, rtol=1e-12, iprint=-1)
        g.linear_solver = om.DirectSolver()
        m.connect('iv.x', 'g.a.x')
        m.add_subsystem('c', om.ExecComp('f = (y - 1.0)**2 + 1.0'))
        m.connect('g.a.y', 'c.y')
        comp = g.a
        solver_owner = g
    else:
        m.add_subsystem('a', om.ExecComp('y = x[0]**2 + 3*x[1]', x=np.ones(2)))
        m.add_subsystem('c', om.ExecComp('f = (y - 1.0)**2 + 1.0'))
        m.connect('iv.x', 'a.x')
        m.connect('a.y', 'c.y')
        comp = m.a
        solver_owner = None
    m.add_design_var('iv.x', lower=-10, upper=10)
    m.add_objective('c.f')
    if spec['driver'] == 'doe':
        pts = [[('iv.x', np.array(pt, dtype=float))] for pt in spec['points'][:npts]]
        p.driver = om.DOEDriver(om.ListGenerator(pts))
    rec = om.SqliteRecorder(fname)
    att = spec['attach']
    if 'driver' in att:
        p.driver.add_recorder(rec)
        p.driver.recording_options['record_derivatives'] = bool(spec.get('derivs'))
    if 'problem' in att:
        p.add_recorder(rec)
    if 'model' in att:
        m.add_recorder(rec)
    if 'comp' in att:
        comp.add_recorder(rec)
    if 'solver' in att and solver_owner is not None:
        solver_owner.nonlinear_solver.add_recorder(rec)
    return p


def execute_run(p, spec):
    if spec['driver'] == 'doe':
        p.run_driver()
        if 'problem' in spec['attach']:
            p.record('final')
    else:
        for i, pt in enumerate(spec['points'][:spec['npts']]):
            p.set_val('iv.x', np.array(pt, dtype=float))
            # repeated runs restart the iteration counters: a case_prefix keeps the case names unique (as the docs advise)
            p.run_model(case_prefix=f"run{i}")
            if 'problem' in spec['attach']:
                p.record(f"pt{i}")
    p.cleanup()


# ---------------------------------------------------------------------------------------------------------------------
# crash injection (child side)
# ---------------------------------------------------------------------------------------------------------------------

class _Crash(object):
    armed = False
    count = 0
    target = None
    pipe = None
    in_case_tx = False

    @classmethod
    def boundary(cls, label):
        if not cls.armed:
            return
        cls.count += 1
        if cls.target is not None and cls.count == cls.target:
            try:
                os.write(cls.pipe, json.dumps({'label': label, 'in_tx': cls.in_case_tx}).encode())
            finally:
                os._exit(137)


class _Cursor(sqlite3.Cursor):
    def execute(self, sql, *a):
        head = ' '.join(sql.split()[:3])
        _Crash.boundary('before:execute:' + head)
        r = super().execute(sql, *a)
        if head.startswith('INSERT INTO') and 'metadata' not in head:
            _Crash.in_case_tx = True
        _Crash.boundary('after:execute:' + head)
        return r

    def executemany(self, sql, *a):
        _Crash.boundary('before:executemany')
        r = super().executemany(sql, *a)
        _Crash.boundary('after:executemany')
        return r


class _Conn(sqlite3.Connection):
    def cursor(self, factory=_Cursor):
        return super().cursor(factory)

    def execute(self, sql, *a):
        head = ' '.join(sql.split()[:3])
        _Crash.boundary('before:execute:' + head)
        r = super().execute(sql, *a)
        if head.startswith('INSERT INTO') and 'metadata' not in head:
            _Crash.in_case_tx = True
        _Crash.boundary('after:execute:' + head)
        return r

    def commit(self):
        _Crash.boundary('before:commit')
        r = super().commit()
        _Crash.in_case_tx = False
        _Crash.boundary('after:commit')
        return r

    def __exit__(self, *a):
        _Crash.boundary('before:context-exit')
        r = super().__exit__(*a)
        _Crash.in_case_tx = False
        _Crash.boundary('after:context-exit')
        return r


def _child(spec, k, wdir, wfd):
    """Runs in the forked child. Never returns."""
    code = 3
    try:
        os.chdir(wdir)
        devnull = os.open(os.devnull, os.O_WRONLY)
        os.dup2(devnull, 1)
        os.dup2(devnull, 2)
        real_connect = sqlite3.connect

        def connect(*a, **kw):
            kw.setdefault('factory', _Conn)
            con = real_connect(*a, **kw)
            # the property is about the death of the process, not of the machine: without fsync the operating system
            # still holds every page the process wrote, so what a reader sees after the kill is unchanged (and the
            # enumeration is ~5x cheaper)
            armed, _Crash.armed = _Crash.armed, False
            try:
                con.execute('PRAGMA synchronous=OFF')
            finally:
                _Crash.armed = armed
            return con
        sqlite3.connect = connect
        _Crash.target = k
        _Crash.pipe = wfd
        p = build_run(spec, os.path.join(wdir, 'cases.sql'))
        p.setup()
        p.final_setup()
        _Crash.armed = True
        os.write(wfd, b'A')          # tells the parent that recording proper starts now
        execute_run(p, spec)
        os.write(wfd, json.dumps({'label': 'completed', 'count': _Crash.count}).encode())
        code = 0
    except BaseException as e:     # noqa
        try:
            os.write(wfd, json.dumps({'label': 'child-exception', 'error': f"{type(e).__name__}: {e}"[:300]}).encode())
        except Exception:
            pass
        code = 4
    finally:
        os._exit(code)


def run_child(spec, k):
    """Fork a child that performs the run and dies at boundary k (None = complete). Returns (info, dir)."""
    wdir = tempfile.mkdtemp(prefix='c18_')
    r, w = os.pipe()
    sys.stdout.flush()
    pid = os.fork()
    if pid == 0:
        os.close(r)
        _child(spec, k, wdir, w)
    os.close(w)
    import time
    data = b''
    t_arm = None
    while True:
        chunk = os.read(r, 65536)
        if not chunk:
            break
        if t_arm is None and chunk[:1] == b'A':
            t_arm = time.time()
        data += chunk
    t_end = time.time()
    os.close(r)
    _, status = os.waitpid(pid, 0)
    if data[:1] == b'A':
        data = data[1:]
    info = json.loads(data.decode()) if data else {'label': 'no-report'}
    info['exit'] = os.waitstatus_to_exitcode(status)
    info['armed_to_end_ms'] = (t_end - t_arm) * 1000.0 if t_arm else None
    return info, wdir


def read_cases(wdir):
    import openmdao.api as om
    cr = om.CaseReader(os.path.join(wdir, 'cases.sql'))
    names = cr.list_cases(recurse=True, flat=True, out_stream=None)
    out = []
    for n in names:
        c = cr.get_case(n)
        vals = {}
        for src in (c.outputs, c.inputs, c.residuals):
            if src:
                for k2 in src.keys():
                    vals[k2] = np.asarray(src[k2]).copy()
        out.append((n, c.source, vals))
    # the per-source listings are read from the case tables themselves, the global list from the iteration index:
    # both must describe the same cases
    by_source = []
    for src in cr.list_sources(out_stream=None):
        by_source.extend(cr.list_cases(src, recurse=False, flat=True, out_stream=None))
    if sorted(by_source) != sorted(names):
        raise InconsistentListing(f"cases listed per source {sorted(by_source)} differ from the global case list {sorted(names)}")
    return out


class InconsistentListing(Exception):
    pass


def reference(spec):
    key = core.case_hash(spec)
    if key not in _ref_cache:
        info, wdir = run_child(spec, None)
        try:
            if info.get('label') != 'completed':
                raise RuntimeError(f"C18 reference run failed: {info}")
            _ref_cache.clear()
            _ref_cache[key] = (read_cases(wdir), info['count'])
        finally:
            shutil.rmtree(wdir, ignore_errors=True)
    return _ref_cache[key]


def check_sigkill(case):
    """Random-time tier: the child is SIGKILLed by the parent after a drawn delay (timing is not reproducible; when a
    violation is found the crashed database is embedded in the case, and replaying the case re-reads that file)."""
    import base64
    import signal
    import time
    spec = case['spec']
    res = Result(classes=['sigkill'])
    L, K = reference(spec)
    wdir = None
    try:
        if case.get('db_b64'):
            wdir = tempfile.mkdtemp(prefix='c18_')
            for name, b64 in case['db_b64'].items():
                with open(os.path.join(wdir, name), 'wb') as f:
                    f.write(base64.b64decode(b64))
        else:
            wdir = tempfile.mkdtemp(prefix='c18_')
            r, w = os.pipe()
            sys.stdout.flush()
            pid = os.fork()
            if pid == 0:
                os.close(r)
                _child(spec, None, wdir, w)
            os.close(w)
            os.read(r, 1)            # wait until the child reports that final_setup has returned
            time.sleep(case['delay_ms'] / 1000.0)
            try:
                os.kill(pid, signal.SIGKILL)
            except ProcessLookupError:
                pass
            os.close(r)
            os.waitpid(pid, 0)
        path = os.path.join(wdir, 'cases.sql')
        if not os.path.exists(path):
            res.classes.append('killed_before_file_exists')
            return res
        files = {n: open(os.path.join(wdir, n), 'rb').read() for n in os.listdir(wdir) if n.startswith('cases.sql')}
        try:
            got = read_cases(wdir)
        except Exception as e:
            import sqlite3 as _s
            # a kill during the recorder's own start-up (schema creation) is before 'the recorder started'
            try:
                con = _s.connect(path)
                ntab = con.execute("select count(*) from sqlite_master where type='table'").fetchone()[0]
                con.close()
            except Exception:
                ntab = -1
            if ntab == 0:
                res.classes.append('killed_during_recorder_startup')
                return res
            res.fail('sigkill:unreadable-after-kill', f"{type(e).__name__}: {e}")
            case['db_b64'] = {n: base64.b64encode(b).decode() for n, b in files.items()}
            return res
        names = [g[0] for g in got]
        ref_names = [g[0] for g in L]
        bad = names != ref_names[:len(names)]
        if not bad:
            for (n, src, vals), (_, rsrc, rvals) in zip(got, L):
                if src != rsrc or set(vals) != set(rvals) or any(not np.array_equal(vals[v], rvals[v]) for v in vals):
                    bad = True
        if bad:
            res.fail('sigkill:not-a-consistent-prefix', f"got {names} reference {ref_names}")
            case['db_b64'] = {n: base64.b64encode(b).decode() for n, b in files.items()}
        res.nontrivial = 0 < len(names) < len(ref_names)
        res.classes.append('partial_prefix' if res.nontrivial else ('empty' if not names else 'complete'))
        return res
    finally:
        if wdir:
            shutil.rmtree(wdir, ignore_errors=True)


def check(case):
    if case.get('kind') == 'sigkill':
        return check_sigkill(case)
    spec, k = case['spec'], case['k']
    res = Result()
    L, K = reference(spec)
    if k > K:
        res.classes = ['beyond_last_boundary']
        return res
    info, wdir = run_child(spec, k)
    try:
        cls = ['attach_' + '+'.join(sorted(spec['attach'])), spec['driver'], 'coupled' if spec['coupled'] else 'plain']
        if info.get('label') in ('child-exception', 'no-report', 'completed'):
            raise RuntimeError(f"C18 child did not die at boundary {k}: {info}")
        label = info['label']
        cls.append(label.split(':')[0] + ':' + label.split(':')[1])
        try:
            got = read_cases(wdir)
        except Exception as e:
            if isinstance(e, InconsistentListing):
                sig = 'source-listing-differs-from-global-list'
            else:
                sig = core.repo_frame_signature(e, 'reader') or f"reader:{type(e).__name__}"
            res.fail(f"unreadable-after-crash:{sig}", f"k={k} at {label}: {type(e).__name__}: {e}")
            res.classes = cls
            return res
        names = [g[0] for g in got]
        ref_names = [g[0] for g in L]
        if names != ref_names[:len(names)]:
            res.fail('not-a-prefix', f"k={k} at {label}: got {names} reference {ref_names}")
        else:
            for (n, src, vals), (_, rsrc, rvals) in zip(got, L):
                if src != rsrc or set(vals) != set(rvals) or any(not np.array_equal(vals[v], rvals[v]) for v in vals):
                    res.fail('case-differs-from-complete-run', f"k={k} at {label}: case {n}")
                    break
        res.nontrivial = bool(info.get('in_tx')) or len(names) == 0
        res.classes = cls + ['in_transaction' if info.get('in_tx') else 'between_transactions', f"prefix_len_{min(len(names), 9)}"]
        _last['plen'] = len(names)
        return res
    finally:
        shutil.rmtree(wdir, ignore_errors=True)


# ---------------------------------------------------------------------------------------------------------------------

def spec_strategy():
    from hypothesis import strategies as st

    @st.composite
    def spec(draw):
        coupled = draw(st.booleans())
        opts = ['driver', 'problem', 'model', 'comp'] + (['solver'] if coupled else [])
        attach = draw(st.lists(st.sampled_from(opts), min_size=1, max_size=3, unique=True))
        if coupled and 'solver' not in attach and draw(st.booleans()):
            attach = attach[:2] + ['solver']
        driver = draw(st.sampled_from(['doe', 'runs']))
        if driver == 'runs' and attach == ['driver']:
            attach = ['driver', 'problem']
        npts = draw(st.integers(2, 4))
        pts = [[draw(st.integers(-6, 6)) / 2.0, draw(st.integers(-6, 6)) / 2.0] for _ in range(4)]
        return {'coupled': coupled, 'attach': sorted(attach), 'driver': driver, 'npts': npts, 'points': pts,
                'x0': [1.0, 2.0], 'derivs': draw(st.booleans())}
    return spec()


def units(tier, seed):
    n = 16          # quick: a sample of 45 boundaries per spec; thorough: every boundary of 16 other specs (~25 min)
    per = 1
    return [{'kind': 'enumerate', 'nspecs': per, 'seed': core.shard_seed(seed, ID, i),
             'max_boundaries': 45 if tier == 'quick' else None, 'nkills': 4 if tier == 'quick' else 6} for i in range(n)]


def run_unit(unit, ctx):
    import hypothesis
    from hypothesis import given, settings, HealthCheck, Phase
    specs = []

    # Hypothesis starts every run with its simplest example (one recorder on the driver of the plain model): draw four
    # more than needed and keep the last ones, so that the shards explore different specs
    @hypothesis.seed(unit['seed'])
    @settings(max_examples=unit['nspecs'] + 4, phases=[Phase.generate], database=None, deadline=None,
              suppress_health_check=list(HealthCheck))
    @given(spec_strategy())
    def collect(s):
        if s not in specs:
            specs.append(s)
    collect()
    specs = specs[-unit['nspecs']:]
    import random
    rng = random.Random(unit['seed'])
    for spec in specs:
        L, K = reference(spec)
        last = -1
        ks = list(range(1, K + 1))
        cap = unit.get('max_boundaries')
        if cap and K > cap:
            # quick tier: a seeded sample of the boundaries (the call stream repeats the same few statements for every
            # case, so a sample visits every kind of boundary several times); the thorough tier visits all of them
            ks = sorted(rng.sample(ks, cap))
            ctx.extra['sampled_specs'] = ctx.extra.get('sampled_specs', 0) + 1
        for k in ks:
            case = {'spec': spec, 'k': k}
            _last.pop('plen', None)
            res = core.safe_check(check, case, ctx)
            plen = _last.get('plen')
            if res is not None and plen is not None:
                if plen < last:
                    r2 = Result(classes=['monotonicity'])
                    r2.fail('prefix-length-not-monotone', f"k={k}: prefix length {plen} after {last}")
                    ctx.record({'spec': spec, 'k': k}, r2)
                last = max(last, plen)
        # random-time SIGKILL tier (not reproducible in timing): delays spread over the measured run time
        info, wd = run_child(spec, None)
        shutil.rmtree(wd, ignore_errors=True)
        dur_ms = max(2.0, info.get('armed_to_end_ms') or 2.0)
        nk = unit.get('nkills', 6)
        for j in range(nk):
            core.safe_check(check, {'kind': 'sigkill', 'spec': spec, 'delay_ms': round(dur_ms * (j + 0.5) / nk, 1)}, ctx)
        ctx.extra['specs'] = ctx.extra.get('specs', 0) + 1
        ctx.extra['boundaries'] = ctx.extra.get('boundaries', 0) + len(ks)
        ctx.extra['boundaries_of_complete_runs'] = ctx.extra.get('boundaries_of_complete_runs', 0) + K
