"""C13  Derivative checks report exactly what they compare.

Domain : one component (explicit with declared partials in every storage format, explicit matrix-free, implicit) whose
         function is a quadratic with integer-coded coefficients, so the exact partials J* are known in closed form, and
         whose returned analytic partials J^ are J* plus drawn errors, masked by a drawn (possibly under-declared)
         sparsity pattern; check_partials with drawn method / form / step(s) / step_calc / tolerances, called once or
         twice; and a two-component chain for check_totals.
Oracle : the returned dict is compared with (a) J^ recomputed by the harness, (b) the harness's own FD / CS quotient of
         the same function, (c) the error fields recomputed from the *reported* arrays with the documented formula
         |x - ref| - (atol + rtol |ref|), (d) the set of out-of-pattern entries whose approximated value exceeds the
         threshold.
"""
import numpy as np

from vfw import core
from vfw.core import Result

ID = 'C13'
LEVEL = 'exploration'
TECHNIQUE = ('Hypothesis-generated quadratic components with known exact partials and drawn analytic errors / '
             'under-declared sparsity; harness finite-difference / complex-step quotient and recomputed error norms '
             'as reference oracle for the dict returned by check_partials / check_totals')
RULE = ("case = (component flavour: explicit-with-declared-partials | matrix-free | implicit | two-component chain for "
        "check_totals; 1-3 inputs of 1-4 entries, 1-2 outputs; quadratic coefficients as integers/4; per (of,wrt) pair a "
        "storage format dense | rows/cols | diagonal | scipy coo/csr/csc, a declared pattern that may omit true nonzeros "
        "in several columns, analytic errors in k entries, constant (declare_partials val=) or computed partials; "
        "check options method fd|cs, form, one or two steps, step_calc, minimum_step, abs/rel tolerance, force_dense, "
        "per-variable set_check_partial_options, Problem- or Component-level call; one or two evaluation points, the "
        "check being called at each). Non-trivial = some pair has a nonzero analytic error or out-of-pattern nonzeros "
        "in >= 2 columns (check_totals: nonzero error). Distinct = distinct canonical JSON.")
ASSUMPTIONS = [
    "error fields follow the definition in the docstring of openmdao.utils.array_utils.get_tol_violation: tol violation = "
    "max over entries of |x - ref| - (atol + rtol*|ref|) with ref = J_fd (forward, reverse) or J_rev (fwd_rev); "
    "vals_at_max_error / 'abs error' / 'rel error' are x, ref, |x-ref| and |x-ref|/|ref| (inf when ref == 0) at an entry "
    "attaining that maximum (any maximiser is accepted on ties); magnitude = max |J| (for several steps the fd magnitude "
    "may be that step's or the running maximum over steps)",
    "the reference quotient uses the same function, step and form; tolerance 64*eps*(sum of |terms| of f)/h + 1e-9*|value| "
    "for fd and 1e-12 relative for cs; step_calc semantics as documented for declare_partials (abs, rel_avg, rel_element, "
    "rel_legacy, minimum_step)",
    "sparsity audit: an entry outside the declared pattern must be listed when the exact quotient is far above the "
    "threshold (> 1e-6 in magnitude) and must not be listed when the function does not depend on that input at all "
    "(the quotient is then exactly zero); entries in between (round-off sized quotients) are not judged; duplicates in "
    "the list are ignored (compared as a set)",
    "J_fd outside the declared pattern may be reported either as the quotient or as zero (the flagged entries carry "
    "that information)",
    "force_dense=False may return the analytic partial as a scipy matrix or in the declared rows/cols layout; it is "
    "densified by the harness before comparison",
    "directional checks, partials declared with method='fd'/'cs', undeclared partials and MPI are not generated",
]
BOUND = {'quick': '4 shards x 400 Hypothesis cases', 'thorough': '16 shards x 3200 cases'}
MIN_CLASS_FRACTION = {'judged': 0.7, 'uncovered_cols>=2': 0.04, 'analytic_error': 0.15, 'matrix_free': 0.04,
                      'implicit': 0.04, 'totals': 0.05}
UNIT_TIMEOUT = {'quick': 1500, 'thorough': 7200}

Q = 4.0
THRESH = 1e-16          # _CheckingJacobian default uncovered_threshold
SPARSE_FMTS = ('rc', 'diag', 'coo', 'csr', 'csc')
SCIPY_FMTS = ('coo', 'csr', 'csc')

SIG_F7A = 'F7a-sparse-uncovered-only-first-column'
SIG_F7B = 'F7b-csr-uncovered-never-listed'
SIG_F7C = 'F7c-diagonal-uncovered-KeyError'
SIG_F7D = 'F7d-checking-jacobian-shares-subjac-meta'
SIG_F7E = 'F7e-force_dense-false-sparse-partial'


# ---------------------------------------------------------------------------------------------
# the function family
# ---------------------------------------------------------------------------------------------

class Quad(object):
    """f(v) = c + g v + 1/2 v^T H v  (H symmetric per row), coefficients integers / 4."""

    def __init__(self, M, N, c, g, H):
        self.M, self.N = M, N
        self.c = np.array(c, dtype=float) / Q
        self.g = np.array(g, dtype=float).reshape(M, N) / Q
        self.H = np.zeros((M, N, N))
        for (k, i, j, v) in H:
            k, i, j = k % M, i % N, j % N
            self.H[k, i, j] += v / Q
            if i != j:
                self.H[k, j, i] += v / Q
        # structural dependence: row k uses variable i at all
        self.dep = (self.g != 0) | np.any(self.H != 0, axis=2)

    def dep_at(self, v):
        """Row k changes at all when variable i is perturbed at the point v: some term containing v_i has a cofactor that
        is not exactly zero (otherwise every product involving v_i is an exact floating point zero)."""
        nz = np.asarray(v).real != 0
        d = (self.g != 0) | np.any((self.H != 0) & nz[None, None, :], axis=2)
        for i in range(self.N):
            d[:, i] |= self.H[:, i, i] != 0
        return d

    def f(self, v):
        return self.c + self.g @ v + 0.5 * np.einsum('kij,i,j->k', self.H, v, v)

    def jac(self, v):
        return self.g + np.einsum('kij,j->ki', self.H, v)

    def mag(self, v):
        a = np.abs(v)
        return np.abs(self.c) + np.abs(self.g) @ a + 0.5 * np.einsum('kij,i,j->k', np.abs(self.H), a, a)


def _offsets(sizes):
    return np.concatenate([[0], np.cumsum(sizes)]).astype(int)


def step_sizes(xv, step, step_calc, minimum_step):
    """h for each entry of one variable, from the documented step_calc semantics."""
    xv = np.asarray(xv, dtype=float)
    if step_calc in (None, 'abs'):
        return np.full(xv.size, step)
    if step_calc in ('rel', 'rel_avg'):
        s = step * np.sum(np.abs(xv)) / len(xv)
        return np.full(xv.size, s if s >= minimum_step else minimum_step)
    if step_calc == 'rel_legacy':
        s = step * np.linalg.norm(xv)
        return np.full(xv.size, s if s >= minimum_step else minimum_step)
    hv = np.abs(xv) * step
    hv[hv < minimum_step] = minimum_step
    return hv


def quotient(fun, magfun, v, cols, h, method, form):
    """Reference approximation of d fun / d v[cols] and its round-off tolerance; returns (J, tol)."""
    v = np.asarray(v, dtype=float)
    M = fun(v).size
    J = np.zeros((M, len(cols)))
    tol = np.zeros((M, len(cols)))
    eps = np.finfo(float).eps
    f0 = fun(v)
    for n, (j, hj) in enumerate(zip(cols, h)):
        if method == 'cs':
            vc = v.astype(complex)
            vc[j] += 1j * hj
            J[:, n] = fun(vc).imag / hj
            tol[:, n] = 1e-12 * (np.abs(J[:, n]) + 1.0)
            continue
        vp = v.copy()
        vp[j] += hj
        vm = v.copy()
        vm[j] -= hj
        if form == 'forward':
            J[:, n] = (fun(vp) - f0) / hj
        elif form == 'backward':
            J[:, n] = (f0 - fun(vm)) / hj
        else:
            J[:, n] = (fun(vp) - fun(vm)) / (2 * hj)
        tol[:, n] = 64 * eps * np.maximum(magfun(vp), magfun(vm)) / hj + 1e-9 * np.abs(J[:, n]) + 1e-13
    return J, tol


# ---------------------------------------------------------------------------------------------
# case decoding
# ---------------------------------------------------------------------------------------------

class Spec(object):
    """Decoded 'partials' case."""

    def __init__(self, case):
        self.case = case
        self.flavor = case['flavor']
        self.in_sizes = [len(v) for v in case['points'][0]['x']]
        self.out_sizes = list(case['outs'])
        self.in_names = [f"x{i}" for i in range(len(self.in_sizes))]
        self.out_names = [f"y{k}" for k in range(len(self.out_sizes))]
        self.implicit = self.flavor == 'implicit'
        self.wrt_names = self.in_names + (self.out_names if self.implicit else [])
        self.wrt_sizes = self.in_sizes + (self.out_sizes if self.implicit else [])
        self.M = sum(self.out_sizes)
        self.N = sum(self.wrt_sizes)
        self.roff = _offsets(self.out_sizes)
        self.coff = _offsets(self.wrt_sizes)
        self.quad = Quad(self.M, self.N, case['c'], case['g'], case['H'])
        self.pairs = {}
        n = 0
        for k in range(len(self.out_sizes)):
            for w in range(len(self.wrt_sizes)):
                if self.flavor != 'mfree':
                    self.pairs[(k, w)] = case['pairs'][n]
                n += 1

    def vec(self, point):
        parts = [np.array(v, dtype=float) for v in point['x']]
        if self.implicit:
            parts += [np.array(v, dtype=float) for v in point['u']]
        return np.concatenate(parts)

    def block(self, A, k, w):
        return A[self.roff[k]:self.roff[k + 1], self.coff[w]:self.coff[w + 1]]

    def mask(self, k, w):
        pr = self.pairs[(k, w)]
        mb, nb = self.out_sizes[k], self.wrt_sizes[w]
        fmt = pr['fmt']
        if fmt == 'dense':
            return np.ones((mb, nb), dtype=bool)
        if fmt == 'diag':
            return np.eye(mb, dtype=bool)
        m = np.zeros((mb, nb), dtype=bool)
        for r, c in pr['pat']:
            m[r, c] = True
        return m

    def err_block(self, k, w):
        pr = self.pairs[(k, w)]
        mb, nb = self.out_sizes[k], self.wrt_sizes[w]
        E = np.zeros((mb, nb))
        for r, c, d in pr['err']:
            E[r % mb, c % nb] += d / Q
        return E

    def jhat_block(self, k, w, v):
        """The analytic partial the component returns for pair (k, w) at v (dense, masked by the declared pattern)."""
        pr = self.pairs[(k, w)]
        if pr['const']:
            v = self.vec(self.case['points'][0])
        J = self.block(self.quad.jac(np.asarray(v).real), k, w) + self.err_block(k, w)
        return np.where(self.mask(k, w), J, 0.0)

    def mfree_jhat(self, v, which):
        E = np.zeros((self.M, self.N))
        for r, c, d in self.case[which]:
            E[r % self.M, c % self.N] += d / Q
        return self.quad.jac(np.asarray(v).real) + E


def _layout_val(spec, k, w, Jb):
    """Put the dense block into the storage layout declared for the pair."""
    import scipy.sparse as sp
    pr = spec.pairs[(k, w)]
    fmt = pr['fmt']
    if fmt == 'dense':
        return Jb.copy()
    if fmt == 'diag':
        return np.diag(Jb).copy()
    rows = np.array([r for r, _ in pr['pat']], dtype=int)
    cols = np.array([c for _, c in pr['pat']], dtype=int)
    data = Jb[rows, cols] if rows.size else np.zeros(0)
    if fmt == 'rc':
        return data
    coo = sp.coo_matrix((data, (rows, cols)), shape=Jb.shape)
    return coo if fmt == 'coo' else (coo.tocsr() if fmt == 'csr' else coo.tocsc())


def make_comp(spec):
    import openmdao.api as om
    case = spec.case
    quad = spec
    p0 = case['points'][0]

    def gather(inputs, outputs=None):
        parts = [np.asarray(inputs[n]).ravel() for n in spec.in_names]
        if spec.implicit:
            parts += [np.asarray(outputs[n]).ravel() for n in spec.out_names]
        return np.concatenate(parts)

    def declare(self):
        for (k, w), pr in spec.pairs.items():
            kw = {}
            fmt = pr['fmt']
            v0 = spec.vec(p0)
            Jb = spec.jhat_block(k, w, v0)
            if fmt == 'rc':
                kw['rows'] = [r for r, _ in pr['pat']]
                kw['cols'] = [c for _, c in pr['pat']]
            elif fmt == 'diag':
                kw['diagonal'] = True
            if fmt in SCIPY_FMTS:
                kw['val'] = _layout_val(spec, k, w, Jb if pr['const'] else np.ones_like(Jb))
            elif pr['const']:
                kw['val'] = _layout_val(spec, k, w, Jb)
            self.declare_partials(spec.out_names[k], spec.wrt_names[w], **kw)
        for name, o in case.get('local', {}).items():
            self.set_check_partial_options(name, **o)

    def fill(partials, v):
        for (k, w), pr in spec.pairs.items():
            if pr['const']:
                continue
            partials[spec.out_names[k], spec.wrt_names[w]] = _layout_val(spec, k, w, spec.jhat_block(k, w, v))

    if spec.flavor == 'explicit':
        class C(om.ExplicitComponent):
            def setup(self):
                for n, v in zip(spec.in_names, p0['x']):
                    self.add_input(n, val=np.array(v, dtype=float))
                for n, s in zip(spec.out_names, spec.out_sizes):
                    self.add_output(n, val=np.zeros(s))
                declare(self)

            def compute(self, inputs, outputs):
                y = spec.quad.f(gather(inputs))
                for k, n in enumerate(spec.out_names):
                    outputs[n] = y[spec.roff[k]:spec.roff[k + 1]]

            def compute_partials(self, inputs, partials):
                fill(partials, gather(inputs))
        return C()

    if spec.flavor == 'mfree':
        class C(om.ExplicitComponent):
            def setup(self):
                for n, v in zip(spec.in_names, p0['x']):
                    self.add_input(n, val=np.array(v, dtype=float))
                for n, s in zip(spec.out_names, spec.out_sizes):
                    self.add_output(n, val=np.zeros(s))
                for name, o in case.get('local', {}).items():
                    self.set_check_partial_options(name, **o)

            def compute(self, inputs, outputs):
                y = spec.quad.f(gather(inputs))
                for k, n in enumerate(spec.out_names):
                    outputs[n] = y[spec.roff[k]:spec.roff[k + 1]]

            def compute_jacvec_product(self, inputs, d_inputs, d_outputs, mode):
                v = gather(inputs)
                J = spec.mfree_jhat(v, 'errF' if mode == 'fwd' else 'errR')
                for k, on in enumerate(spec.out_names):
                    if on not in d_outputs:
                        continue
                    for w, wn in enumerate(spec.in_names):
                        if wn not in d_inputs:
                            continue
                        Jb = spec.block(J, k, w)
                        if mode == 'fwd':
                            d_outputs[on] += Jb @ d_inputs[wn]
                        else:
                            d_inputs[wn] += Jb.T @ d_outputs[on]
        return C()

    class C(om.ImplicitComponent):
        def setup(self):
            for n, v in zip(spec.in_names, p0['x']):
                self.add_input(n, val=np.array(v, dtype=float))
            for n, v in zip(spec.out_names, p0['u']):
                self.add_output(n, val=np.array(v, dtype=float))
            declare(self)

        def apply_nonlinear(self, inputs, outputs, residuals):
            r = spec.quad.f(gather(inputs, outputs))
            for k, n in enumerate(spec.out_names):
                residuals[n] = r[spec.roff[k]:spec.roff[k + 1]]

        def linearize(self, inputs, outputs, partials):
            fill(partials, gather(inputs, outputs))
    return C()


# ---------------------------------------------------------------------------------------------
# error-field oracle
# ---------------------------------------------------------------------------------------------

def _eq(a, b, rtol=1e-12, atol=1e-300):
    a = float(a)
    b = float(b)
    if a == b or (np.isnan(a) and np.isnan(b)):
        return True
    if np.isinf(a) or np.isinf(b):
        return False
    return abs(a - b) <= atol + rtol * max(abs(a), abs(b))


def check_error_fields(res, pre, label, x, ref, atol, rtol, tv, vals, abs_e, rel_e):
    """The reported fields must be the documented tolerance violation of (x, ref) and its companions.

    `pre` is either '' or a complete known-finding signature that replaces the clause signature."""
    def sig(clause):
        return pre if pre else f"errors:{clause}"

    x = np.asarray(x, dtype=float)
    ref = np.asarray(ref, dtype=float)
    if x.shape != ref.shape:
        res.fail(sig(f"{label}-shape"), f"x shape {x.shape} ref shape {ref.shape}")
        return
    if x.size == 0:
        return
    if tv is None or vals is None or abs_e is None or rel_e is None:
        res.fail(sig(f"{label}-missing"), f"tol violation {tv!r} vals {vals!r} abs {abs_e!r} rel {rel_e!r}")
        return
    ae = np.abs(x - ref)
    D = ae - (atol + rtol * np.abs(ref))
    mx = float(np.max(D))
    if not _eq(tv, mx, 1e-11, 1e-15 * (1.0 + float(np.max(np.abs(ref))))):
        res.fail(sig(f"{label}-tol-violation"), f"reported {float(tv)!r} recomputed max(|x-ref|-(atol+rtol|ref|)) = {mx!r} "
                 f"atol={atol} rtol={rtol} x={x.tolist()} ref={ref.tolist()}")
        return
    cand = np.argwhere(D >= mx - (1e-11 * abs(mx) + 1e-15 * (1.0 + float(np.max(np.abs(ref))))))
    ok = False
    for idx in cand:
        idx = tuple(idx)
        rl = ae[idx] / abs(ref[idx]) if ref[idx] != 0 else np.inf
        if _eq(vals[0], x[idx]) and _eq(vals[1], ref[idx]) and _eq(abs_e, ae[idx], 1e-11) and _eq(rel_e, rl, 1e-11):
            ok = True
            break
    if not ok:
        idx = tuple(cand[0])
        rl = ae[idx] / abs(ref[idx]) if ref[idx] != 0 else np.inf
        res.fail(sig(f"{label}-companions"),
                 f"reported vals_at_max {tuple(float(t) for t in vals)!r} abs {float(abs_e)!r} rel {float(rel_e)!r}; at a "
                 f"maximiser {idx}: x={x[idx]!r} ref={ref[idx]!r} abs={ae[idx]!r} rel={rl!r}")


def _steps_view(entry, name):
    """Per-step list of a field whichever call level produced the dict."""
    v = entry.get(name)
    if isinstance(v, list):
        return v
    return [v]


def _densify_analytic(J, entry, fmt, shape):
    """J_fwd as a dense array whatever layout force_dense=False produced; None when it cannot be interpreted."""
    from scipy.sparse import issparse
    if issparse(J):
        return np.asarray(J.toarray(), dtype=float)
    J = np.asarray(J)
    if J.shape == tuple(shape):
        return J.astype(float)
    if J.ndim == 1 and fmt == 'diag' and J.size == shape[0]:
        return np.diag(J.astype(float))
    if J.ndim == 1 and fmt == 'rc' and entry.get('rows') is not None and len(entry['rows']) == J.size:
        out = np.zeros(shape)
        out[np.asarray(entry['rows'], dtype=int), np.asarray(entry['cols'], dtype=int)] = J
        return out
    return None


# ---------------------------------------------------------------------------------------------
# check: partials
# ---------------------------------------------------------------------------------------------

def local_fd(case, wname, opts):
    """Effective (method, form, step list, step_calc, minimum_step) for one wrt variable (precedence: component options >
    call arguments > defaults, as documented in _get_fd_options)."""
    method = opts['method']
    form = opts.get('form', 'forward')
    steps = opts.get('step')
    step_calc = opts.get('step_calc', 'abs')
    minimum_step = opts.get('minimum_step', 1e-12)
    steps = list(steps) if isinstance(steps, list) else [steps]
    nsteps = len(steps)
    loc = case.get('local', {}).get(wname)
    gmethod = method
    if loc and loc.get('method'):
        method = loc['method']
    default = 1e-6 if method == 'fd' else 1e-40
    out = []
    for s in steps:
        h = s if (s and gmethod == method) else default
        if loc and loc.get('step') is not None:
            h = loc['step']
        out.append(h)
    if loc:
        if loc.get('form') is not None:
            form = loc['form']
        if loc.get('step_calc') is not None:
            step_calc = loc['step_calc']
        if loc.get('minimum_step') is not None:
            minimum_step = loc['minimum_step']
    assert len(out) == nsteps
    return method, form, out, step_calc, minimum_step


def expected_uncovered(spec, k, w, Jq, v):
    """(must, maybe): out-of-pattern entries that must be listed / may be listed (round-off sized quotient)."""
    mask = spec.mask(k, w)
    dep = spec.block(spec.quad.dep_at(v), k, w)
    must, maybe = set(), set()
    for r in range(mask.shape[0]):
        for c in range(mask.shape[1]):
            if mask[r, c] or not dep[r, c]:
                continue
            if abs(Jq[r, c]) > 1e-6:
                must.add((r, c))
            else:
                maybe.add((r, c))
    return must, maybe


def known_f7c(case):
    """F7c: a diagonal=True partial whose true block has a nonzero off the diagonal (at some evaluated point)."""
    if case.get('kind') != 'partials' or case['flavor'] == 'mfree':
        return False
    spec = Spec(case)
    for (k, w), pr in spec.pairs.items():
        if pr['fmt'] != 'diag':
            continue
        dep = spec.block(spec.quad.dep, k, w)
        if np.any(dep & ~np.eye(dep.shape[0], dtype=bool)):
            return True
    return False


def known_f7e(case):
    """F7e: force_dense=False with a partial stored in any sparse layout."""
    if case.get('kind') != 'partials' or case['flavor'] == 'mfree':
        return False
    if case['opts'].get('force_dense', True):
        return False
    return any(pr['fmt'] in SPARSE_FMTS for pr in case['pairs'])


def check(case):
    if case.get('kind') == 'totals':
        return check_totals(case)
    return check_partials(case)


def check_partials(case):
    import warnings
    import openmdao.api as om
    res = Result()
    spec = Spec(case)
    opts = case['opts']
    atol = opts.get('abs_err_tol', 0.0)
    rtol = opts.get('rel_err_tol', 1e-6)
    cls = ['partials', spec.flavor, 'method_' + opts['method'], 'via_' + case['via']]
    if spec.flavor == 'mfree':
        cls.append('matrix_free')
    if isinstance(opts.get('step'), list):
        cls.append('multi_step')
    if len(case['points']) > 1:
        cls.append('two_calls')
    if case.get('local'):
        cls.append('local_options')
    if not opts.get('force_dense', True):
        cls.append('force_dense_false')
    f7e = known_f7e(case)

    p = om.Problem(reports=False)
    p.model.add_subsystem('q', make_comp(spec))
    kwargs = dict(out_stream=None, method=opts['method'], abs_err_tol=atol, rel_err_tol=rtol)
    for name in ('form', 'step', 'step_calc', 'minimum_step', 'force_dense'):
        if name in opts:
            kwargs[name] = opts[name]

    nontrivial = False
    earlier_reported = {}        # pair -> True when an earlier call listed uncovered entries for it
    earlier_expected = {}        # pair -> union of entries that were expected (or tolerated) in earlier calls
    with warnings.catch_warnings():
        warnings.simplefilter('ignore')
        p.setup(force_alloc_complex=True)
        p.final_setup()
        for ncall, point in enumerate(case['points']):
            for n, val in zip(spec.in_names, point['x']):
                p.set_val('q.' + n, np.array(val, dtype=float))
            if spec.implicit:
                for n, val in zip(spec.out_names, point['u']):
                    p.set_val('q.' + n, np.array(val, dtype=float))
            p.run_model()
            v = spec.vec(point)
            try:
                if case['via'] == 'problem':
                    data = p.check_partials(**kwargs)
                else:
                    data, _worst = p.model.q.check_partials(**kwargs)
            except Exception as e:
                sig = core.repo_frame_signature(e, 'check_partials')
                if sig is None:
                    raise
                if isinstance(e, KeyError) and 'uncovered_threshold' in str(e) and known_f7c(case):
                    sig = SIG_F7C
                elif f7e and sig.endswith('array_utils.py:get_tol_violation'):
                    sig = SIG_F7E + ':' + type(e).__name__
                res.fail(sig, f"call {ncall}: {type(e).__name__}: {e}")
                res.classes = cls
                return res
            if set(data.keys()) != {'q'}:
                res.fail('report:component-keys', f"keys {sorted(data.keys())}")
                res.classes = cls
                return res
            comp_data = data['q']
            Jstar = spec.quad.jac(v)
            for (k, w) in [(k, w) for k in range(len(spec.out_sizes)) for w in range(len(spec.wrt_sizes))]:
                key = (spec.out_names[k], spec.wrt_names[w])
                pre = ''
                pr = spec.pairs.get((k, w))
                fmt = pr['fmt'] if pr else 'mfree'
                epre = SIG_F7E + ':errors' if (f7e and fmt in SPARSE_FMTS) else ''
                if key not in comp_data:
                    res.fail(f"{pre}report:pair-missing", f"call {ncall}: pair {key} absent from the returned dict "
                             f"(keys {sorted(comp_data.keys())})")
                    continue
                entry = comp_data[key]
                shape = (spec.out_sizes[k], spec.wrt_sizes[w])
                # ---- analytic values --------------------------------------------------------------------
                analytic = {}
                if spec.flavor == 'mfree':
                    analytic['J_fwd'] = spec.block(spec.mfree_jhat(v, 'errF'), k, w)
                    analytic['J_rev'] = spec.block(spec.mfree_jhat(v, 'errR'), k, w)
                    mask = np.ones(shape, dtype=bool)
                else:
                    analytic['J_fwd'] = spec.jhat_block(k, w, v)
                    mask = spec.mask(k, w)
                    if 'J_rev' in entry:
                        res.fail(f"{pre}report:J_rev-for-analytic-jacobian", f"pair {key}")
                reported = {}
                for name, want in analytic.items():
                    if name not in entry:
                        res.fail(f"{pre}report:{name}-missing", f"call {ncall}: pair {key} keys {sorted(entry.keys())}")
                        continue
                    got = _densify_analytic(entry[name], entry, fmt, shape)
                    if got is None:
                        res.fail(f"{pre}report:{name}-layout", f"call {ncall}: pair {key}: {name} has shape "
                                 f"{np.shape(entry[name])}, expected {shape} (declared format {fmt})")
                        continue
                    reported[name] = got
                    if not core.close(got, want, rtol=1e-13, atol=1e-300):
                        sig = f"{pre}analytic:{name}-differs-from-component-linearization"
                        if pr and pr['const'] and ncall > 0:
                            sig = SIG_F7D + ':J_fwd-of-constant-partial'
                        res.fail(sig, f"call {ncall}: pair {key} fmt {fmt}: reported {got.tolist()} component returned "
                                 f"{want.tolist()}")
                # ---- approximated values ----------------------------------------------------------------
                method, form, hs, step_calc, minimum_step = local_fd(case, spec.wrt_names[w], opts)
                wv = v[spec.coff[w]:spec.coff[w + 1]]
                cols = list(range(spec.coff[w], spec.coff[w + 1]))
                rows = slice(spec.roff[k], spec.roff[k + 1])
                sign = 1.0
                fds = _steps_view(entry, 'J_fd')
                if len(fds) != len(hs) or any(f is None for f in fds):
                    res.fail(f"{pre}report:J_fd-count", f"call {ncall}: pair {key}: {len(fds)} J_fd entries for {len(hs)} steps")
                    continue
                must_all, maybe_all = set(), set()
                fd_ok = []
                for ns, h0 in enumerate(hs):
                    h = step_sizes(wv, h0, step_calc if method == 'fd' else 'abs', minimum_step)
                    Jq, tol = quotient(spec.quad.f, spec.quad.mag, v, cols, h, method, form)
                    Jq, tol = sign * Jq[rows], tol[rows]
                    got = np.asarray(fds[ns], dtype=float)
                    if got.shape != shape:
                        res.fail(f"{pre}report:J_fd-shape", f"call {ncall}: pair {key}: shape {got.shape} expected {shape}")
                        fd_ok.append(None)
                        continue
                    fd_ok.append(got)
                    bad = np.abs(got - Jq) > tol
                    bad &= ~((~mask) & (got == 0.0))          # out-of-pattern entries may be reported as zero
                    if np.any(bad):
                        r, c = np.argwhere(bad)[0]
                        sig = f"{pre}approx:J_fd-differs-from-reference-quotient"
                        if fmt == 'dense' and ns < len(hs) - 1:
                            hl = step_sizes(wv, hs[-1], step_calc if method == 'fd' else 'abs', minimum_step)
                            Jl, tl = quotient(spec.quad.f, spec.quad.mag, v, cols, hl, method, form)
                            if np.all(np.abs(got - Jl[rows]) <= tl[rows]):
                                sig = SIG_F7D + ':J_fd-of-earlier-step-holds-last-step'
                        res.fail(sig,
                                 f"call {ncall}: pair {key} step {h0} ({method}/{form}/{step_calc}): entry ({r},{c}) reported "
                                 f"{got[r, c]!r} reference {Jq[r, c]!r} tol {tol[r, c]:.2e}")
                    if pr and fmt != 'dense':
                        must, maybe = expected_uncovered(spec, k, w, Jq, v)
                        must_all |= must
                        maybe_all |= maybe | must
                # with several steps an entry is certain only if every step makes it certain
                if pr and fmt != 'dense' and len(hs) > 1:
                    certain = None
                    for ns, h0 in enumerate(hs):
                        h = step_sizes(wv, h0, step_calc if method == 'fd' else 'abs', minimum_step)
                        Jq, _ = quotient(spec.quad.f, spec.quad.mag, v, cols, h, method, form)
                        m, _ = expected_uncovered(spec, k, w, Jq[rows], v)
                        certain = m if certain is None else (certain & m)
                    must_all = certain
                # ---- sparsity audit ---------------------------------------------------------------------
                if pr and fmt != 'dense':
                    listed = entry.get('uncovered_nz')
                    rep = set((int(r), int(c)) for r, c in listed) if listed is not None else set()
                    ncols = len({c for _, c in must_all})
                    if ncols >= 2:
                        nontrivial = True
                        cls.append('uncovered_cols>=2')
                    elif ncols == 1:
                        cls.append('uncovered_cols=1')
                    cls.append('fmt_' + fmt)
                    missing = must_all - rep
                    extra = rep - maybe_all
                    if extra:
                        stale = earlier_expected.get((k, w), set())
                        if extra <= stale:
                            res.fail(SIG_F7D + ':uncovered-stale-from-previous-call',
                                     f"call {ncall}: pair {key} fmt {fmt}: listed {sorted(rep)} but at this point only "
                                     f"{sorted(maybe_all)} can exceed the threshold")
                        else:
                            res.fail(f"{pre}uncovered:lists-entry-that-is-covered-or-zero",
                                     f"call {ncall}: pair {key} fmt {fmt}: listed {sorted(rep)}; out-of-pattern entries with a "
                                     f"nonzero quotient: {sorted(maybe_all)}")
                    if missing:
                        c0 = min(c for _, c in (must_all | rep))
                        later = all(c > c0 for _, c in missing)
                        if fmt == 'csr':
                            sig = SIG_F7B
                        elif fmt in ('rc', 'coo', 'csc') and (later or earlier_reported.get((k, w))):
                            sig = SIG_F7A
                        else:
                            sig = f"{pre}uncovered:misses-out-of-pattern-nonzero"
                        res.fail(sig, f"call {ncall}: pair {key} fmt {fmt}: listed {sorted(rep)}; out-of-pattern entries whose "
                                 f"quotient exceeds the threshold: {sorted(must_all)} (missing {sorted(missing)})")
                    if listed is not None and 'uncovered_threshold' in entry and entry['uncovered_threshold'] != THRESH:
                        res.fail(f"{pre}uncovered:threshold", f"reported threshold {entry['uncovered_threshold']!r}")
                    if listed is not None and len(listed) > 0:
                        earlier_reported[(k, w)] = True
                    earlier_expected[(k, w)] = earlier_expected.get((k, w), set()) | maybe_all
                elif 'uncovered_nz' in entry and entry['uncovered_nz']:
                    res.fail(f"{pre}uncovered:listed-for-dense-partial", f"pair {key}: {entry['uncovered_nz']!r}")
                # ---- error fields -----------------------------------------------------------------------
                tvs = _steps_view(entry, 'tol violation')
                vms = _steps_view(entry, 'vals_at_max_error')
                aes = _steps_view(entry, 'abs error')
                rls = _steps_view(entry, 'rel error')
                mgs = _steps_view(entry, 'magnitude')
                if not (len(tvs) == len(vms) == len(aes) == len(rls) == len(mgs) == len(hs)):
                    res.fail(epre or "errors:field-count", f"pair {key}: lengths {[len(t) for t in (tvs, vms, aes, rls, mgs)]} for "
                             f"{len(hs)} steps")
                    continue
                for ns in range(len(hs)):
                    ref = fd_ok[ns]
                    if ref is None:
                        continue
                    for name, slot in (('J_fwd', 'forward'), ('J_rev', 'reverse')):
                        if name in reported:
                            check_error_fields(res, epre, slot, reported[name], ref, atol, rtol, getattr(tvs[ns], slot),
                                               getattr(vms[ns], slot), getattr(aes[ns], slot), getattr(rls[ns], slot))
                        elif getattr(tvs[ns], slot) is not None and name not in entry:
                            res.fail(epre or f"errors:{slot}-without-jacobian", f"pair {key}: {tvs[ns]!r}")
                    if 'J_fwd' in reported and 'J_rev' in reported:
                        check_error_fields(res, epre, 'fwd_rev', reported['J_fwd'], reported['J_rev'], atol, rtol, tvs[ns].fwd_rev,
                                           vms[ns].fwd_rev, aes[ns].fwd_rev, rls[ns].fwd_rev)
                    mg = mgs[ns]
                    want_fd = [float(np.max(np.abs(ref))) if ref.size else 0.0,
                               max([float(np.max(np.abs(f))) for f in fd_ok if f is not None and f.size] + [0.0])]
                    if not any(_eq(mg.fd, t) for t in want_fd):
                        res.fail(epre or "errors:magnitude-fd", f"pair {key}: reported {mg.fd!r} expected one of {want_fd}")
                    for name, got in (('J_fwd', mg.forward), ('J_rev', mg.reverse)):
                        if name in reported and reported[name].size and not _eq(got, float(np.max(np.abs(reported[name])))):
                            res.fail(epre or f"errors:magnitude-{name}", f"pair {key}: reported {got!r} expected "
                                     f"{float(np.max(np.abs(reported[name])))!r}")
                if any(np.any(np.abs(reported[n] - np.where(mask, spec.block(Jstar, k, w), 0.0)) > 1e-9) for n in reported):
                    nontrivial = True
                    cls.append('analytic_error')
            extra_keys = set(comp_data.keys()) - {(o, wn) for o in spec.out_names for wn in spec.wrt_names}
            if extra_keys:
                res.fail('report:unexpected-pairs', f"{sorted(extra_keys)}")
    res.nontrivial = nontrivial
    res.classes = sorted(set(cls)) + ['judged']
    return res


# ---------------------------------------------------------------------------------------------
# check: totals
# ---------------------------------------------------------------------------------------------

def check_totals(case):
    import warnings
    import openmdao.api as om
    res = Result()
    x = np.array(case['x'], dtype=float)
    n = x.size
    m1, m2 = case['m1'], case['m2']
    q1 = Quad(m1, n, case['c1'], case['g1'], case['H1'])
    q2 = Quad(m2, m1, case['c2'], case['g2'], case['H2'])
    E1 = np.zeros((m1, n))
    for r, c, d in case['err1']:
        E1[r % m1, c % n] += d / Q
    E2 = np.zeros((m2, m1))
    for r, c, d in case['err2']:
        E2[r % m2, c % m1] += d / Q
    opts = case['opts']
    atol = opts.get('abs_err_tol', 0.0)
    rtol = opts.get('rel_err_tol', 1e-6)
    cls = ['totals', 'mode_' + case['mode'], 'method_' + opts['method'], 'ofwrt_' + case['ofwrt']]

    def comp(quad, E, iname, oname, isize, osize, ival):
        class C(om.ExplicitComponent):
            def setup(self):
                self.add_input(iname, val=np.array(ival, dtype=float))
                self.add_output(oname, val=np.zeros(osize))
                self.declare_partials(oname, iname)

            def compute(self, inputs, outputs):
                outputs[oname] = quad.f(np.asarray(inputs[iname]).ravel())

            def compute_partials(self, inputs, partials):
                partials[oname, iname] = quad.jac(np.asarray(inputs[iname]).ravel().real) + E
        return C()

    p = om.Problem(reports=False)
    p.model.add_subsystem('iv', om.IndepVarComp('x', x.copy()))
    p.model.add_subsystem('c1', comp(q1, E1, 'x', 'y', n, m1, x))
    p.model.add_subsystem('c2', comp(q2, E2, 'y', 'z', m1, m2, np.zeros(m1)))
    p.model.connect('iv.x', 'c1.x')
    p.model.connect('c1.y', 'c2.y')
    ofs = ['c2.z'] + (['c1.y'] if case['of_y'] else [])
    kwargs = dict(out_stream=None, method=opts['method'], abs_err_tol=atol, rel_err_tol=rtol)
    for name in ('form', 'step', 'step_calc'):
        if name in opts:
            kwargs[name] = opts[name]
    if case['ofwrt'] == 'driver':
        p.model.add_design_var('iv.x')
        p.model.add_constraint('c2.z', lower=-1e30)
        if case['of_y']:
            p.model.add_constraint('c1.y', lower=-1e30)
    else:
        kwargs['of'] = ofs
        kwargs['wrt'] = ['iv.x']
    with warnings.catch_warnings():
        warnings.simplefilter('ignore')
        try:
            p.setup(force_alloc_complex=True, mode=case['mode'])
            p.run_model()
            data = p.check_totals(**kwargs)
        except Exception as e:
            sig = core.repo_frame_signature(e, 'check_totals')
            if sig is None:
                raise
            res.fail(sig, f"{type(e).__name__}: {e}")
            res.classes = cls
            return res
    y = q1.f(x)
    J1h = q1.jac(x) + E1
    J2h = q2.jac(y) + E2
    absprod = np.abs(J2h) @ np.abs(J1h)

    def fz(v):
        return q2.f(q1.f(v))

    def magz(v):
        yy = q1.f(v)
        return q2.mag(yy) + (np.abs(q2.g) + np.einsum('kij,j->ki', np.abs(q2.H), np.abs(yy))) @ q1.mag(v)

    steps = opts.get('step')
    steps = list(steps) if isinstance(steps, list) else [steps]
    default = 1e-6 if opts['method'] == 'fd' else 1e-40
    hs = [s if s else default for s in steps]
    form = opts.get('form') or 'forward'
    step_calc = opts.get('step_calc', 'abs')
    jname = 'J_fwd' if case['mode'] == 'fwd' else 'J_rev'
    slot = 'forward' if case['mode'] == 'fwd' else 'reverse'

    expect = {}
    expect[('c2.z', 'iv.x')] = (slice(0, m2), fz, magz, (J2h @ J1h), absprod)
    if case['of_y']:
        expect[('c1.y', 'iv.x')] = (slice(0, m1), q1.f, q1.mag, J1h, np.abs(J1h))
    if set(data.keys()) != set(expect.keys()):
        res.fail('report:total-keys', f"keys {sorted(data.keys())} expected {sorted(expect.keys())}")
        res.classes = cls
        return res
    nontrivial = False
    for key, (rows, fun, magfun, Jh, Jabs) in expect.items():
        entry = data[key]
        want = Jh[rows]
        other = 'J_rev' if jname == 'J_fwd' else 'J_fwd'
        if jname not in entry:
            res.fail(f"report:{jname}-missing", f"pair {key}: keys {sorted(entry.keys())}")
            continue
        if other in entry:
            res.fail(f"report:{other}-unexpected", f"pair {key}: mode {case['mode']}")
        got = np.asarray(entry[jname], dtype=float)
        if got.shape != want.shape:
            res.fail(f"report:{jname}-shape", f"pair {key}: {got.shape} expected {want.shape}")
            continue
        tolA = 1e-11 * (Jabs[rows] + 1.0)
        if np.any(np.abs(got - want) > tolA):
            res.fail(f"analytic:total-{jname}-differs-from-product-of-component-partials",
                     f"pair {key}: reported {got.tolist()} expected {want.tolist()}")
        fds = _steps_view(entry, 'J_fd')
        if len(fds) != len(hs):
            res.fail('report:J_fd-count', f"pair {key}: {len(fds)} for {len(hs)} steps")
            continue
        tvs = _steps_view(entry, 'tol violation')
        vms = _steps_view(entry, 'vals_at_max_error')
        aes = _steps_view(entry, 'abs error')
        rls = _steps_view(entry, 'rel error')
        mgs = _steps_view(entry, 'magnitude')
        refs = []
        for ns, h0 in enumerate(hs):
            h = step_sizes(x, h0, step_calc if opts['method'] == 'fd' else 'abs', 1e-12)
            Jq, tol = quotient(fun, magfun, x, list(range(n)), h, opts['method'], form)
            Jq, tol = Jq[rows], tol[rows]
            ref = np.asarray(fds[ns], dtype=float)
            refs.append(ref)
            if ref.shape != Jq.shape:
                res.fail('report:J_fd-shape', f"pair {key}: {ref.shape} expected {Jq.shape}")
                continue
            bad = np.abs(ref - Jq) > tol
            if np.any(bad):
                r, c = np.argwhere(bad)[0]
                res.fail('approx:total-J_fd-differs-from-reference-quotient',
                         f"pair {key} step {h0} ({opts['method']}/{form}/{step_calc}): entry ({r},{c}) reported {ref[r, c]!r} "
                         f"reference {Jq[r, c]!r} tol {tol[r, c]:.2e}")
            check_error_fields(res, '', 'total-' + slot, got, ref, atol, rtol, getattr(tvs[ns], slot), getattr(vms[ns], slot),
                               getattr(aes[ns], slot), getattr(rls[ns], slot))
            oslot = 'reverse' if slot == 'forward' else 'forward'
            if getattr(tvs[ns], oslot) is not None or tvs[ns].fwd_rev is not None:
                res.fail('errors:total-unexpected-slot', f"pair {key}: {tvs[ns]!r}")
        for ns in range(len(hs)):
            mg = mgs[ns]
            want_fd = [float(np.max(np.abs(refs[ns]))), max(float(np.max(np.abs(r))) for r in refs)]
            if not any(_eq(mg.fd, t) for t in want_fd):
                res.fail('errors:total-magnitude-fd', f"pair {key}: reported {mg.fd!r} expected one of {want_fd}")
            gm = mg.forward if slot == 'forward' else mg.reverse
            if not _eq(gm, float(np.max(np.abs(got)))):
                res.fail('errors:total-magnitude-analytic', f"pair {key}: reported {gm!r} expected {float(np.max(np.abs(got)))!r}")
        if np.any(E1 != 0) or (key[0] != 'c1.y' and np.any(E2 != 0)):
            nontrivial = True
    if nontrivial:
        cls.append('analytic_error')
    if len(hs) > 1:
        cls.append('multi_step')
    res.nontrivial = nontrivial
    res.classes = cls + ['judged']
    return res


# ---------------------------------------------------------------------------------------------
# generation
# ---------------------------------------------------------------------------------------------

VALS = [0.5, -0.75, 1.0, 2.5, -3.0, 1.25, -1.5, 2.0, 40.0, 0.0]


def strategy(tier):
    from hypothesis import strategies as st

    coef = st.one_of(st.just(0), st.integers(-8, 8), st.integers(-8, 8))

    def fd_opts(draw, totals=False):
        method = draw(st.sampled_from(['fd', 'fd', 'cs']))
        o = {'method': method}
        if method == 'fd':
            o['form'] = draw(st.sampled_from(['forward', 'backward', 'central']))
            if draw(st.booleans()):
                o['step'] = draw(st.sampled_from([1e-4, 1e-5, 1e-6, 1e-7]))
            elif draw(st.integers(0, 3)) == 0:
                o['step'] = [draw(st.sampled_from([1e-4, 1e-5])), draw(st.sampled_from([1e-6, 1e-7]))]
            sc = draw(st.sampled_from(['abs', 'abs', 'rel_avg', 'rel_element', 'rel_legacy', 'rel']))
            if sc != 'abs':
                o['step_calc'] = sc
                if not totals and draw(st.booleans()):
                    o['minimum_step'] = draw(st.sampled_from([1e-12, 1e-7]))
        else:
            k = draw(st.integers(0, 3))
            if k == 0:
                o['step'] = draw(st.sampled_from([1e-20, 1e-30]))
            elif k == 1:
                o['step'] = [1e-20, 1e-40]
        tol = draw(st.sampled_from([(0.0, 0.0), (0.0, 0.0), (0.0, 1e-6), (1e-6, 1e-6), (1e-3, 0.0), (0.5, 0.1), (0.0, 0.25)]))
        o['abs_err_tol'], o['rel_err_tol'] = tol
        return o

    def values(draw, k):
        return [draw(st.sampled_from(VALS)) for _ in range(k)]

    @st.composite
    def partials_case(draw):
        flavor = draw(st.sampled_from(['explicit'] * 7 + ['mfree', 'implicit', 'implicit']))
        nin = draw(st.integers(1, 2 if flavor == 'implicit' else 3))
        in_sizes = [draw(st.integers(1, 4)) for _ in range(nin)]
        nout = draw(st.sampled_from([1, 1, 2]))
        out_sizes = [draw(st.integers(1, 4)) for _ in range(nout)]
        # make square blocks likely (diagonal declarations need them)
        if draw(st.booleans()):
            out_sizes[0] = in_sizes[0]
        wrt_sizes = in_sizes + (out_sizes if flavor == 'implicit' else [])
        M, N = sum(out_sizes), sum(wrt_sizes)
        dense_g = draw(st.booleans())
        g = [draw(st.integers(1, 8)) * draw(st.sampled_from([1, -1])) if dense_g and draw(st.integers(0, 4))
             else draw(coef) for _ in range(M * N)]
        c = [draw(st.integers(-8, 8)) for _ in range(M)]
        nH = draw(st.sampled_from([0, 0, 1, 2, 4]))
        H = [[draw(st.integers(0, M - 1)), draw(st.integers(0, N - 1)), draw(st.integers(0, N - 1)), draw(st.integers(-6, 6))]
             for _ in range(nH)]
        npts = draw(st.sampled_from([1, 1, 1, 2]))
        points = []
        for i in range(npts):
            if i == 1 and draw(st.booleans()):
                points.append(points[0])
                continue
            pt = {'x': [values(draw, s) for s in in_sizes]}
            if flavor == 'implicit':
                pt['u'] = [values(draw, s) for s in out_sizes]
            points.append(pt)
        case = {'kind': 'partials', 'flavor': flavor, 'outs': out_sizes, 'c': c, 'g': g, 'H': H, 'points': points}
        quad = Quad(M, N, c, g, H)
        roff, coff = _offsets(out_sizes), _offsets(wrt_sizes)
        opts = fd_opts(draw)
        if flavor == 'mfree':
            case['errF'] = [[draw(st.integers(0, M - 1)), draw(st.integers(0, N - 1)), draw(st.integers(-8, 8))]
                            for _ in range(draw(st.sampled_from([0, 0, 1, 2])))]
            case['errR'] = [[draw(st.integers(0, M - 1)), draw(st.integers(0, N - 1)), draw(st.integers(-8, 8))]
                            for _ in range(draw(st.sampled_from([0, 0, 1, 2])))]
        else:
            pairs = []
            risky = draw(st.integers(0, 9)) == 0          # allow the formats whose known defects abort the whole call
            for k in range(len(out_sizes)):
                for w in range(len(wrt_sizes)):
                    mb, nb = out_sizes[k], wrt_sizes[w]
                    dep = quad.dep[roff[k]:roff[k + 1], coff[w]:coff[w + 1]]
                    fmts = ['dense', 'dense', 'rc', 'rc', 'rc', 'coo', 'csc', 'csr']
                    if mb == nb:
                        fmts += ['diag', 'diag']
                    fmt = draw(st.sampled_from(fmts))
                    pr = {'fmt': fmt, 'pat': [], 'err': [], 'const': draw(st.integers(0, 4)) == 0}
                    if fmt == 'diag' and np.any(dep & ~np.eye(mb, dtype=bool)) and not risky:
                        fmt = pr['fmt'] = 'rc'
                    if fmt in ('rc', 'coo', 'csr', 'csc'):
                        mode = draw(st.sampled_from(['exact', 'under', 'under', 'under', 'over', 'mixed']))
                        pat = []
                        for r in range(mb):
                            for cc in range(nb):
                                inside = bool(dep[r, cc])
                                if inside and mode in ('under', 'mixed') and draw(st.integers(0, 2)) == 0:
                                    inside = False
                                elif not inside and mode in ('over', 'mixed') and draw(st.integers(0, 2)) == 0:
                                    inside = True
                                if inside:
                                    pat.append([r, cc])
                        if not pat:
                            pat = [[0, 0]]
                        pr['pat'] = pat
                    nerr = draw(st.sampled_from([0, 0, 0, 1, 1, 2, 3]))
                    pr['err'] = [[draw(st.integers(0, mb - 1)), draw(st.integers(0, nb - 1)), draw(st.integers(-8, 8))]
                                 for _ in range(nerr)]
                    pairs.append(pr)
            case['pairs'] = pairs
            if draw(st.integers(0, 11)) == 0 and (risky or all(pr['fmt'] == 'dense' for pr in pairs)):
                opts['force_dense'] = False
            elif draw(st.integers(0, 11)) == 0:
                opts['force_dense'] = True
        if draw(st.integers(0, 6)) == 0:
            name = f"x{draw(st.integers(0, nin - 1))}"
            lm = draw(st.sampled_from(['fd', 'cs']))
            loc = {'method': lm}
            if lm == 'fd':
                loc['form'] = draw(st.sampled_from(['forward', 'backward', 'central']))
                loc['step'] = draw(st.sampled_from([1e-5, 1e-6]))
                if draw(st.booleans()):
                    loc['step_calc'] = draw(st.sampled_from(['abs', 'rel_avg', 'rel_element']))
            else:
                loc['step'] = 1e-30
            case['local'] = {name: loc}
        case['opts'] = opts
        case['via'] = draw(st.sampled_from(['problem', 'problem', 'component']))
        return case

    @st.composite
    def totals_case(draw):
        n = draw(st.integers(1, 3))
        m1 = draw(st.integers(1, 3))
        m2 = draw(st.integers(1, 2))
        case = {'kind': 'totals', 'x': values(draw, n), 'm1': m1, 'm2': m2,
                'c1': [draw(st.integers(-8, 8)) for _ in range(m1)], 'g1': [draw(coef) for _ in range(m1 * n)],
                'H1': [[draw(st.integers(0, m1 - 1)), draw(st.integers(0, n - 1)), draw(st.integers(0, n - 1)), draw(st.integers(-4, 4))]
                       for _ in range(draw(st.integers(0, 2)))],
                'c2': [draw(st.integers(-8, 8)) for _ in range(m2)], 'g2': [draw(coef) for _ in range(m2 * m1)],
                'H2': [[draw(st.integers(0, m2 - 1)), draw(st.integers(0, m1 - 1)), draw(st.integers(0, m1 - 1)), draw(st.integers(-4, 4))]
                       for _ in range(draw(st.integers(0, 2)))],
                'err1': [[draw(st.integers(0, m1 - 1)), draw(st.integers(0, n - 1)), draw(st.integers(-8, 8))]
                         for _ in range(draw(st.sampled_from([0, 0, 1, 2])))],
                'err2': [[draw(st.integers(0, m2 - 1)), draw(st.integers(0, m1 - 1)), draw(st.integers(-8, 8))]
                         for _ in range(draw(st.sampled_from([0, 0, 1])))],
                'mode': draw(st.sampled_from(['fwd', 'rev'])), 'of_y': draw(st.booleans()),
                'ofwrt': draw(st.sampled_from(['explicit', 'explicit', 'driver'])), 'opts': fd_opts(draw, totals=True)}
        return case

    return st.one_of(partials_case(), partials_case(), partials_case(), partials_case(), partials_case(), totals_case())


def units(tier, seed):
    # a cold `import openmdao.api` dominates the cost of a worker on the shared machine: few, long shards
    n = 4 if tier == 'quick' else 16
    per = 400 if tier == 'quick' else 3200
    return [{'kind': 'random', 'n': per, 'seed': core.shard_seed(seed, ID, i)} for i in range(n)]


def run_unit(unit, ctx):
    core.run_hypothesis(ctx, strategy(unit.get('tier')), check, unit['n'], unit['seed'], shrink=unit.get('tier') == 'thorough')
