"""C04  Connected inputs hold their source value with indices and units applied.

Oracle : NumPy indexing of arange(size).reshape(shape) gives the source positions of every input; a small unit table
         transcribed from unit_library.ini gives factor/offset.  A spy inside every component's compute /
         apply_nonlinear compares the inputs it receives with the source outputs at that moment.
"""
import numpy as np

from vfw import core
from vfw.core import Result

ID = 'C04'
LEVEL = 'exploration'
TECHNIQUE = 'Hypothesis-generated model programs with spy components; NumPy position map + unit table as reference oracle, checked at every evaluation and after run_model'
RULE = ("case = model spec (see C01) with emphasis on connections: every index form of the C05 grammar that connect() "
        "documents x flat_src_indices in {None, True, False} on 1-, 2-, 3-D sources, scale and offset units, auto-IVC "
        "(unconnected) inputs, promoted inputs with src_indices, feedback loops (NLBGS / Newton / NLBJ). Every component "
        "evaluation (compute / apply_nonlinear) is one observation; one case in eight is a discrete-variable model (a source that writes a Python object - int, str, list, dict, None - into a discrete output that is connected or promoted to 1-3 discrete inputs, run at several input values); one case in nine is a resize history (setup/run, change the size of the source through a component option, setup/run again with the same connect()/promotes() src_indices objects). Non-trivial = a connection with src_indices on a "
        "rank>=2 source, or an offset unit, or a negative index, in a model that ran. Distinct = distinct canonical JSON.")
ASSUMPTIONS = [
    "serial DefaultVector/DefaultTransfer only",
    "the per-evaluation clause is not judged under NonlinearBlockJac (Jacobi uses the previous iterate by design); the "
    "after-run clause is judged for every converged model",
    "outputs carry no ref/ref0 here (C08 covers scaling), so the root output vector holds physical values during a solve",
    "tolerance 1e-12 relative to max(|value|, |offset|) per input; after run_model of a model with a feedback loop or any iterating nonlinear solver the "
    "tolerance is the solver tolerance (1e-8 relative), because an input holds the value of the last transfer",
]
MIN_CLASS_FRACTION = {'ran': 0.6}


def _flags(spec):
    from vfw.props.c01 import spec_flags
    return spec_flags(spec)


def check_discrete(case):
    """Discrete clause: discrete inputs receive their source object (by connection or by promotion)."""
    import openmdao.api as om
    res = Result(classes=['discrete', 'via_' + case['via'], 'obj_' + case['obj']])
    seen = []
    objs = {'int': lambda k: 3 + k, 'str': lambda k: 'v%d' % k, 'list': lambda k: [k, 'a', 2.5], 'dict': lambda k: {'k': k, 'z': (1, 2)},
            'none': lambda k: None}
    mk = objs[case['obj']]

    class Src(om.ExplicitComponent):
        def setup(self):
            self.add_input('x', 1.0)
            self.add_output('y', 1.0)
            self.add_discrete_output('d', val=mk(0))
            self.declare_partials('y', 'x', val=2.0)

        def compute(self, inputs, outputs, discrete_inputs, discrete_outputs):
            outputs['y'] = 2.0 * inputs['x']
            discrete_outputs['d'] = mk(int(round(float(inputs['x'][0]))))

    class Sink(om.ExplicitComponent):
        def setup(self):
            self.add_input('y', 1.0)
            self.add_output('z', 1.0)
            self.add_discrete_input('d', val=mk(-1))
            self.declare_partials('z', 'y', val=1.0)

        def compute(self, inputs, outputs, discrete_inputs, discrete_outputs):
            seen.append((self.name, discrete_inputs['d']))
            outputs['z'] = inputs['y'] + 1.0

    try:
        p = om.Problem(reports=False)
        m = p.model
        parent = m.add_subsystem('g', om.Group()) if case['nested'] else m
        if case['via'] == 'promote':
            parent.add_subsystem('src', Src(), promotes_outputs=['d', 'y'])
            for i in range(case['nsinks']):
                parent.add_subsystem(f"s{i}", Sink(), promotes_inputs=['d', 'y'])
        else:
            parent.add_subsystem('src', Src())
            for i in range(case['nsinks']):
                parent.add_subsystem(f"s{i}", Sink())
                parent.connect('src.d', f"s{i}.d")
                parent.connect('src.y', f"s{i}.y")
        p.setup()
        xs = case['xs']
        pre = 'g.' if case['nested'] else ''
        for x in xs:
            del seen[:]
            p.set_val(pre + 'src.x', float(x))
            p.run_model()
            exp = mk(int(x))
            for name, got in seen:
                if got != exp or type(got) is not type(exp):
                    res.fail('discrete:input-differs-from-source-at-evaluation', f"x={x} sink {name}: got {got!r} expected {exp!r}")
            for i in range(case['nsinks']):
                got = p.get_val(pre + f"s{i}.d")
                if got != exp:
                    res.fail('discrete:input-differs-from-source-after-run', f"x={x} s{i}.d = {got!r} expected {exp!r}")
            if len(seen) != case['nsinks']:
                res.fail('discrete:unexpected-number-of-evaluations', f"{len(seen)} evaluations for {case['nsinks']} sinks")
    except Exception as e:
        sig = core.repo_frame_signature(e, 'discrete')
        if sig is None:
            raise
        res.fail(sig, f"{type(e).__name__}: {e}")
    res.nontrivial = case['nsinks'] > 1 or case['nested']
    res.classes.append('ran')
    return res


def check_resize(case):
    """History clause: setup/run, resize the source (a component option), setup/run again.  The same connection objects
    (connect(..., src_indices=...) / promotes(..., src_indices=...)) are re-used by the second setup; the input must hold
    the NumPy-indexed values of the NEW source."""
    import openmdao.api as om
    from vfw.gen_model import dec_idx
    res = Result(classes=['resize', 'via_' + case['via'], 'rank%d' % (2 if case['cols'] else 1)])
    cols = case['cols']

    def shape(n):
        return (n, cols) if cols else (n,)

    class Src(om.ExplicitComponent):
        def initialize(self):
            self.options.declare('n', default=case['sizes'][0])

        def setup(self):
            self.add_input('x', 1.0)
            self.add_output('y', val=np.zeros(shape(self.options['n'])))
            self.declare_partials('y', 'x', method='fd')

        def compute(self, inputs, outputs):
            sh = shape(self.options['n'])
            outputs['y'] = (1.0 + np.arange(int(np.prod(sh)), dtype=float).reshape(sh)) * inputs['x']

    seen = {}

    class Sink(om.ExplicitComponent):
        def initialize(self):
            self.options.declare('shape')

        def setup(self):
            self.add_input('a', val=np.zeros(self.options['shape']))
            self.add_output('b', val=np.zeros(self.options['shape']))
            self.declare_partials('b', 'a', method='fd')

        def compute(self, inputs, outputs):
            seen['a'] = np.array(inputs['a'])
            outputs['b'] = 2.0 * inputs['a']

    idx = dec_idx(case['idx'])
    exp_shapes = [np.zeros(shape(n))[idx].shape for n in case['sizes']]
    if len(set(exp_shapes)) != 1 or 0 in exp_shapes[0]:
        res.discard = 'selection-shape-depends-on-size'
        return res
    try:
        p = om.Problem(reports=False)
        src = p.model.add_subsystem('src', Src())
        if case['via'] == 'connect':
            p.model.add_subsystem('tgt', Sink(shape=exp_shapes[0]))
            p.model.connect('src.y', 'tgt.a', src_indices=idx)
            tname = 'tgt.a'
        else:
            g = p.model.add_subsystem('g', om.Group())
            g.add_subsystem('tgt', Sink(shape=exp_shapes[0]))
            p.model.promotes('src', outputs=[('y', 'yy')])
            g.promotes('tgt', inputs=[('a', 'aa')])
            p.model.promotes('g', inputs=[('aa', 'yy')], src_indices=idx)
            tname = 'g.tgt.a'
        for k, n in enumerate(case['sizes']):
            src.options['n'] = n
            p.setup()
            x = case['xs'][k % len(case['xs'])]
            p.set_val('src.x', x)
            p.run_model()
            sh = shape(n)
            exp = ((1.0 + np.arange(int(np.prod(sh)), dtype=float).reshape(sh)) * x)[idx]
            for label, got in (('at-evaluation', seen.get('a')), ('input-vector', np.asarray(p.get_val(tname, from_src=False)))):
                if got is None or np.asarray(got).shape != exp.shape or np.any(np.abs(np.asarray(got) - exp) > 1e-12 * (1 + np.abs(exp))):
                    res.fail(f"resize:input-differs-from-source-{label}",
                             f"setup {k} (source shape {sh}): {tname} {label} = {None if got is None else np.asarray(got).tolist()} "
                             f"expected {exp.tolist()}")
    except Exception as e:
        sig = core.repo_frame_signature(e, 'resize')
        if sig is None:
            raise
        res.fail(sig, f"{type(e).__name__}: {e}")
    res.nontrivial = True
    res.classes.append('ran')
    return res


def check(case):
    if case.get('kind') == 'discrete':
        return check_discrete(case)
    if case.get('kind') == 'resize':
        return check_resize(case)
    import openmdao.api as om
    from vfw.gen_model import build_problem
    from vfw.refmodel import RefModel, absname
    spec = case['spec']
    res = Result()
    flags = _flags(spec)
    cls = sorted(flags)
    ref = RefModel(spec)
    known = []
    if 'f4_form' in flags:
        known.append('F4')
    jacobi = 'nl_nlbj' in flags
    comps = {c['name']: c for c in spec['comps']}
    holder = {}
    nobs = [0]
    bad = []

    def trace(cname, comp, inputs):
        p = holder.get('p')
        if p is None or jacobi:
            return
        root = p.model
        nobs[0] += 1
        c = comps[cname]
        for v in c['inputs']:
            an = absname(c, v)
            m = ref.inmap[an]
            if m['kind'] == 'const':
                continue
            src = np.asarray(root._outputs._abs_get_val(m['src'], flat=True)).real
            sm = ref.xvars.get(m['src']) or ref.uvars.get(m['src'])
            exp = src[m['pos'] - sm['off']] * m['f'] + m['o']
            got = np.asarray(inputs[v['name']]).real.ravel()
            tol = 1e-12 * (np.abs(exp) + abs(m['o']) + 1e-300) + 1e-14
            if got.shape != exp.shape or np.any(np.abs(got - exp) > tol):
                if len(bad) < 3:
                    bad.append(f"at evaluation {nobs[0]} of {cname}: input {an} = {got.tolist()} expected {exp.tolist()} "
                               f"(src {m['src']} = {src.tolist()})")

    try:
        p, groups = build_problem(spec, trace=trace)
        p.final_setup()
        holder['p'] = p
        p.run_model()
    except om.AnalysisError:
        res.discard = 'nonconverged'
        res.classes = cls + ['nonconverged']
        return res
    except Exception as e:
        sig = core.repo_frame_signature(e, 'setup-or-run')
        if sig is None:
            raise
        res.fail(tag(known, sig), f"{type(e).__name__}: {e}")
        res.classes = cls
        return res
    finally:
        holder.pop('p', None)
    for b in bad:
        res.fail(tag(known, 'input-differs-from-source-at-evaluation'), b)

    # after run_model
    x = ref.x0
    u = np.zeros(ref.nu)
    for n, m in ref.uvars.items():
        u[m['off']:m['off'] + m['size']] = np.asarray(p.get_val(n)).ravel()
    if not np.all(np.isfinite(u)):
        res.discard = 'nonfinite'
        res.classes = cls + ['nonfinite']
        return res
    for c in ref.comps:
        for v in c['inputs']:
            an = absname(c, v)
            m = ref.inmap[an]
            exp = ref.input_val(an, u, x)
            # inside a converged feedback loop an input holds the value of the last transfer: solver tolerance applies
            # (the same holds for any model with an iterating nonlinear solver: a Newton solver at the root also updates
            # the independent outputs, by the round-off of its linear solve, after the last transfer)
            iterating = bool(spec.get('feedback')) or any(g.get('nl') not in (None, 'runonce') for g in spec['groups'].values())
            rt = 1e-8 if iterating else 1e-12
            tol = rt * (np.abs(exp) + abs(m.get('o', 0.0)) + (1.0 if iterating else 0.0)) + 1e-14
            for label, kw in (('from_src=False', dict(from_src=False)), ('get_val', {})):
                if m['kind'] == 'const' and label == 'get_val':
                    pass
                try:
                    got = np.asarray(p.get_val(an, **kw)).ravel()
                except Exception as e:
                    sig = core.repo_frame_signature(e, 'get_val')
                    if sig is None:
                        raise
                    res.fail(tag(known, sig), f"get_val({an!r}, {kw}): {type(e).__name__}: {e}")
                    continue
                if got.shape != exp.shape or np.any(np.abs(got - exp) > tol):
                    res.fail(tag(known, f"input-differs-from-source-after-run:{label}"),
                             f"{an} {label}: got {got.tolist()} expected {exp.tolist()}")
    interesting = flags & {'src_indices_nd', 'unit_offset', 'neg_index'}
    res.nontrivial = bool(interesting)
    res.classes = cls + ['ran'] + (['observed_evals'] if nobs[0] else [])
    return res


def tag(known, sig):
    if known:
        return '+'.join(known) + '|' + sig.split(':')[0]
    return sig


def strategy(tier):
    from hypothesis import strategies as st
    from vfw.gen_spec import model_spec, profile
    prof = profile(styles=['dense'], assembled=False, p_f4=0.03, p_neg_index=0.25, p_imp=0.15,
                   cyc_nl=['nlbgs', 'nlbgs', 'newton', 'nlbj'], cyc_ln=['direct'], max_comps=4, auto_ivc=0.15, promotions=0.3, chains=0.3)
    discrete = st.fixed_dictionaries({
        'kind': st.just('discrete'), 'via': st.sampled_from(['connect', 'promote']),
        'obj': st.sampled_from(['int', 'str', 'list', 'dict', 'none']), 'nested': st.booleans(),
        'nsinks': st.integers(1, 3), 'xs': st.lists(st.integers(-3, 5), min_size=1, max_size=3)})
    main = model_spec(prof).map(lambda s: {'spec': s})

    @st.composite
    def resize(draw):
        # a source whose first dimension changes between two or three setups of the same Problem; indices that are valid
        # for every size and select the same number of entries (ints of either sign, index lists, slices anchored at one end)
        sizes = draw(st.lists(st.integers(3, 8), min_size=2, max_size=3).filter(lambda l: len(set(l)) > 1))
        m = min(sizes)
        cols = draw(st.sampled_from([0, 0, 2, 3]))
        form = draw(st.sampled_from(['list', 'list', 'int', 'slice_lo', 'slice_hi']))
        if form == 'list':
            first = {'a': draw(st.lists(st.integers(-m, m - 1), min_size=1, max_size=3)), 'list': True}
        elif form == 'int':
            first = {'a': [draw(st.integers(-m, m - 1))], 'list': True}
        elif form == 'slice_lo':
            first = {'s': [None, draw(st.integers(1, m)), None]}
        else:
            first = {'s': [-draw(st.integers(1, m)), None, None]}
        if cols:
            second = draw(st.sampled_from([{'s': [None, None, None]}, {'i': draw(st.integers(-cols, cols - 1))},
                                           {'s': [0, 1, None]}]))
            idx = {'t': [first, second]}
        else:
            idx = first
        return {'kind': 'resize', 'sizes': sizes, 'cols': cols, 'idx': idx, 'via': draw(st.sampled_from(['connect', 'promote'])),
                'xs': [draw(st.sampled_from([1.0, -2.0, 0.5])) for _ in range(2)]}

    return st.integers(0, 8).flatmap(lambda k: discrete if k == 0 else (resize() if k == 1 else main))


def units(tier, seed):
    n = 16 if tier == 'quick' else 32
    per = 100 if tier == 'quick' else 1000
    return [{'kind': 'random', 'n': per, 'seed': core.shard_seed(seed, ID, i)} for i in range(n)]


def run_unit(unit, ctx):
    core.run_hypothesis(ctx, strategy(unit.get('tier')), check, unit['n'], unit['seed'], shrink=unit.get('tier') == 'thorough')
