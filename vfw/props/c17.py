"""C17  Recorded cases are faithful, filtered and ordered.

Domain : small generated models (vfw/c17_models.py) x driver x ONE SqliteRecorder attached to a drawn subset of
         {problem, driver, systems, nonlinear solvers} x drawn recording options x run sequence.
Oracle : a live snapshot log kept by the harness (instance-level wrappers around the requesters' record_iteration /
         Problem.record copy the root vectors and the iteration stack at every recording event, in order) compared with
         what CaseReader returns: global order, per-source lists and their descendants, variable sets against the documented
         selection rules, values bitwise; DOE design points and a NumPy closed form of the model as absolute anchors.
"""
import os
from fnmatch import fnmatchcase

import numpy as np

from vfw import core
from vfw.core import Result
from vfw import c17_models as M

ID = 'C17'
LEVEL = 'exploration'
TECHNIQUE = ('Hypothesis-generated models/drivers/recorder placements/recording options/run sequences; live snapshot log '
             '(model-based oracle) compared with the case reader; documented selection rules as reference; NumPy closed form '
             'and DOE points as absolute anchors')
RULE = ("case = model spec (optional IndepVarComp, 2-4 closed-form explicit components, some inside group G, optional coupled pair "
        "in group cyc under NonlinearBlockGS/Newton, objective component, units, promotions, inputs connected / promoted with "
        "src_indices, unconnected inputs promoted to one name under set_input_defaults with units of its own) x driver in {Driver, "
        "DOEDriver(ListGenerator 2-4 points), ScipyOptimizeDriver(SLSQP, maxiter 2-3)} x one SqliteRecorder attached to 1-4 of "
        "{problem, driver, any system, any group's nonlinear solver} x per-requester recording_options (record_* flags, "
        "includes/excludes built from real absolute/promoted/relative variable names with * and ?, or left at the defaults) x "
        "run sequence of 1-4 ops from {run_model, run_driver, record(name), set_val} with case_prefix / reset_iter_counts chosen "
        "so that case names stay unique. Non-trivial = at least 2 recorders at different levels and a non-default "
        "includes/excludes on one of them. Distinct = distinct canonical JSON.")
ASSUMPTIONS = [
    "the snapshot is the content of the root nonlinear input/output/residual vectors at the moment the requester's "
    "record_iteration (Problem.record) is entered; variables are located by memory offset of their views, no scaling "
    "(ref/res_ref) is used so scaled and physical values coincide",
    "case names are 'rank0:' + '|'.join(name|iter) of the iteration stack (documented in the case reader docs), with "
    "'<prefix>_' in front when a case_prefix is active; problem cases are named by the record() argument",
    "selection rule (docs): a variable is selected when it matches an includes pattern and no excludes pattern (fnmatchcase); "
    "the docs do not say which of absolute / promoted / system-relative name is matched, so a variable is REQUIRED when every "
    "such name of it is selected and FORBIDDEN when none is; for solvers the names are relative to the solver's group (docs)",
    "driver/problem: design variables, objectives, constraints are added when record_desvars / record_objectives|record_responses "
    "/ record_constraints|record_responses; with record_outputs=False the repository's own tests expect no outputs at all, so then "
    "those are allowed but not required; sources of selected inputs are allowed-not-required extras in outputs (docs silent)",
    "descendants of a case = cases of the same run whose iteration stack extends the case's stack (recorded before it)",
    "closed-form anchor: tolerance 1e-8*(1+|v|), only when the coupled pair's residual in the snapshot is below 1e-10; an input "
    "equals the entries src_indices of its source converted from the source's units (for inputs promoted to one name: the units "
    "given to set_input_defaults) to the input's units",
    "linear solvers, derivatives recording, discrete variables, MPI and solver scaling are not covered",
]
BOUND = {'quick': '4 units x 150 cases', 'thorough': '16 units x 1250 cases'}
MIN_CLASS_FRACTION = {'judged': 0.9, 'multi-level': 0.3, 'nondefault-filter': 0.3, 'drv:doe': 0.1, 'drv:slsqp': 0.1, 'cycle': 0.2}
UNIT_TIMEOUT = {'quick': 1500, 'thorough': 4 * 3600}


# ------------------------------------------------------------------------------------------------------------
# reference selection
# ------------------------------------------------------------------------------------------------------------

def selected(name, incl, excl):
    """docs: includes/excludes are fnmatchcase patterns, excludes take precedence"""
    for e in excl:
        if fnmatchcase(name, e):
            return False
    for i in incl:
        if fnmatchcase(name, i):
            return True
    return False


class ModelInfo(object):
    """names of the built model: all inputs / outputs, connections, design variable / response sources"""

    def __init__(self, spec, p):
        self.spec = spec
        self.names = M.var_names(spec)
        conn = dict(p.model._conn_global_abs_in2out)
        self.conn = conn
        self.inputs = [a for a, m in self.names.items() if m['io'] == 'input']
        self.outputs = [a for a, m in self.names.items() if m['io'] == 'output']
        self.auto = {}                       # auto_ivc output -> [abs inputs]
        for i, o in conn.items():
            if o.startswith('_auto_ivc.'):
                self.auto.setdefault(o, []).append(i)
        self.outputs += sorted(self.auto)
        self.dv_src = []
        for nm, absn, size in M.desvar_names(spec):
            self.dv_src.append(absn if self.names[absn]['io'] == 'output' else conn[absn])
        self.obj_src = ['obj.f']
        self.con_src = [c['abs'] for c in spec['cons']]

    def cands(self, absn, P, kind):
        """every name under which the docs could mean variable absn for a requester of `kind` living at system P"""
        if absn.startswith('_auto_ivc.'):
            c = {absn}
            for i in self.auto[absn]:
                c |= {i, self.names[i]['prom']}
            return c
        if kind == 'solver':
            return {absn[len(P) + 1:] if P else absn, M.prom_in_system(self.spec, absn, P)}
        c = {absn, self.names[absn]['prom']}
        if P:
            c |= {absn[len(P) + 1:], M.prom_in_system(self.spec, absn, P)}
        return c


def expected_sets(info, r):
    """kind -> (required, allowed) sets of absolute names for requester r"""
    kind = r['on']
    P = r.get('path', '')
    o = dict(M.DEFAULT_OPTS[kind])
    o.update(r['opts'])
    incl, excl = o['includes'], o['excludes']

    def sel(names):
        req, alw = set(), set()
        for a in names:
            if not M.in_scope(a, P) and not (P == '' and a.startswith('_auto_ivc.')):
                continue
            flags = [selected(c, incl, excl) for c in sorted(info.cands(a, P, kind))]
            if all(flags):
                req.add(a)
            if any(flags):
                alw.add(a)
        return req, alw

    empty = (set(), set())
    res = {}
    res['input'] = sel(info.inputs) if o['record_inputs'] else empty
    rk = 'record_solver_residuals' if kind == 'solver' else 'record_residuals'
    res['residual'] = sel(info.outputs) if o[rk] else empty
    if kind in ('driver', 'problem'):
        req, alw = sel(info.outputs) if o['record_outputs'] else empty
        req, alw = set(req), set(alw)
        extra = set()
        if o['record_desvars']:
            extra |= set(info.dv_src)
        if o['record_objectives'] or o['record_responses']:
            extra |= set(info.obj_src)
        if o['record_constraints'] or o['record_responses']:
            extra |= set(info.con_src)
        alw |= extra
        if o['record_outputs']:
            req |= extra
            if o['record_inputs']:
                # sources of selected inputs: allowed, not required
                for i in info.inputs:
                    if any(selected(c, incl, excl) for c in info.cands(i, P, kind)):
                        alw.add(info.conn[i])
        res['output'] = (req, alw)
    else:
        res['output'] = sel(info.outputs) if o['record_outputs'] else empty
    return res, o


# ------------------------------------------------------------------------------------------------------------
# helpers over the log
# ------------------------------------------------------------------------------------------------------------

def is_desc(d, e):
    """d is e itself or a descendant of e (same run, stack extends e's stack)"""
    return d['op'] == e['op'] and d['prefix'] == e['prefix'] and d['source'] != 'problem' and e['source'] != 'problem' and \
        len(d['stack']) >= len(e['stack']) and d['stack'][:len(e['stack'])] == e['stack']


def case_names(case_dict):
    if case_dict is None:
        return []
    return list(case_dict.absolute_names())


def known_getcase_int(entry):
    """F-C17-1: get_case(int) when the indexed case was recorded by the Problem"""
    return entry['source'] == 'problem'


FNAME = './c17_cases.sql'


def classes_of(spec):
    cls = ['drv:' + spec['driver']['t']]
    kinds = sorted({r['on'] for r in spec['recorders']})
    cls += ['rec:' + k for k in kinds]
    levels = {M.key_of(r) for r in spec['recorders']}
    if len(levels) >= 2:
        cls.append('multi-level')
    nd = any(('includes' in r['opts'] and r['opts']['includes'] != M.DEFAULT_OPTS[r['on']]['includes']) or r['opts'].get('excludes')
             for r in spec['recorders'])
    if nd:
        cls.append('nondefault-filter')
    if spec['cycle']:
        cls += ['cycle', 'cycle:' + spec['cycle']['solver']]
    if any(c['grp'] for c in spec['comps']):
        cls.append('has-G')
    if any(v['units'] and v['src'] and v['src']['t'] != 'auto' and
           M.var_names(spec)[M.src_abs(spec, v['src'])]['units'] != v['units'] for _, v in M.all_inputs(spec)):
        cls.append('unit-conversion')
    runs = [o for o in spec['ops'] if o['op'].startswith('run')]
    if len(runs) >= 2:
        cls.append('repeated-runs')
    if spec['ops'] and spec['ops'][0]['op'] == 'record':
        cls.append('record-before-run')
    if any(o['op'] == 'recopts' for o in spec['ops']):
        cls.append('options-changed-between-runs')
    cls += M.feature_classes(spec)
    return cls, len(levels) >= 2 and nd


def check(case):
    import openmdao.api as om
    res = Result()
    spec = case
    cls, nontrivial = classes_of(spec)
    res.classes = cls
    if os.path.exists(FNAME):
        os.remove(FNAME)
    try:
        out = _check(spec, res, nontrivial, om)
        out.classes = list(dict.fromkeys(out.classes))
        return out
    finally:
        for fn in (FNAME, FNAME + '-journal'):
            if os.path.exists(fn):
                os.remove(fn)


def _check(spec, res, nontrivial, om):
    # ---------------- recording side
    try:
        p, log, rinfo = M.run_recorded(spec, FNAME)
        p.cleanup()
    except Exception as e:
        sig = core.repo_frame_signature(e, 'run')
        if sig is None:
            raise
        res.fail(sig, f"{type(e).__name__}: {e}")
        return res
    info = ModelInfo(spec, p)
    if not log:
        res.discard = 'nothing recorded'
        return res
    names = [e['name'] for e in log]
    if len(set(names)) != len(names):
        raise RuntimeError('generator produced duplicate case names')          # harness precondition
    res.classes.append('judged')
    res.nontrivial = nontrivial

    # ---------------- anchors for the snapshot log itself (harness validation + absolute oracle)
    _anchor(spec, info, rinfo, log, res)

    # ---------------- reader side
    try:
        cr = om.CaseReader(FNAME)
        listed = cr.list_cases(out_stream=None)
    except Exception as e:
        sig = core.repo_frame_signature(e, 'reader-open')
        if sig is None:
            raise
        res.fail(sig, f"{type(e).__name__}: {e}")
        return res
    if list(listed) != names:
        res.fail('order:list_cases-differs-from-execution-order', f"reader {list(listed)[:12]} log {names[:12]}")
        return res

    # sources
    exp_sources = []
    for e in log:
        if e['source'] not in exp_sources:
            exp_sources.append(e['source'])
    try:
        got_sources = cr.list_sources(out_stream=None)
        if sorted(got_sources) != sorted(exp_sources):
            res.fail('sources:list_sources-mismatch', f"reader {sorted(got_sources)} log {sorted(exp_sources)}")
    except Exception as e:
        res.fail(core.repo_frame_signature(e, 'list_sources') or 'list_sources:exception', f"{type(e).__name__}: {e}")

    for s in exp_sources:
        mine = [e for e in log if e['source'] == s]
        kind = 'problem' if s == 'problem' else 'driver' if s == 'driver' else 'solver' if s.endswith('.nonlinear_solver') else 'system'
        try:
            got = list(cr.list_cases(s, recurse=False, out_stream=None))
            if got != [e['name'] for e in mine]:
                res.fail(f"source-list:{kind}:norecurse-mismatch", f"source {s}: reader {got[:10]} log {[e['name'] for e in mine][:10]}")
        except Exception as e:
            res.fail(core.repo_frame_signature(e, f"source-list:{kind}") or 'source-list:exception', f"{s}: {type(e).__name__}: {e}")
        exp = []
        for e in mine:
            if s == 'problem':
                exp.append(e['name'])
            else:
                ie = log.index(e)
                exp += [d['name'] for d in log[:ie + 1] if is_desc(d, e)]
        try:
            got = list(cr.list_cases(s, recurse=True, flat=True, out_stream=None))
            if got != exp:
                res.fail(f"source-list:{kind}:recurse-flat-mismatch", f"source {s}: reader {got[:10]} expected {exp[:10]}")
        except Exception as e:
            res.fail(core.repo_frame_signature(e, f"source-list-recurse:{kind}") or 'source-list:exception',
                     f"{s}: {type(e).__name__}: {e}")

    # a case name as source: the case and its descendants
    for e in _pick(log, 3):
        if e['source'] == 'problem':
            continue
        ie = log.index(e)
        exp = [d['name'] for d in log[:ie + 1] if is_desc(d, e)]
        try:
            got = list(cr.list_cases(e['name'], recurse=True, flat=True, out_stream=None))
            if got != exp:
                res.fail('case-source:recurse-flat-mismatch', f"case {e['name']}: reader {got[:10]} expected {exp[:10]}")
        except Exception as ex:
            res.fail(core.repo_frame_signature(ex, 'case-source-recurse') or 'case-source:exception', f"{type(ex).__name__}: {ex}")
        try:
            got = list(cr.list_cases(e['name'], recurse=False, out_stream=None))
            if got != [e['name']]:
                res.fail('case-source:norecurse-mismatch', f"case {e['name']}: reader {got[:10]}")
        except Exception as ex:
            res.fail('F-C17-2|' + (core.repo_frame_signature(ex, 'case-source-norecurse') or 'exception'),
                     f"list_cases({e['name']!r}, recurse=False): {type(ex).__name__}: {ex}")

    # nested dictionaries (only when every level between a case and its recorded descendants was recorded too)
    _nested(cr, log, res)

    # integer indices
    for i in sorted(set(list(range(min(len(log), 6))) + [len(log) - 1, -1, -len(log)])):
        e = log[i]
        pre = 'F-C17-1|' if known_getcase_int(e) else ''
        try:
            c = cr.get_case(i)
            if c.name != e['name']:
                res.fail(pre + 'getcase-int:wrong-case', f"get_case({i}) returned {c.name!r}, case {i} of list_cases() is {e['name']!r}")
        except Exception as ex:
            res.fail(pre + (core.repo_frame_signature(ex, 'getcase-int') or 'getcase-int:exception'),
                     f"get_case({i}) with {len(log)} cases: {type(ex).__name__}: {ex}")

    # every case: source, counter, variable sets, values
    recs = {M.key_of(r): r for r in spec['recorders']}
    exp_cache = {}
    for idx, e in enumerate(log):
        r = recs[e['key']]
        kind = r['on']
        # options in force for this case: the last 'recopts' operation on this requester before the case's operation
        changes = tuple(j for j, op in enumerate(spec['ops']) if op['op'] == 'recopts' and j < e['op'] and
                        M.key_of(spec['recorders'][op['rec']]) == e['key'])
        if changes:
            r = dict(r, opts=spec['ops'][changes[-1]]['opts'])
        ck = (e['key'], changes[-1] if changes else -1)
        if ck not in exp_cache:
            exp_cache[ck] = expected_sets(info, r)
        exp, opts = exp_cache[ck]
        try:
            c = cr.get_case(e['name'])
            if c.source != e['source']:
                res.fail(f"case-attr:{kind}:source", f"{e['name']}: source {c.source!r} expected {e['source']!r}")
            if c.counter != idx + 1:
                res.fail(f"case-attr:{kind}:counter", f"{e['name']}: counter {c.counter} expected {idx + 1}")
            if kind == 'solver':
                for attr, key, flag in (('abs_err', 'abs', 'record_abs_error'), ('rel_err', 'rel', 'record_rel_error')):
                    want = e[key] if opts[flag] else None
                    got = getattr(c, attr)
                    if (want is None) != (got is None) or (want is not None and float(want) != float(got)):
                        res.fail(f"solver-error:{attr}", f"{e['name']}: {attr} {got!r} expected {want!r}")
            for io, cd, off, flat in (('input', c.inputs, rinfo['in_off'], e['inputs']), ('output', c.outputs, rinfo['out_off'], e['outputs']),
                                      ('residual', c.residuals, rinfo['res_off'], e['residuals'])):
                got = set(case_names(cd))
                req, alw = exp[io]
                if req - got:
                    res.fail(f"varset:{kind}:{io}:missing", f"{e['name']} ({e['source']}, opts {r['opts']}): missing {sorted(req - got)} "
                             f"recorded {sorted(got)}")
                if got - alw:
                    res.fail(f"varset:{kind}:{io}:unexpected", f"{e['name']} ({e['source']}, opts {r['opts']}): unexpected "
                             f"{sorted(got - alw)} allowed {sorted(alw)}")
                for a in sorted(got):
                    if a not in off.map:
                        res.fail(f"varset:{kind}:{io}:unknown-name", f"{e['name']}: {a}")
                        continue
                    want = off.get(flat, a)
                    val = np.asarray(cd[a])
                    if val.shape != want.shape or not np.array_equal(val, want, equal_nan=True):
                        res.fail(f"value:{kind}:{io}", f"{e['name']} {a}: recorded {val.tolist()} snapshot {want.tolist()}")
        except Exception as ex:
            sig = core.repo_frame_signature(ex, f"case-read:{kind}")
            if sig is None:
                raise
            res.fail(sig, f"{e['name']}: {type(ex).__name__}: {ex}")

    # DOE: the i-th driver case of a run_driver holds the i-th design point (absolute oracle for recorded desvars)
    if spec['driver']['t'] == 'doe' and 'driver' in recs:
        for opi, op in enumerate(spec['ops']):
            if op['op'] != 'run_driver':
                continue
            mine = [e for e in log if e['source'] == 'driver' and e['op'] == opi]
            pts = spec['driver']['points']
            if len(mine) != len(pts):
                res.fail('doe:number-of-driver-cases', f"{len(mine)} driver cases for {len(pts)} points")
                continue
            for e, pt in zip(mine, pts):
                c = cr.get_case(e['name'])
                got = set(case_names(c.outputs))
                for src, vals in zip(info.dv_src, pt):
                    if src in got and not np.array_equal(np.asarray(c.outputs[src]).ravel(), np.array(vals, dtype=float)):
                        res.fail('doe:recorded-desvar-differs-from-design-point', f"{e['name']} {src}: {np.asarray(c.outputs[src]).tolist()} "
                                 f"point {vals}")
    return res


def _pick(log, n):
    """deterministic sample of log entries: first, middle, last"""
    idx = sorted({0, len(log) // 2, len(log) - 1})
    return [log[i] for i in idx][:n]


def _nested(cr, log, res):
    names = {(e['op'], e['prefix'], tuple(map(tuple, e['stack']))): e for e in log if e['source'] != 'problem'}

    def children(e):
        ie = log.index(e)
        return [d for d in log[:ie] if is_desc(d, e) and len(d['stack']) == len(e['stack']) + 1]

    def complete(e):
        ie = log.index(e)
        for d in log[:ie]:
            if is_desc(d, e) and d is not e:
                par = (d['op'], d['prefix'], tuple(map(tuple, d['stack'][:-1])))
                if par not in names:
                    return False
        return True

    def tree(e):
        return {e['name']: _merge([tree(d) for d in children(e)])}

    def _merge(lst):
        out = {}
        for t in lst:
            out.update(t)
        return out

    def plain(d):
        return {k: plain(v) for k, v in d.items()}

    for e in _pick([x for x in log if x['source'] != 'problem'] or log, 2):
        if e['source'] == 'problem' or not complete(e):
            continue
        exp = tree(e)
        try:
            got = cr.list_cases(e['name'], recurse=True, flat=False, out_stream=None)
            got = plain(got)
            if got != exp or _order(got) != _order(exp):
                res.fail('case-source:nested-mismatch', f"case {e['name']}: reader {core.dumps(got)[:600]} expected {core.dumps(exp)[:600]}")
            else:
                res.classes.append('nested-checked')
        except Exception as ex:
            res.fail(core.repo_frame_signature(ex, 'case-source-nested') or 'case-source-nested:exception', f"{type(ex).__name__}: {ex}")


def _order(d):
    return [(k, _order(v)) for k, v in d.items()]


def _anchor(spec, info, rinfo, log, res):
    """closed-form check of the snapshots taken when the whole model has just been solved"""
    for e in log:
        full = e['source'] in ('driver', 'root')
        if e['source'] == 'problem':
            prev = [o['op'] for o in spec['ops'][:e['op']] if o['op'] != 'record']
            full = bool(prev) and prev[-1].startswith('run')
        if full and spec['driver']['t'] == 'slsqp':
            # an optimizer run only executes the systems relevant to the responses (relevance pruning): irrelevant components
            # keep stale values by design, so the whole-model closed form is no anchor there
            last_run = [o['op'] for o in spec['ops'][:e['op'] + 1] if o['op'].startswith('run')]
            if last_run and last_run[-1] == 'run_driver':
                full = False
        if not full:
            continue
        # independent values of the snapshot: IndepVarComp outputs, unconnected inputs, and for inputs promoted to one name under
        # set_input_defaults their common _auto_ivc source (the reference derives every such input from it: entries src_indices,
        # converted from the units of the defaults to the input's units)
        given = M.given_from_snapshot(spec, info.conn, rinfo, e)
        ref = M.reference(spec, given)
        cy = spec['cycle']
        if cy:
            k1, k2, q, s, f12 = M.cyc_coeffs(cy)
            g = lambda a, io: float(np.ravel(rinfo[io].get(e['outputs' if io == 'out_off' else 'inputs'], a))[0])
            y1, y2 = g('cyc.d1.cy1', 'out_off'), g('cyc.d2.cy2', 'out_off')
            u = np.sum(rinfo['in_off'].get(e['inputs'], 'cyc.d1.cu'))
            r1 = y1 - (k1 * y2 + s * u + 1.0)
            r2 = y2 - (k2 * y1 + q * np.tanh(y1))
            if abs(r1) + abs(r2) > 1e-10:
                res.classes.append('anchor-skipped-unconverged')
                continue
        for a, m in info.names.items():
            got = rinfo['out_off' if m['io'] == 'output' else 'in_off'].get(e['outputs'] if m['io'] == 'output' else e['inputs'], a)
            want = ref[a]
            if np.ravel(got).shape != np.ravel(want).shape or np.any(np.abs(np.ravel(got) - np.ravel(want)) > 1e-8 * (1 + np.abs(np.ravel(want)))):
                res.fail('anchor:snapshot-differs-from-closed-form', f"{e['name']} {a}: snapshot {np.ravel(got).tolist()} closed form "
                         f"{np.ravel(want).tolist()}")
                return
    res.classes.append('anchored')


def strategy(tier):
    return M.full_strategy()


def units(tier, seed):
    # few, long units: on the shared machine a cold `import openmdao.api` costs far more CPU than the cases of a unit
    n = 4 if tier == 'quick' else 16
    per = 150 if tier == 'quick' else 1250
    return [{'kind': 'random', 'n': per, 'seed': core.shard_seed(seed, ID, i)} for i in range(n)]


def run_unit(unit, ctx):
    import gc
    import openmdao.api  # noqa: F401
    gc.collect()
    gc.freeze()          # SqliteRecorder.shutdown() calls gc.collect(): keep the imported modules out of its way
    core.run_hypothesis(ctx, strategy(unit.get('tier')), check, unit['n'], unit['seed'], shrink=unit.get('tier') == 'thorough')
