"""C22  Constraint violation is measured correctly elementwise and in driver units.

Domain : 1-3 constraints on a trivial pass-through model (y_k = x_k, x_k set by the harness, sizes 1-6)
         x bound patterns (scalar / array, one- and two-sided, equality scalar / array, None,
         +-inf, +-1e30, per-element infinities) x scaler/adder or ref/ref0 (scalar and array) x units
         x indices / alias x linear flag x driver_scaling x ctype / lintype filters, observed through
         Driver.get_constraint_values(viol=True), Driver._compute_con_viol and Problem.find_feasible.
Oracle : written from the property statement with NumPy: per element  v = y-upper if y>upper, y-lower if
         y<lower, else 0 ; y-equals for equalities ; y is the constraint value in the constraint's units ;
         with driver_scaling the result is v * total_scaler (scaler, or 1/(ref-ref0)); the adder cancels.
"""
import math

import numpy as np

from vfw import core
from vfw.core import Result

ID = 'C22'
LEVEL = 'exploration'
TECHNIQUE = 'Hypothesis-generated constraint sets on a pass-through model, NumPy reference for the signed violation'
RULE = ("case = (1-3 constraints, each: variable size 1-6, optional indices/alias, element values placed "
        "below / on / inside / on / above their bounds, bound pattern, scaling, units, linear flag) x "
        "driver_scaling x ctype x lintype x observation path (get_constraint_values(viol=True) called twice, "
        "_compute_con_viol, find_feasible). Non-trivial = some judged constraint has an array bound with a "
        "strict, non-empty subset of its elements violated, or a total scaler != 1 together with "
        "driver_scaling=True and a non-zero violation. Distinct = distinct canonical JSON of the case.")
ASSUMPTIONS = [
    "the violation is the SIGNED distance (property statement; the least-squares Jacobian used by find_feasible "
    "is the constraint Jacobian, which is only consistent with a signed residual) although the docstring of "
    "get_constraint_values says 'absolute value'",
    "bounds are given in the constraint's declared units; values are converted source->constraint units with a "
    "hard-coded (factor, offset) table (m->cm, m->km, s->min, kg->g, degC->degF), tolerance covers table round-off",
    "a negative scaler on an INEQUALITY constraint with driver_scaling=True is generated but not judged (no "
    "ordering rule is stated for the image of bounds under a negative factor, DESIGN section 8 item 4)",
    "lower <= upper elementwise; |values| <= 1e3 so nothing comes near the 1e30 infinity sentinel",
    "find_feasible is judged only on reported success: success means loss = 0.5*sum(r^2) <= loss_tol (documented), so "
    "every reference violation must satisfy |v_i * s_i| <= sqrt(2*loss_tol) (s_i = 1 without driver scaling); a "
    "reported failure on these always-feasible problems is counted, not judged",
    "_compute_con_viol is called the way _find_feasible calls it (after final_setup, x in driver units, design "
    "variables unscaled so driver units = model units for x)",
]
BOUND = {'quick': '16 shards x 330 generated cases (~70% get, 20% con_viol, 10% find_feasible)',
         'thorough': '16 shards x 12000 generated cases'}
MIN_CLASS_FRACTION = {'partial_violation': 0.10, 'scaled_ds_nonzero': 0.10, 'on_bound': 0.10,
                      'array_bound': 0.15, 'filtered': 0.15, 'via_get': 0.4, 'via_con_viol': 0.1, 'via_ff': 0.05}

INF_BOUND = 1.0e30
EPS = float(np.finfo(float).eps)
# value_in_target = (value_in_source + offset) * factor
UNITS = [
    ('m', 'cm', 100.0, 0.0),
    ('m', 'km', 1.0e-3, 0.0),
    ('s', 'min', 1.0 / 60.0, 0.0),
    ('kg', 'g', 1000.0, 0.0),
    ('degC', 'degF', 1.8, 160.0 / 9.0),
]
LOSS_TOL = 1.0e-8


# ---------------------------------------------------------------------------------------------
# decoding helpers
# ---------------------------------------------------------------------------------------------

def _num(v):
    if v == 'inf':
        return math.inf
    if v == '-inf':
        return -math.inf
    return float(v)


def dec_bound(b):
    """JSON bound -> what the user passes to add_constraint (None, float or ndarray)."""
    if b is None:
        return None
    if isinstance(b, list):
        return np.array([_num(v) for v in b], dtype=float)
    return _num(b)


def dec_scal(v):
    if v is None:
        return None
    if isinstance(v, list):
        return np.array(v, dtype=float)
    return float(v)


def _full(v, m, default):
    """Reference: the per-element bound a user means by None / scalar / array."""
    if v is None:
        return np.full(m, default)
    a = np.asarray(v, dtype=float)
    if a.ndim == 0:
        return np.full(m, float(a))
    if a.size == 1:
        return np.full(m, float(a[0]))
    assert a.size == m
    return a.astype(float)


def con_size(con):
    return len(con['indices']) if con['indices'] is not None else con['n']


def con_key(con, k):
    return con['alias'] or f"y{k}"


def total_scaler(con):
    """Reference total scaler (array of length m) from the documented definitions."""
    m = con_size(con)
    sc = con['scaling']
    if sc.get('ref') is not None or sc.get('ref0') is not None:
        ref = _full(dec_scal(sc.get('ref')), m, 1.0)
        ref0 = _full(dec_scal(sc.get('ref0')), m, 0.0)
        return 1.0 / (ref - ref0)
    return _full(dec_scal(sc.get('scaler')), m, 1.0)


def total_adder(con):
    m = con_size(con)
    sc = con['scaling']
    if sc.get('ref') is not None or sc.get('ref0') is not None:
        return -_full(dec_scal(sc.get('ref0')), m, 0.0)
    return _full(dec_scal(sc.get('adder')), m, 0.0)


def driver_units_value(con, x):
    """Constraint value in the constraint's units (array of length m) and the conversion round-off bound."""
    x = np.asarray(x, dtype=float)
    if con['indices'] is not None:
        x = x[np.asarray(con['indices'], dtype=int)]
    if con['units'] is None:
        return x.copy(), np.zeros(x.size)
    _, _, f, off = UNITS[con['units']]
    return (x + off) * f, 64.0 * EPS * (np.abs(x) + abs(off)) * abs(f)


def reference_violation(con, x, driver_scaling):
    """Return (v, tol, lo, up, eq) : expected violation per element and its comparison tolerance."""
    m = con_size(con)
    y, ytol = driver_units_value(con, x)
    s = total_scaler(con) if driver_scaling else np.ones(m)
    if con['equals'] is not None:
        e = _full(dec_bound(con['equals']), m, 0.0)
        v = y - e
        mag = np.maximum(np.abs(y), np.abs(e))
        lo = up = None
    else:
        lo = _full(dec_bound(con['lower']), m, -INF_BOUND)
        up = _full(dec_bound(con['upper']), m, INF_BOUND)
        e = None
        v = np.where(y > up, y - up, np.where(y < lo, y - lo, 0.0))
        fin = lambda b: np.where(np.abs(b) >= INF_BOUND, 0.0, np.abs(b))
        mag = np.maximum(np.abs(y), np.maximum(fin(lo), fin(up)))
    if driver_scaling:
        # an implementation may form (y+adder)*s - (bound+adder)*s : allow the round-off of that route
        mag = mag + np.abs(total_adder(con))
    tol = (16.0 * EPS * mag + ytol) * np.abs(s) + 1e-300
    return v * s, tol, lo, up, e


# ---------------------------------------------------------------------------------------------
# predicates of the known findings (functions of the input only)
# ---------------------------------------------------------------------------------------------

def _array_sides(con):
    """Sides ('lower'/'upper') of an inequality constraint given as an array with more than one entry."""
    if con['equals'] is not None:
        return []
    return [side for side in ('lower', 'upper') if isinstance(con[side], list) and len(con[side]) > 1]


def known_f10a(con, x):
    """F10a: inequality constraint with an array-valued (len > 1) lower/upper bound where the number of elements
    violating that side differs from the constraint size (then `con_val[idxs] -= bound_array` cannot broadcast)."""
    sides = _array_sides(con)
    if not sides:
        return False
    m = con_size(con)
    y, _ = driver_units_value(con, x)
    lo = _full(dec_bound(con['lower']), m, -INF_BOUND)
    up = _full(dec_bound(con['upper']), m, INF_BOUND)
    for side in sides:
        k = int(np.sum(y < lo)) if side == 'lower' else int(np.sum(y > up))
        if k != m:
            return True
    return False


def near_f10a(con, x):
    """Same predicate, robust to unit-conversion round-off deciding a boundary differently."""
    if known_f10a(con, x):
        return True
    if con['units'] is None or not _array_sides(con):
        return False
    xs = np.asarray(x, dtype=float)
    return any(known_f10a(con, xs * (1.0 + d)) for d in (-1e-12, 1e-12))


def known_f10a_any(con):
    """F10a on a path where the iterates are not part of the input (find_feasible): any array-valued bound."""
    return bool(_array_sides(con))


def known_f10b(con, driver_scaling):
    """F10b: driver_scaling=True on a constraint whose total scaler differs from 1 somewhere."""
    return bool(driver_scaling) and bool(np.any(total_scaler(con) != 1.0))


def known_lincache(case):
    """find_feasible on a driver without supports['linear_constraints'] (base Driver) with at least one linear and
    one nonlinear constraint: the totals object built for the linear constraints is cached as driver._total_jac and
    then reused for the nonlinear ones."""
    lin = [bool(c['linear']) for c in case['cons']]
    return case.get('via') == 'ff' and case.get('driver') == 'base' and any(lin) and not all(lin)


def unjudged_negative(con, driver_scaling):
    return bool(driver_scaling) and con['equals'] is None and bool(np.any(total_scaler(con) < 0.0))


# ---------------------------------------------------------------------------------------------
# building the real problem
# ---------------------------------------------------------------------------------------------

def build(case):
    import openmdao.api as om
    p = om.Problem(reports=False)
    if case.get('driver') == 'scipy':
        p.driver = om.ScipyOptimizeDriver(optimizer='SLSQP')
        p.driver.options['disp'] = False
    for k, con in enumerate(case['cons']):
        n = con['n']
        src = UNITS[con['units']][0] if con['units'] is not None else None
        meta = {'val': np.zeros(n), 'units': src}
        p.model.add_subsystem(f"c{k}", om.ExecComp(f"y{k} = x{k}", **{f"x{k}": dict(meta), f"y{k}": dict(meta)}),
                              promotes=['*'])
        p.model.add_design_var(f"x{k}")
        kw = {}
        for side in ('lower', 'upper', 'equals'):
            b = dec_bound(con[side])
            if b is not None:
                kw[side] = b
        for key in ('scaler', 'adder', 'ref', 'ref0'):
            v = dec_scal(con['scaling'].get(key))
            if v is not None:
                kw[key] = v
        if con['units'] is not None:
            kw['units'] = UNITS[con['units']][1]
        if con['indices'] is not None:
            kw['indices'] = list(con['indices'])
        if con['alias']:
            kw['alias'] = con['alias']
        p.model.add_constraint(f"y{k}", linear=bool(con['linear']), **kw)
    p.setup()
    for k, con in enumerate(case['cons']):
        p.set_val(f"x{k}", np.asarray(con['x'], dtype=float))
    return p


def selected(case):
    """Reference filter: indices of the constraints a (ctype, lintype) query must return, in declaration order."""
    out = []
    for k, con in enumerate(case['cons']):
        if case['lintype'] == 'linear' and not con['linear']:
            continue
        if case['lintype'] == 'nonlinear' and con['linear']:
            continue
        if case['ctype'] == 'eq' and con['equals'] is None:
            continue
        if case['ctype'] == 'ineq' and con['equals'] is not None:
            continue
        out.append(k)
    return out


# ---------------------------------------------------------------------------------------------
# oracle
# ---------------------------------------------------------------------------------------------

def _classify(case, res, judged):
    cls = [f"via_{case['via']}", 'ds' if case['driver_scaling'] else 'nods']
    nontrivial = False
    if case['ctype'] != 'all' or case['lintype'] != 'all':
        cls.append('filtered')
    for k in judged:
        con = case['cons'][k]
        v, _, lo, up, e = reference_violation(con, con['x'], case['driver_scaling'])
        nz = int(np.count_nonzero(v))
        m = v.size
        arr = any(isinstance(con[s], list) and len(con[s]) > 1 for s in ('lower', 'upper', 'equals'))
        if arr:
            cls.append('array_bound')
        if arr and 0 < nz < m:
            cls.append('partial_violation')
            nontrivial = True
        if case['driver_scaling'] and np.any(total_scaler(con) != 1.0) and nz:
            cls.append('scaled_ds_nonzero')
            nontrivial = True
        y, _ = driver_units_value(con, con['x'])
        if e is None and (np.any(y == lo) or np.any(y == up)):
            cls.append('on_bound')
        if e is not None:
            cls.append('equality')
        if con['units'] is not None:
            cls.append('units')
        if con['indices'] is not None:
            cls.append('indices')
        if con['linear']:
            cls.append('linear')
        if e is None and (np.any(np.abs(lo) >= INF_BOUND) or np.any(np.abs(up) >= INF_BOUND)):
            cls.append('one_sided_elements')
        if np.any(total_scaler(con) < 0):
            cls.append('negative_scaler')
    res.classes = sorted(set(cls))
    res.nontrivial = nontrivial
    return res


def _compare(case, res, k, got, x, tag):
    """Judge one constraint's reported violation vector `got` against the reference at design point x."""
    con = case['cons'][k]
    ds = case['driver_scaling']
    name = con_key(con, k)
    if unjudged_negative(con, ds):
        res.classes.append('negative_scaler_ineq_unjudged')
        return
    v, tol, lo, up, e = reference_violation(con, x, ds)
    got = np.asarray(got, dtype=float).ravel()
    base = 'F10b-driver-scaling-with-scaler-ne-1' if known_f10b(con, ds) else 'viol'
    if got.shape != v.shape:
        res.fail(f"{base}:shape{tag}", f"{name}: got shape {got.shape} expected {v.shape}")
        return
    bad = ~(np.abs(got - v) <= tol)
    if np.any(bad):
        i = int(np.argmax(bad))
        res.fail(f"{base}:value{tag}",
                 f"{name}[{i}]: got {got.tolist()} expected {v.tolist()} (tol {tol[i]:.3g}); x={np.asarray(x).tolist()} "
                 f"lower={con['lower']} upper={con['upper']} equals={con['equals']} scaling={con['scaling']} "
                 f"units={con['units']} indices={con['indices']} driver_scaling={ds}")


def _exc_signature(case, exc, ks, xs, exact):
    """Signature for an exception raised by OpenMDAO while computing violations of constraints `ks`."""
    if isinstance(exc, ValueError) and 'broadcast' in str(exc):
        for k in ks:
            con = case['cons'][k]
            if (near_f10a(con, xs[k]) if exact else known_f10a_any(con)):
                return 'F10a-array-bound-partial-violation:raises'
    return core.repo_frame_signature(exc) or f"exc:{type(exc).__name__}"


def check(case):
    res = Result()
    cons = case['cons']
    ds = case['driver_scaling']
    via = case['via']
    p = build(case)
    drv = p.driver
    xs = [np.asarray(c['x'], dtype=float) for c in cons]

    if via == 'get':
        p.run_model()
        ks = selected(case)
        _classify(case, res, ks)
        for call in ('', ':second-call'):
            try:
                out = drv.get_constraint_values(ctype=case['ctype'], lintype=case['lintype'],
                                                driver_scaling=ds, viol=True)
            except Exception as exc:
                res.fail(_exc_signature(case, exc, ks, xs, True), f"{type(exc).__name__}: {exc}")
                return res
            names = [con_key(cons[k], k) for k in ks]
            if list(out.keys()) != names:
                res.fail(f"viol:filter-keys{call}", f"got {list(out.keys())} expected {names} for "
                         f"ctype={case['ctype']} lintype={case['lintype']}")
                return res
            for k in ks:
                _compare(case, res, k, out[con_key(cons[k], k)], xs[k], call)
        return res

    if via == 'con_viol':
        p.final_setup()
        order = [k for k, c in enumerate(cons) if c['linear']] + [k for k, c in enumerate(cons) if not c['linear']]
        _classify(case, res, order)
        names = [f"x{k}" for k in range(len(cons))]
        drv._exc_info = None
        got = drv._compute_con_viol(np.concatenate(xs), names, driver_scaling=ds)
        if drv._exc_info is not None:
            exc = drv._exc_info[1]
            drv._exc_info = None
            res.fail(_exc_signature(case, exc, order, xs, True), f"{type(exc).__name__}: {exc} (swallowed; "
                     f"_compute_con_viol returned {np.asarray(got).tolist()})")
            return res
        got = np.asarray(got, dtype=float).ravel()
        total = sum(con_size(cons[k]) for k in order)
        if got.size != total:
            res.fail('viol:con_viol-size', f"got {got.size} entries expected {total}")
            return res
        off = 0
        for k in order:
            m = con_size(cons[k])
            _compare(case, res, k, got[off:off + m], xs[k], ':con_viol')
            off += m
        return res

    if via == 'ff':
        _classify(case, res, list(range(len(cons))))
        allk = list(range(len(cons)))
        import scipy.optimize as _so
        seen = {}
        orig = _so.least_squares

        def spy(*a, **kw):          # observation only: remembers the solution scipy returned to OpenMDAO
            r = orig(*a, **kw)
            seen['x'] = np.array(r.x, dtype=float)
            return r
        _so.least_squares = spy
        try:
            failed = p.find_feasible(driver_scaling=ds, iprint=0)
        except Exception as exc:
            if known_lincache(case) and isinstance(exc, ValueError) and '`jac`' in str(exc):
                sig = 'FF-linear-totals-cached-for-nonlinear:raises'
            else:
                sig = _exc_signature(case, exc, allk, xs, False)
            res.fail(sig, f"{type(exc).__name__}: {exc}")
            return res
        finally:
            _so.least_squares = orig
        if failed or not drv.result.success:
            res.classes.append('ff_reported_failure')
            res.nontrivial = False
            return res
        res.classes.append('ff_reported_success')
        lim = math.sqrt(2.0 * LOSS_TOL) * (1.0 + 1e-6)
        xmodel = [np.asarray(p.get_val(f"x{k}"), dtype=float).ravel() for k in allk]
        xsol, off = [], 0
        for k in allk:
            xsol.append(seen['x'][off:off + cons[k]['n']] if 'x' in seen else xmodel[k])
            off += cons[k]['n']
        moved = not all(np.array_equal(a, b) for a, b in zip(xmodel, xsol))
        if moved:
            res.classes.append('ff_model_state_differs_from_solution')
        for k, con in enumerate(cons):
            if unjudged_negative(con, ds):
                res.classes.append('negative_scaler_ineq_unjudged')
                continue
            # documented: "If it completes successfully, the model will be in a feasible state"
            v, tol, _, _, _ = reference_violation(con, xmodel[k], ds)
            bad = np.abs(v) > lim + tol
            if np.any(bad):
                vs, tols, _, _, _ = reference_violation(con, xsol[k], ds)
                bad_at_solution = bool(np.any(np.abs(vs) > lim + tols))
                if any(known_f10a_any(c) for c in cons):
                    # the swallowed ValueError zeroes the WHOLE residual vector, so every constraint is affected
                    base = 'F10a-array-bound-partial-violation'
                elif moved and not bad_at_solution:
                    base = 'FF-model-left-at-trial-point'
                elif known_f10b(con, ds):
                    base = 'F10b-driver-scaling-with-scaler-ne-1'
                else:
                    base = 'viol'
                i = int(np.argmax(bad))
                res.fail(f"{base}:find_feasible-success-but-violated",
                         f"{con_key(con, k)}[{i}]: success reported, reference violation at the model state "
                         f"{v.tolist()} (driver_scaling={ds}) exceeds sqrt(2*loss_tol)={lim:.4g}; "
                         f"x_model={xmodel[k].tolist()} x_least_squares={np.asarray(xsol[k]).tolist()} "
                         f"lower={con['lower']} upper={con['upper']} equals={con['equals']} scaling={con['scaling']}")
        return res

    raise ValueError(f"unknown via {via!r}")


# ---------------------------------------------------------------------------------------------
# Hypothesis strategy
# ---------------------------------------------------------------------------------------------

def strategy(via_weights=('get',) * 7 + ('con_viol',) * 2 + ('ff',)):
    from hypothesis import strategies as st

    nice = st.one_of(st.integers(-5, 5).map(float),
                     st.floats(-100.0, 100.0, allow_nan=False, width=64),
                     st.floats(-1000.0, 1000.0, allow_nan=False, width=64))
    pos = st.one_of(st.sampled_from([0.5, 1.0, 2.0, 0.001, 10.0]),
                    st.floats(1e-3, 50.0, allow_nan=False, width=64))
    factor = st.one_of(st.sampled_from([1.0, 2.0, 10.0, 0.5, 1e-3, 1e3, 0.1]),
                       st.floats(1e-2, 1e2, allow_nan=False, width=64))

    @st.composite
    def scal_or_arr(draw, elem, m, p_array):
        """scalar or size-m list (OpenMDAO documents an error for arrays of any other size)"""
        form = draw(st.sampled_from(['s'] * (10 - p_array) + ['a'] * p_array))
        if form == 's':
            return draw(elem)
        return [draw(elem) for _ in range(m)]

    @st.composite
    def scaling(draw, m):
        kind = draw(st.sampled_from(['none', 'sa', 'sa', 'ref', 'ref']))
        if kind == 'none':
            return {}
        neg = draw(st.integers(0, 11)) == 0
        if kind == 'sa':
            out = {}
            which = draw(st.sampled_from(['both', 'both', 'scaler', 'adder']))
            if which in ('both', 'scaler'):
                f = factor.map(lambda v: -v) if neg else factor
                out['scaler'] = draw(scal_or_arr(f, m, 4))
            if which in ('both', 'adder'):
                out['adder'] = draw(scal_or_arr(nice, m, 4))
            return out
        which = draw(st.sampled_from(['both', 'both', 'ref', 'ref0']))
        if which == 'ref':
            f = factor.map(lambda v: -v) if neg else factor
            return {'ref': draw(scal_or_arr(f, m, 4))}
        r0 = draw(scal_or_arr(nice, m, 4))
        if which == 'ref0':
            # ref defaults to 1: keep ref0 away from 1
            fix = lambda v: v if abs(1.0 - v) > 1e-2 else v - 0.5
            r0 = [fix(v) for v in r0] if isinstance(r0, list) else fix(r0)
            return {'ref0': r0}
        d = draw(scal_or_arr(factor, m, 4))
        sgn = -1.0 if neg else 1.0
        if isinstance(r0, list) or isinstance(d, list):
            k = max(len(r0) if isinstance(r0, list) else 1, len(d) if isinstance(d, list) else 1)
            r0l = r0 if isinstance(r0, list) else [r0]
            dl = d if isinstance(d, list) else [d]
            ref = [r0l[i % len(r0l)] + sgn * dl[i % len(dl)] for i in range(k)]
            ok = all(abs(ref[i] - r0l[i % len(r0l)]) > 0 for i in range(k))
        else:
            ref = r0 + sgn * d
            ok = ref != r0
        if not ok:
            return {'ref0': 0.0, 'ref': 2.0}
        return {'ref0': r0, 'ref': ref}

    @st.composite
    def constraint(draw, k):
        n = draw(st.integers(1, 6))
        indices = None
        alias = None
        if draw(st.integers(0, 3)) == 0:
            mm = draw(st.integers(1, n))
            perm = draw(st.permutations(list(range(n))))[:mm]
            indices = [i - n if draw(st.booleans()) else i for i in perm]
            if draw(st.booleans()):
                alias = f"al{k}"
        m = len(indices) if indices is not None else n
        units = draw(st.sampled_from([None, None, None, 0, 1, 2, 3, 4]))
        sc = draw(scaling(m))
        linear = draw(st.integers(0, 9)) < 3
        is_eq = draw(st.integers(0, 3)) == 0
        y = []
        if is_eq:
            eq = draw(scal_or_arr(nice, m, 5))
            ee = eq if isinstance(eq, list) and len(eq) == m else [eq[0] if isinstance(eq, list) else eq] * m
            for i in range(m):
                where = draw(st.sampled_from(['on', 'below', 'above']))
                dist = draw(pos)
                y.append(ee[i] if where == 'on' else (ee[i] - dist if where == 'below' else ee[i] + dist))
            lower = upper = None
        else:
            eq = None
            form = draw(st.sampled_from(['ss', 'ss', 'aa', 'as', 'sa', 'aa']))
            sides = draw(st.sampled_from(['both', 'both', 'lower', 'upper']))
            # reference per-element finite values first
            base_lo = draw(nice)
            width = draw(st.one_of(st.just(0.0), pos, pos))
            lo_el = [base_lo] * m
            up_el = [base_lo + width] * m
            if form[0] == 'a':
                lo_el = [draw(nice) for _ in range(m)]
                up_el = [lo_el[i] + width for i in range(m)] if form[1] == 's' else up_el
            if form[1] == 'a':
                up_el = [lo_el[i] + draw(st.one_of(st.just(0.0), pos, pos)) for i in range(m)]
            if form == 'as':
                # scalar upper must dominate every lower element
                top = max(lo_el) + width
                up_el = [top] * m
            if form == 'sa':
                lo_el = [min(up_el) - width] * m
            lo_fin = [True] * m
            up_fin = [True] * m

            def infinite_form(sign):
                return draw(st.sampled_from([None, None, 'inf', 1e30, 2e30])) if sign > 0 else \
                    draw(st.sampled_from([None, None, '-inf', -1e30, -2e30]))

            # lower
            if sides == 'upper':
                lo_fin = [False] * m
                lower = infinite_form(-1)
            elif form[0] == 's':
                lower = [lo_el[0]] if (m == 1 and draw(st.booleans())) else lo_el[0]
            else:
                lower = list(lo_el)
                for i in range(m):
                    if sides == 'both' and draw(st.integers(0, 4)) == 0:
                        lower[i] = draw(st.sampled_from(['-inf', -1e30]))
                        lo_fin[i] = False
            # upper
            if sides == 'lower':
                up_fin = [False] * m
                upper = infinite_form(1)
            elif form[1] == 's':
                upper = [up_el[0]] if (m == 1 and draw(st.booleans())) else up_el[0]
            else:
                upper = list(up_el)
                for i in range(m):
                    if sides == 'both' and lo_fin[i] and draw(st.integers(0, 4)) == 0:
                        upper[i] = draw(st.sampled_from(['inf', 1e30]))
                        up_fin[i] = False
            if lower is None and upper is None:
                upper = up_el[0]
                up_fin = [True] * m
            # all elements on one side violated (the only array pattern the current code computes) now and then
            mode = draw(st.sampled_from(['mixed'] * 5 + ['all_below', 'all_above', 'all_in']))
            for i in range(m):
                opts = []
                if lo_fin[i]:
                    opts += ['below', 'on_lo']
                if up_fin[i]:
                    opts += ['above', 'on_up']
                opts += ['in', 'in']
                where = draw(st.sampled_from(opts))
                if mode == 'all_below' and lo_fin[i]:
                    where = 'below'
                elif mode == 'all_above' and up_fin[i]:
                    where = 'above'
                elif mode == 'all_in':
                    where = 'in'
                dist = draw(pos)
                if where == 'below':
                    y.append(lo_el[i] - dist)
                elif where == 'on_lo':
                    y.append(lo_el[i])
                elif where == 'above':
                    y.append(up_el[i] + dist)
                elif where == 'on_up':
                    y.append(up_el[i])
                elif lo_fin[i] and up_fin[i]:
                    y.append(lo_el[i] + draw(st.floats(0.0, 1.0, allow_nan=False, width=64)) * (up_el[i] - lo_el[i]))
                elif lo_fin[i]:
                    y.append(lo_el[i] + dist)
                elif up_fin[i]:
                    y.append(up_el[i] - dist)
                else:
                    y.append(draw(nice))
        # place the constrained element values into the source variable (source units)
        x = [draw(nice) for _ in range(n)]
        pos_idx = [i % n for i in indices] if indices is not None else list(range(n))
        for j, i in enumerate(pos_idx):
            val = y[j]
            if units is not None:
                _, _, f, off = UNITS[units]
                val = val / f - off
            x[i] = float(val)
        return {'n': n, 'x': x, 'indices': indices, 'alias': alias, 'lower': lower, 'upper': upper, 'equals': eq,
                'scaling': sc, 'units': units, 'linear': linear}

    @st.composite
    def case(draw):
        ncon = draw(st.sampled_from([1, 1, 2, 2, 3]))
        cons = [draw(constraint(k)) for k in range(ncon)]
        via = draw(st.sampled_from(list(via_weights)))
        out = {'cons': cons, 'driver_scaling': draw(st.booleans()), 'via': via,
               'ctype': 'all', 'lintype': 'all',
               'driver': draw(st.sampled_from(['base', 'scipy']))}
        if via == 'get':
            out['ctype'] = draw(st.sampled_from(['all', 'all', 'eq', 'ineq']))
            out['lintype'] = draw(st.sampled_from(['all', 'all', 'linear', 'nonlinear']))
        return out

    return case()


# ---------------------------------------------------------------------------------------------
# work units
# ---------------------------------------------------------------------------------------------

def units(tier, seed):
    nshard = 16
    per = 330 if tier == 'quick' else 12000
    return [{'kind': 'random', 'n': per, 'seed': core.shard_seed(seed, ID, i)} for i in range(nshard)]


def run_unit(unit, ctx):
    core.run_hypothesis(ctx, strategy(), check, unit['n'], unit['seed'], shrink=unit.get('tier') == 'thorough')
