"""C10  Bounds enforcement keeps Newton updates inside bounds and along the step.

Domain : one group holding an implicit component with 1-3 outputs (total size 1-6) whose residual is
         R_i(u) = a_i * [ (u_i - c_i - d_i) + q_i * s_i * (1 - cos((u_i - c_i)/s_i)) ],   c = u0, d = drawn Newton step,
         so that R'(u0) = diag(a) and the Newton step from u0 is exactly the drawn vector d (q = 0: linear residual).
         Per-element bound patterns {none, lower, upper, both} (scalar / array lower and upper), u0 inside or exactly on the
         bounds, ref / ref0 scalar or array incl. ref < ref0, negative ref and mixed signs per element, line search in
         {default, BoundsEnforceLS, ArmijoGoldsteinLS(alpha, rho, c, maxiter, method)} x bound_enforcement.
Oracle : validity predicate in PHYSICAL units on every observed Newton update u_k -> u_{k+1} (see ASSUMPTIONS).
"""
import hashlib

import numpy as np

from vfw import core
from vfw.core import Result

ID = 'C10'
LEVEL = 'exploration'
TECHNIQUE = ('Hypothesis-generated bounded/scaled implicit components with a drawn Newton step; validity predicate '
             '(in bounds, along the step, not beyond alpha*step, common factor for vector enforcement) on every update')
RULE = ("case = implicit component (1-3 outputs, total size 1-6, 1-D or 2-D shapes) with diagonal residual whose Newton step "
        "from u0 is a drawn vector; per element bound pattern none/lower/upper/both given as scalar or array lower/upper "
        "(missing array entries are -inf/+inf) through add_output or set_output_solver_options; u0 inside or exactly on a "
        "bound; step sized relative to the distance to the bound (0, tiny, inside, exactly onto, beyond); ref/ref0 default, "
        "scalar or array with ref-ref0 of either sign; Newton on the group or on the component, optional unbounded sibling "
        "outputs in front; line search default | BoundsEnforceLS | ArmijoGoldsteinLS with drawn alpha/rho/c/maxiter/method x "
        "bound_enforcement vector|scalar|wall; Newton maxiter=1 (tier 1) or 2-4 with a mildly nonlinear residual (tier 2). "
        "Non-trivial = the unfiltered update u+alpha*step would leave the bounds on >=1 element, or a bounded element has "
        "ref<ref0. Distinct = distinct canonical JSON.")
ASSUMPTIONS = [
    "the Newton step at an iterate p is -R(p)/R'(p) evaluated by the harness from its own residual formula (diagonal "
    "Jacobian, |R'| >= 0.5|a|), OpenMDAO solves the same system with DirectSolver",
    "iterates are observed in physical units as the outputs handed to the component's linearize() (one call per Newton "
    "iteration) plus get_val after the run; no repository hook",
    "eps_i = 1e-12 * max(|p_i|, max(alpha,1)*|step_i|, |lower_i|, |upper_i|, |ref_i|, |ref0_i|, tiny); all clauses are "
    "elementwise with eps_i; the common factor t of 'vector' enforcement is read from the element with the best "
    "conditioned quotient and compared with eps_i + |step_i| * eps_j/|step_j|",
    "an iteration is judged only if its start point is inside the bounds within eps (guaranteed for the first; later ones "
    "follow from the previous verdict); for 'vector' enforcement a start point that is outside by round-off delta widens "
    "the direction tolerance by |step_j| * max_i(delta_i/|step_i|) (bringing i back needs a negative common factor)",
    "alpha > 0 (alpha = 0 means no step and divides by zero by construction); ref != ref0 elementwise; res_ref None or a "
    "positive scalar",
    "'not beyond the full step' is read as |u - u0| <= alpha*|step| with alpha the line search's initial step option "
    "(1 for BoundsEnforceLS)",
]
BOUND = {'quick': '4 shards x 2000 cases (3/4 single update, 1/4 2-4 Newton iterations)',
         'thorough': '16 shards x 12000 cases (with Hypothesis shrinking of unlisted signatures)'}
MIN_CLASS_FRACTION = {'judged': 0.99, 'clip_needed': 0.3, 'neg_scaling_bounded': 0.08, 'be_vector': 0.2, 'ls_AG': 0.3,
                      'start_on_bound': 0.2, 'multi_iter': 0.1}
UNIT_TIMEOUT = {'quick': 1500, 'thorough': 4 * 3600}

TINY = 1e-300


# ---------------------------------------------------------------------------------------------
# case decoding
# ---------------------------------------------------------------------------------------------

def _per_elem(spec, n, none_val):
    """scalar | list (None entries = no bound) | None  ->  float array of length n."""
    if spec is None:
        return np.full(n, none_val)
    if isinstance(spec, list):
        return np.array([none_val if v is None else float(v) for v in spec], dtype=float)
    return np.full(n, float(spec))


def layout(case):
    """Flat per-element arrays lo, hi, ref, ref0 and the variable slices."""
    lo, hi, ref, ref0, sl = [], [], [], [], []
    off = 0
    for v in case['vars']:
        n = int(np.prod(v['shape']))
        lo.append(_per_elem(v.get('lower'), n, -np.inf))
        hi.append(_per_elem(v.get('upper'), n, np.inf))
        ref.append(_per_elem(v.get('ref'), n, 1.0))
        ref0.append(_per_elem(v.get('ref0'), n, 0.0))
        sl.append((off, off + n))
        off += n
    return (np.concatenate(lo), np.concatenate(hi), np.concatenate(ref), np.concatenate(ref0), sl)


def _arg(spec, shape, none_val):
    """Value handed to add_output: None, float, or ndarray of the variable's shape."""
    if spec is None:
        return None
    if isinstance(spec, list):
        return np.array([none_val if v is None else float(v) for v in spec], dtype=float).reshape(shape)
    return float(spec)


def neg_scaled_bounded(case):
    """Per element: belongs to a variable that declares lower or upper (entries may be infinite) and has ref - ref0 < 0."""
    lo, hi, ref, ref0, sl = layout(case)
    declared = np.zeros(lo.size, dtype=bool)
    for v, (i0, i1) in zip(case['vars'], sl):
        declared[i0:i1] = v.get('lower') is not None or v.get('upper') is not None
    return declared & ((ref - ref0) < 0)


def known_f2(case):
    """F2: an element of an output that declares lower/upper whose scaling has ref < ref0 (ref - ref0 < 0): the scaled
    bound arrays of the line search are not swapped (an infinite entry even turns into a bound of the opposite sign)."""
    return bool(np.any(neg_scaled_bounded(case)))


# ---------------------------------------------------------------------------------------------
# model
# ---------------------------------------------------------------------------------------------

def _resid_terms(case):
    c = np.array(case['u0'], dtype=float)
    d = np.array(case['du'], dtype=float)
    a = np.array(case['a'], dtype=float)
    q = np.array(case['q'], dtype=float)
    s = np.where(np.abs(d) > 1e-100, np.abs(d), 1.0)
    return c, d, a, q, s


def resid(case, u):
    c, d, a, q, s = _resid_terms(case)
    return a * ((u - c - d) + q * s * (1.0 - np.cos((u - c) / s)))


def dresid(case, u):
    c, d, a, q, s = _resid_terms(case)
    return a * (1.0 + q * np.sin((u - c) / s))


def build(case, trace):
    import openmdao.api as om
    lo, hi, ref, ref0, sl = layout(case)
    c, d, a, q, s = _resid_terms(case)
    via_sso = case.get('via') == 'sso'

    def solver_kwargs(v):
        shape = tuple(v['shape'])
        kw = {}
        if v.get('lower') is not None:
            kw['lower'] = _arg(v['lower'], shape, -np.inf)
        if v.get('upper') is not None:
            kw['upper'] = _arg(v['upper'], shape, np.inf)
        if v.get('ref') is not None:
            kw['ref'] = _arg(v['ref'], shape, 1.0)
        if v.get('ref0') is not None:
            kw['ref0'] = _arg(v['ref0'], shape, 0.0)
        if v.get('res_ref') is not None:
            kw['res_ref'] = float(v['res_ref'])
        return kw

    class Imp(om.ImplicitComponent):
        def setup(self):
            for k, v in enumerate(case['vars']):
                shape = tuple(v['shape'])
                i0, i1 = sl[k]
                kw = {} if via_sso else solver_kwargs(v)
                self.add_output(f"u{k}", val=c[i0:i1].reshape(shape), **kw)
                n = i1 - i0
                self.declare_partials(f"u{k}", f"u{k}", rows=np.arange(n), cols=np.arange(n))

        def _flat(self, outputs):
            return np.concatenate([np.asarray(outputs[f"u{k}"], dtype=float).ravel() for k in range(len(sl))])

        def apply_nonlinear(self, inputs, outputs, residuals):
            r = resid(case, self._flat(outputs))
            for k, (i0, i1) in enumerate(sl):
                residuals[f"u{k}"] = r[i0:i1].reshape(case['vars'][k]['shape'])

        def linearize(self, inputs, outputs, partials):
            u = self._flat(outputs)
            trace.append(u.copy())
            g = dresid(case, u)
            for k, (i0, i1) in enumerate(sl):
                partials[f"u{k}", f"u{k}"] = g[i0:i1]

    p = om.Problem(reports=False)
    npre = int(case.get('pre', 0))
    if npre:
        ivc = p.model.add_subsystem('a_iv', om.IndepVarComp())
        for j in range(npre):
            ivc.add_output(f"x{j}", val=np.full(j + 1, 3.0 + j))
    comp = p.model.add_subsystem('c', Imp())
    if via_sso:
        for k, v in enumerate(case['vars']):
            kw = solver_kwargs(v)
            if kw:
                (p.model if k % 2 == 0 else comp).set_output_solver_options(f"c.u{k}" if k % 2 == 0 else f"u{k}", **kw)

    owner = comp if case.get('where') == 'comp' else p.model
    newton = owner.nonlinear_solver = om.NewtonSolver(solve_subsystems=False)
    newton.options['maxiter'] = int(case['newton_maxiter'])
    newton.options['atol'] = 1e-300
    newton.options['rtol'] = 1e-300
    newton.options['iprint'] = -1
    newton.options['err_on_non_converge'] = False
    owner.linear_solver = om.DirectSolver()

    ls = case['ls']
    if ls == 'BoundsEnforceLS':
        newton.linesearch = om.BoundsEnforceLS(bound_enforcement=case['be'])
    elif ls == 'ArmijoGoldsteinLS':
        ag = case['ag']
        newton.linesearch = om.ArmijoGoldsteinLS(bound_enforcement=case['be'], alpha=float(ag['alpha']),
                                                 rho=float(ag['rho']), c=float(ag['c']), maxiter=int(ag['maxiter']),
                                                 method=ag['method'])
    # 'default': whatever NewtonSolver installs by itself (documented: BoundsEnforceLS, bound_enforcement='scalar')
    if newton.linesearch is not None:
        newton.linesearch.options['iprint'] = -1
        if case.get('print_be'):
            newton.linesearch.options['print_bound_enforce'] = True
    return p


def effective_be(case):
    return 'scalar' if case['ls'] == 'default' else case['be']


# ---------------------------------------------------------------------------------------------
# oracle
# ---------------------------------------------------------------------------------------------

class _F(np.ndarray):
    """float array whose items print as plain Python floats in the violation details."""

    def __new__(cls, a):
        return np.asarray(a, dtype=float).view(cls)

    def __getitem__(self, i):
        v = np.ndarray.__getitem__(self, i)
        return float(v) if np.ndim(v) == 0 else v


def known_vector_roundoff(p0, step, alpha, lo, hi, eps, mag):
    """VR: 'vector' enforcement while some element sits on one of its bounds (within eps) and its Newton step points
    out of the bound with a small non-zero magnitude (alpha*|step| <= 1e-3 * magnitude of the element; a step of
    round-off size counts in either direction): the rounding error of u + alpha*step, divided by |step|, makes the
    required pull-back exceed alpha."""
    noise = np.abs(step) <= eps          # a step of round-off size (e.g. a converged element whose scaled value does
    #                                      not survive the scaled -> physical -> scaled round trip exactly), either sign
    out_hi = ((step > 0) | noise) & (hi - p0 <= eps)
    out_lo = ((step < 0) | noise) & (p0 - lo <= eps)
    small = (alpha * np.abs(step) <= 1e-3 * mag) & (step != 0)
    return bool(np.any((out_hi | out_lo) & small))


def judge_update(case, p0, p1, step, alpha, lo, hi, ref, ref0, be, negsc, res, tag):
    """Validity of one filtered update p0 -> p1 for Newton step `step`.  Returns True when a clause failed."""
    n = p0.size
    bl = np.where(np.isfinite(lo), np.abs(lo), 0.0)
    bh = np.where(np.isfinite(hi), np.abs(hi), 0.0)
    mag = np.maximum.reduce([np.abs(p0), max(alpha, 1.0) * np.abs(step), bl, bh, np.abs(ref), np.abs(ref0),
                             np.full(n, TINY)])
    eps = 1e-12 * mag
    delta = p1 - p0
    p0, p1, step, delta, lo, hi, ref, ref0 = [_F(x) for x in (p0, p1, step, delta, lo, hi, ref, ref0)]
    f2case = bool(np.any(negsc))
    failed = False

    def sig(i, name):
        # F2 is a predicate over the input: a bounded element with ref<ref0.  With scalar / wall enforcement the
        # elements are filtered independently, so only the affected elements are attributed to it; with vector
        # enforcement one such element steers the common factor of every element.
        if f2case and (be == 'vector' or i is None or negsc[i]):
            return f"F2-bounded-output-with-ref-lt-ref0:{name}"
        if vr:
            return f"VR-vector-on-bound-small-outward-step:{name}"
        return f"linesearch:{name}"

    vr = be == 'vector' and known_vector_roundoff(p0, step, alpha, lo, hi, eps, mag)

    # the start point was inside the bounds (within eps): excess outside, used for the 'vector' allowance below
    exc0 = np.maximum(np.maximum(lo - p0, p0 - hi), 0.0)

    # allowance for vector enforcement when the start is outside by round-off
    amp = 0.0
    if be == 'vector':
        m = (exc0 > 0) & (step != 0)
        if np.any(m):
            amp = float(np.max(exc0[m] / np.abs(step[m])))
    dir_tol = eps + exc0 + np.abs(step) * amp

    # 1. inside the bounds
    bad = (p1 < lo - dir_tol) | (p1 > hi + dir_tol)
    for i in np.flatnonzero(bad)[:1]:
        res.fail(sig(i, 'leaves-bounds'), f"{tag} elem {i}: u={p1[i]!r} outside [{lo[i]!r}, {hi[i]!r}] (eps {eps[i]:.2e}); "
                 f"start {p0[i]!r} step {step[i]!r} alpha {alpha} ref {ref[i]!r} ref0 {ref0[i]!r}")
        failed = True

    # 2. never opposite to the Newton step
    sgn = np.sign(step)
    bad = delta * sgn < -dir_tol
    for i in np.flatnonzero(bad)[:1]:
        res.fail(sig(i, 'moves-opposite-to-step'), f"{tag} elem {i}: start {p0[i]!r} step {step[i]!r} moved {delta[i]!r} "
                 f"(tol {dir_tol[i]:.2e}) be={be}")
        failed = True

    # 3. never beyond the full (alpha) step
    bad = np.abs(delta) > alpha * np.abs(step) + dir_tol
    for i in np.flatnonzero(bad)[:1]:
        res.fail(sig(i, 'moves-beyond-full-step'), f"{tag} elem {i}: start {p0[i]!r} step {step[i]!r} alpha {alpha} moved "
                 f"{delta[i]!r} (tol {dir_tol[i]:.2e}) be={be}")
        failed = True

    # 4. vector enforcement: one common factor in [0, alpha]
    if be == 'vector' and np.any(step != 0):
        with np.errstate(divide='ignore'):
            qual = np.where(step != 0, np.abs(step) / eps, 0.0)
        j = int(np.argmax(qual))
        t = delta[j] / step[j]
        terr = eps[j] / abs(step[j])
        tol = eps + np.abs(step) * terr
        bad = np.abs(delta - t * step) > tol
        for i in np.flatnonzero(bad)[:1]:
            res.fail(sig(None, 'vector-update-not-a-common-multiple'), f"{tag} elem {i}: moved {delta[i]!r} but t*step = "
                     f"{t * step[i]!r} (t={t!r} from elem {j}, tol {tol[i]:.2e})")
            failed = True
        if not (-(terr + amp) <= t <= alpha + terr + amp):
            res.fail(sig(None, 'vector-common-factor-outside-0-alpha'), f"{tag}: t={t!r} from elem {j} (delta {delta[j]!r} / "
                     f"step {step[j]!r}), alpha {alpha}, tol {terr + amp:.2e}")
            failed = True
    return failed


def check(case):
    res = Result()
    lo, hi, ref, ref0, sl = layout(case)
    u0 = np.array(case['u0'], dtype=float)
    du = np.array(case['du'], dtype=float)
    n = u0.size
    be = effective_be(case)
    ls = case['ls']
    alpha = float(case['ag']['alpha']) if ls == 'ArmijoGoldsteinLS' else 1.0
    negsc = neg_scaled_bounded(case)
    K = int(case['newton_maxiter'])

    # generator contract (harness side): start inside the bounds, scaling non-degenerate
    if np.any(u0 < lo) or np.any(u0 > hi) or np.any(ref == ref0) or not alpha > 0:
        raise ValueError('generator produced an invalid case')

    bounded = np.isfinite(lo) | np.isfinite(hi)
    full = u0 + alpha * du
    clip = bool(np.any((full < lo) | (full > hi)))
    on_bound = bool(np.any((u0 == lo) | (u0 == hi)))
    cls = [f"ls_{'AG' if ls == 'ArmijoGoldsteinLS' else ('BE' if ls == 'BoundsEnforceLS' else 'default')}", f"be_{be}",
           'multi_iter' if K > 1 else 'single_iter', f"where_{case.get('where', 'group')}"]
    if clip:
        cls.append('clip_needed')
    if on_bound:
        cls.append('start_on_bound')
    if np.any(negsc):
        cls.append('neg_scaling_bounded')
    if np.any(ref < 0):
        cls.append('neg_ref')
    d = ref - ref0
    if np.any(d < 0) and np.any(d > 0):
        cls.append('mixed_sign_scaling')
    if any(isinstance(v.get('lower'), list) or isinstance(v.get('upper'), list) for v in case['vars']):
        cls.append('array_bounds')
    if any(isinstance(v.get(k), list) and any(x is None for x in v[k]) for v in case['vars'] for k in ('lower', 'upper')):
        cls.append('inf_entry_in_bound_array')
    if any(isinstance(v.get('ref'), list) or isinstance(v.get('ref0'), list) for v in case['vars']):
        cls.append('array_ref')
    if case.get('via') == 'sso':
        cls.append('via_sso')
    if any(len(v['shape']) > 1 for v in case['vars']):
        cls.append('shape_2d')
    if ls == 'ArmijoGoldsteinLS' and alpha != 1.0:
        cls.append('alpha_gt_1' if alpha > 1 else 'alpha_lt_1')
    if np.any(np.array(case['q']) != 0):
        cls.append('nonlinear_resid')
    if not np.any(bounded):
        cls.append('no_bounds')
    res.classes = cls
    pre = 'F2-bounded-output-with-ref-lt-ref0:' if known_f2(case) else 'linesearch:'

    trace = []
    try:
        p = build(case, trace)
        p.setup()
        p.final_setup()
        p.run_model()
        final = np.concatenate([np.asarray(p.get_val(f"c.u{k}"), dtype=float).ravel() for k in range(len(sl))])
    except Exception as e:
        sg = core.repo_frame_signature(e, 'exc')
        if sg is None:
            raise
        res.fail(pre + sg, f"{type(e).__name__}: {e}")
        res.classes.append('judged')
        return res

    seq = trace + [final]
    if len(seq) - 1 > K:
        raise RuntimeError(f"observed {len(seq) - 1} linearizations with maxiter={K}")
    if not np.all(np.isfinite(final)):
        res.fail(pre + 'non-finite-output', f"final outputs {final.tolist()}")
        res.classes.append('judged')
        return res
    # the first linearization point is the start point (scaling round trip only)
    if trace:
        m0 = np.maximum.reduce([np.abs(u0), np.abs(ref), np.abs(ref0), np.full(n, TINY)])
        if np.any(np.abs(trace[0] - u0) > 1e-13 * m0):
            raise RuntimeError(f"first linearization point {trace[0].tolist()} is not u0 {u0.tolist()}")
    elif np.any(np.abs(resid(case, u0)) > np.abs(np.array(case['a'])) * 1e-12 * np.maximum.reduce(
            [np.abs(u0), np.abs(ref), np.abs(ref0), np.full(n, TINY)]) + 1e-100):
        # (residual entries below 1e-100 underflow in the 2-norm; a step of round-off size can vanish in the scaling round
        #  trip of u0: in both cases Newton rightly does not iterate)
        raise RuntimeError('no Newton iteration observed although the residual is non-zero')

    res.classes.append('judged')
    res.nontrivial = clip or bool(np.any(negsc))
    nupd = 0
    for k in range(len(seq) - 1):
        p0 = u0 if k == 0 else seq[k]
        p1 = seq[k + 1]
        # Newton step at the point the component was linearized at (for k = 0 this is u0 after OpenMDAO's scaling round
        # trip, so the step is the drawn du up to round-off; the round-off matters for the VR predicate)
        step = -resid(case, seq[k]) / dresid(case, seq[k])
        if k == 0:
            m0 = np.maximum.reduce([np.abs(u0), np.abs(du), np.abs(ref), np.abs(ref0), np.full(n, TINY)])
            if np.any(np.abs(step - du) > 1e-13 * m0):
                raise RuntimeError(f"Newton step at the first linearization point {step.tolist()} is not du {du.tolist()}")
        nupd += 1
        if judge_update(case, p0, p1, step, alpha, lo, hi, ref, ref0, be, negsc, res, f"update {k + 1}/{len(seq) - 1}"):
            break       # later iterations no longer start from a valid point
        if k == 0 and ls == 'ArmijoGoldsteinLS':
            # evidence only: did the line search contract the step after the bounds were enforced?
            d1 = p1 - p0
            if be == 'vector':
                with np.errstate(divide='ignore', invalid='ignore'):
                    room = np.where(step > 0, (hi - p0) / step, np.where(step < 0, (lo - p0) / step, np.inf))
                tmax = max(0.0, min(alpha, float(np.min(room))))
                ideal = tmax * step
            else:
                ideal = np.clip(p0 + alpha * step, lo, hi) - p0
            m = np.maximum(np.abs(p0), np.abs(ideal)) + TINY
            if np.any(np.abs(d1) < np.abs(ideal) - 1e-9 * m):
                res.classes.append('ag_backtracked')
        if k > 0:
            f = p0 + alpha * step
            if np.any((f < lo) | (f > hi)):
                res.classes.append('clip_needed_later_iter')
    if nupd > 1:
        res.classes.append('judged_2plus_updates')
    return res


# ---------------------------------------------------------------------------------------------
# generator
# ---------------------------------------------------------------------------------------------

def strategy(tier):
    from hypothesis import strategies as st

    def fl(a, b):
        return st.floats(a, b, allow_nan=False, allow_infinity=False, width=64)

    NICE = [0.0, 1.0, -1.0, 2.0, 0.5, -3.0, 10.0, 0.3, -0.7]
    WIDTH = [1.0, 0.5, 10.0, 1e-3]
    DMAG = [1.0, 2.0, 0.5, 10.0, 0.01, 100.0, 1e-3, 1e4, 3.0, 0.7]
    FACTOR = [0.0, 1e-12, 1e-6, 0.3, 0.5, 0.9, 0.999999, 1.0, 1.0, 1.0000001, 1.5, 2.0, 3.0, 7.0, 1e3]
    FREEMAG = [0.0, 1e-18, 1e-13, 1e-9, 1e-3, 0.5, 1.0, 1.0, 2.0, 10.0, 1e3]
    pool_st = st.integers(0, 2 ** 60 - 1)

    @st.composite
    def case(draw):
        # all discrete choices come out of Hypothesis-drawn 60-bit integers (far fewer draw calls than one per choice)
        # scrambled with sha256 because Hypothesis favours small integers, which would bias every choice to index 0)
        pool = [0, 1, 0]          # [remaining value, remaining range, refills]

        def below(k):
            if pool[1] < k * 1024:
                pool[2] += 1
                x = draw(pool_st)
                pool[0] = int.from_bytes(hashlib.sha256(f"{x}:{pool[2]}".encode()).digest()[:8], 'big') >> 4
                pool[1] = 2 ** 60
            pool[0], r = divmod(pool[0], k)
            pool[1] //= k
            return r

        def pick(seq):
            return seq[below(len(seq))]

        def nice():
            k = below(4)
            if k == 0:
                return pick(NICE)
            if k == 1:
                return round(draw(fl(-10, 10)), 2)
            return draw(fl(-10, 10)) if k == 2 else draw(fl(-1000, 1000))

        def width():
            k = below(3)
            if k == 0:
                return pick(WIDTH)
            return round(draw(fl(1e-3, 10)), 3) if k == 1 else draw(fl(1e-6, 100))

        def dmag():
            return pick(DMAG) if below(3) else draw(fl(0.01, 100))

        multi = below(4) == 0
        nvars = pick([1, 1, 2, 2, 3])
        sizes = []
        for k in range(nvars):
            room = 6 - sum(sizes) - (nvars - k - 1)
            sizes.append(1 + below(max(1, min(4, room))))
        ls = pick(['default', 'BoundsEnforceLS', 'BoundsEnforceLS', 'ArmijoGoldsteinLS', 'ArmijoGoldsteinLS',
                   'ArmijoGoldsteinLS'])
        be = pick(['vector', 'scalar', 'wall'])
        ag = None
        alpha = 1.0
        if ls == 'ArmijoGoldsteinLS':
            k = below(3)
            alpha = 1.0 if k == 0 else (pick([0.5, 2.0, 1.5, 0.1]) if k == 1 else draw(fl(0.05, 2.0)))
            k = below(3)
            rho = 0.5 if k == 0 else (pick([0.0, 1.0, 0.5, 0.1, 0.9]) if k == 1 else draw(fl(0.05, 0.95)))
            cc = pick([0.1, 0.0, 1.0, 0.5, 0.9]) if below(2) else draw(fl(0.0, 1.0))
            ag = {'alpha': alpha, 'rho': rho, 'c': cc, 'maxiter': pick([0, 1, 2, 2, 3, 5, 5, 8]),
                  'method': pick(['Armijo', 'Armijo', 'Goldstein'])}
        u0, du, a, q, vars_ = [], [], [], [], []
        negprob = pick([0, 0, 0, 1, 2])        # how often ref - ref0 is negative (0: never)
        for nk in sizes:
            if nk == 4 and below(4) == 0:
                shape = [2, 2]
            elif below(8) == 0:
                shape = pick([[1, nk], [nk, 1]])
            else:
                shape = [nk]
            lform = pick(['none', 'scalar', 'scalar', 'array', 'array'])
            uform = pick(['none', 'scalar', 'scalar', 'array', 'array'])
            base = [nice() for _ in range(nk)]
            wid = [width() if below(20) else 0.0 for _ in range(nk)]
            # lower
            if lform == 'none':
                lo = [None] * nk
                lower = None
            elif lform == 'scalar':
                lower = nice()
                lo = [lower] * nk
            else:
                lo = [base[i] if below(4) else None for i in range(nk)]
                lower = list(lo)
            # upper (never below lower)
            if uform == 'none':
                hi = [None] * nk
                upper = None
            elif uform == 'scalar':
                fin = [x for x in lo if x is not None]
                upper = (max(fin) if fin else base[0]) + wid[0]
                hi = [upper] * nk
            else:
                hi = [((lo[i] if lo[i] is not None else base[i]) + wid[i]) if below(4) else None for i in range(nk)]
                upper = list(hi)
            # scaling: d = ref - ref0 per element
            rform = pick(['default', 'scalar', 'scalar', 'array'])
            r0form = pick(['default', 'default', 'scalar', 'array'])
            ref = ref0 = None
            if not (rform == 'default' and r0form == 'default'):
                per_elem = 'array' in (rform, r0form)

                def one_d():
                    m = dmag()
                    return -m if (negprob and below(4) < negprob) else m
                ds = [one_d() for _ in range(nk)] if per_elem else [one_d()] * nk
                if rform == 'default':
                    ref0 = [1.0 - x for x in ds] if r0form == 'array' else 1.0 - ds[0]
                elif r0form == 'default':
                    ref = list(ds) if rform == 'array' else ds[0]
                else:
                    anchor = nice() if below(3) else pick([1000.0, -250.0])
                    if rform == 'scalar' and r0form == 'scalar':
                        ref0 = anchor
                        ref = anchor + ds[0]
                    elif rform == 'scalar':           # ref scalar, ref0 array
                        ref = anchor
                        ref0 = [anchor - x for x in ds]
                    elif r0form == 'scalar':          # ref array, ref0 scalar
                        ref0 = anchor
                        ref = [anchor + x for x in ds]
                    else:
                        ref0 = [anchor + 0.25 * i for i in range(nk)]
                        ref = [ref0[i] + ds[i] for i in range(nk)]
                # degenerate draws (ref == ref0 after rounding) are repaired, not filtered
                if np.any(_per_elem(ref, nk, 1.0) == _per_elem(ref0, nk, 0.0)):
                    ref, ref0 = 2.0, None
            var = {'shape': shape}
            if lower is not None:
                var['lower'] = lower
            if upper is not None:
                var['upper'] = upper
            if ref is not None:
                var['ref'] = ref
            if ref0 is not None:
                var['ref0'] = ref0
            if below(10) == 0:
                var['res_ref'] = pick([0.01, 1.0, 100.0, 3.0])
            vars_.append(var)
            # start point and step per element
            for i in range(nk):
                l, h = lo[i], hi[i]
                mode = pick(['lo', 'hi', 'frac', 'frac', 'near'])
                if l is not None and h is not None:
                    if mode == 'lo':
                        x = l
                    elif mode == 'hi':
                        x = h
                    else:
                        f = draw(fl(0, 1)) if mode == 'frac' else pick([1e-15, 1e-9, 1 - 1e-9])
                        x = min(max(l + f * (h - l), l), h)
                elif l is not None:
                    x = l if mode in ('lo', 'hi') else l + abs(nice()) * (1e-9 if mode == 'near' else 1.0)
                elif h is not None:
                    x = h if mode in ('lo', 'hi') else h - abs(nice()) * (1e-9 if mode == 'near' else 1.0)
                else:
                    x = base[i]
                u0.append(float(x))
                sgn = pick([1.0, -1.0])
                dist = None
                if sgn > 0 and h is not None:
                    dist = h - x
                if sgn < 0 and l is not None:
                    dist = x - l
                if dist is not None and dist > 0 and below(6):
                    step = sgn * dist * pick(FACTOR) / alpha
                else:
                    step = sgn * (pick(FREEMAG) if below(3) else draw(fl(0, 20)))
                du.append(float(step) if abs(step) >= 1e-30 else 0.0)
                a.append(pick([1.0, 1.0, -1.0, 0.5, 2.0, -4.0, 8.0]))
                q.append(pick([0.0, 0.5, -0.5, 0.25, -0.3, 0.45]) if (multi or below(4) == 0) else 0.0)
        c = {'vars': vars_, 'u0': u0, 'du': du, 'a': a, 'q': q, 'ls': ls, 'be': be,
             'newton_maxiter': 2 + below(3) if multi else 1,
             'where': pick(['group', 'group', 'group', 'comp']),
             'pre': pick([0, 0, 1, 2]),
             'via': pick(['add_output'] * 6 + ['sso'])}
        if ag is not None:
            c['ag'] = ag
        if below(12) == 0:
            c['print_be'] = True
        return c

    return case()


def units(tier, seed):
    nshards = 4 if tier == 'quick' else 16
    per = 2000 if tier == 'quick' else 12000
    return [{'kind': 'random', 'n': per, 'seed': core.shard_seed(seed, ID, i)} for i in range(nshards)]


def run_unit(unit, ctx):
    core.run_hypothesis(ctx, strategy(unit.get('tier')), check, unit['n'], unit['seed'],
                        shrink=unit.get('tier') == 'thorough')
