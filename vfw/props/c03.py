"""C03  Simultaneous-derivative coloring reconstructs every Jacobian entry.

Level 1 (algorithm)  : boolean sparsity patterns (exhaustive for rows, cols <= 4 ; structured random up to 40x40)
                       x mode {fwd, rev, auto} x {direct, substitution} x input type {ndarray, coo row-major,
                       coo column-major}.  Oracle: a matrix A with exactly that pattern is pushed through the
                       compressed products the framework would compute per color, scattered back exactly the way
                       _TotalJacInfo.simul_coloring_jac_setter / compute_totals do, and must come back as A.
Level 2 (framework)  : generated OpenMDAO models with sparse totals (closed-form Jacobian), driver scaling and units
                       on desvars/responses: declare_coloring totals == uncolored totals == closed form; component
                       declare_coloring with fd/cs partials and ExecComp's built-in coloring: colored == uncolored
                       == closed form.
"""
import math
import random

import numpy as np

from vfw import core
from vfw.core import Result

ID = 'C03'
LEVEL = 'exploration'
TECHNIQUE = ('exhaustive enumeration of boolean sparsity patterns up to 4x4 + Hypothesis structured patterns up to '
             '40x40 with a reconstruction oracle that replays the framework scatter; generated sparse OpenMDAO '
             'models with colored vs uncolored vs closed-form Jacobians')
RULE = ("Level 1 case = (pattern, value key, mode in {fwd,rev,auto}, direct flag, input type). Patterns: every boolean "
        "matrix with rows, cols <= 3 in both tiers; 4xk / kx4 (k<=3): a seed-dependent half (quick) or all 8736 "
        "(thorough); 4x4: a seed-dependent sample of 12000 of the 65536 patterns (quick) or all of them (thorough); "
        "each pattern under the 6 (mode, direct) configurations with the input type rotating; plus Hypothesis-drawn structured patterns up "
        "to 40x40 (banded, block diagonal, arrow, diagonal + dense rows/cols, Bernoulli(p), with emptied rows/cols). "
        "The matrix A has exactly the pattern, |entries| in [1,2] with pairwise distinct magnitudes and "
        "pseudo-random signs (pure function of the case). Level 2 case = JSON model spec: one or two chained sparse "
        "components y = A x + C sin(x) with declared sparse/dense partials, several vector desvars/responses with "
        "indices, scaler/adder or ref/ref0 (scalar or per element) and units, mode, direct flag, driver_scaling; or "
        "a single component with fd/cs approximated partials + declare_coloring; or an ExecComp built from "
        "registered sparse matrix functions (built-in coloring). Non-trivial = the coloring that was actually used "
        "needs fewer solves than the uncolored computation, or is bidirectional with >= 1 subtraction (level 2: and "
        "the coloring was active). Distinct = distinct canonical JSON of the case.")
ASSUMPTIONS = [
    "the compressed product of a color is A @ (sum of unit vectors of the color) (fwd) or its transpose analogue "
    "(rev): that is what one linear solve with the colour's seed returns for an explicit model",
    "the scatter is replayed from the source of _TotalJacInfo.simul_coloring_jac_setter and compute_totals "
    "(J[rowmap[i], i] = reduced[rowmap[i]] per color member, fwd colors before rev colors, then "
    "Coloring._apply_subtractions); a change of that consumer is covered by level 2, not level 1",
    "reconstruction must be bitwise exact whenever the coloring carries no subtractions; with subtractions the "
    "tolerance is 1e-12 * max(1, max |compressed entry|) (sums of <= 40 terms of magnitude <= 2)",
    "'never more solves than uncolored' is read as total_solves <= ncols (fwd), <= nrows (rev), <= min(nrows, ncols) "
    "(auto); a requested fwd (rev) coloring must not contain rev (fwd) colors",
    "level 2: every structurally nonzero Jacobian entry has magnitude >= 0.5 (|A|>=1.5, |C|<=1), so the documented "
    "tolerance-based sparsity detection cannot legitimately miss an entry; np.random and "
    "openmdao.utils.array_utils._randgen are seeded from the case because OpenMDAO draws sparsity perturbations "
    "from them",
    "level 2 unit factors come from an own table (m->cm 100, mm 1000, km 1e-3, ft 1/0.3048, inch 1/0.0254; "
    "s->ms 1000, min 1/60, h 1/3600); totals are compared after dividing every entry by its own unit/driver scale "
    "factor, with tolerance 1e-9 * largest closed-form entry in model units; fd partials with "
    "2*step*max|C| + 1e-13*max|y|/step (truncation + round-off of a one-sided difference), cs with 1e-11",
    "level 2 does not use linear constraints, aliases, negative indices, parallel derivatives, approx totals or MPI",
]
EXHAUSTIVE = {'quick': False, 'thorough': False}
BOUND = {'quick': 'all 682 patterns with rows,cols<=3, half of the 4xk/kx4 (k<=3) patterns, 12000 sampled 4x4 patterns, '
                  'each x 6 configs; 4800 random patterns <=40x40; 900 generated models',
         'thorough': 'all 74954 patterns with rows,cols<=4 x 6 configs (exhaustive inside the bound); 200000 random '
                     'patterns; ~12000 generated models'}
MIN_CLASS_FRACTION = {'L1': 0.5, 'L1:bidir': 0.005, 'L1:subtractions': 0.0005,
                      'L2:total': 0.001, 'L2:total:active': 0.0005, 'L2:total:bidir': 0.0003,
                      'L2:total:subtractions': 0.00005, 'L2:partial:active': 0.0002,
                      'L2:exec:active': 0.0001}
UNIT_TIMEOUT = {'quick': 900, 'thorough': 7200}

PHI = 0.6180339887498949
SQ2 = 0.41421356237309515
PLA = 0.7548776662466927


# ---------------------------------------------------------------------------------------------
# pure helpers
# ---------------------------------------------------------------------------------------------

def _frac(x):
    return x - math.floor(x)


def values_for(nz, vk, lo, span, salt=0):
    """Deterministic 'generic' values for the nonzero positions: magnitude lo + span*frac((k+1)*phi + c) (pairwise
    distinct because phi is irrational) and a hashed sign."""
    out = np.empty(len(nz))
    for k, (r, c) in enumerate(nz):
        f = _frac((k + 1) * PHI + vk * SQ2 + salt * PLA)
        h = (r * 73856093) ^ (c * 19349663) ^ ((vk + 1 + salt * 7919) * 83492791)
        sgn = -1.0 if (h >> 5) & 1 else 1.0
        out[k] = sgn * (lo + span * f)
    return out


def case_nz(case, key='nz'):
    nr, nc = case['nr'], case['nc']
    if 'bits' in case and key == 'nz':
        b = int(case['bits'])
        return [(k // nc, k % nc) for k in range(nr * nc) if (b >> k) & 1]
    return sorted({(int(r), int(c)) for r, c in case[key]})


def dense_from(nz, vals, nr, nc):
    A = np.zeros((nr, nc))
    for (r, c), v in zip(nz, vals):
        A[r, c] = v
    return A


def framework_reconstruct(col, A, scale=None):
    """Replay of _TotalJacInfo.compute_totals for a simultaneous coloring `col` on a model whose exact total
    Jacobian is A: one 'solve' per color, scatter as simul_coloring_jac_setter does, then the subtractions.
    `scale` (optional (rowscale, colscale)) is applied where compute_totals applies unit/driver scaling, i.e.
    between the scatter and the subtractions: it is only used to recognise the known defect."""
    nr, nc = A.shape
    J = np.zeros((nr, nc))
    cmax = 0.0
    for mode in col.modes():
        row_col_map = col.get_row_col_map(mode)
        fwd = mode == 'fwd'
        for ilist in col.color_iter(mode):
            seed = np.zeros(nc if fwd else nr)
            seed[ilist] = 1.0
            reduced = A.dot(seed) if fwd else A.T.dot(seed)
            if reduced.size:
                cmax = max(cmax, float(np.max(np.abs(reduced))))
            if fwd:
                for i in ilist:
                    row = row_col_map[i]
                    J[row, i] = reduced[row]
            else:
                for i in ilist:
                    c = row_col_map[i]
                    J[i, c] = reduced[c]
    if scale is not None:
        J *= scale[0][:, None]
        J /= scale[1][None, :]
    if col._subtractions:
        col._apply_subtractions(J)
    return J, cmax


# ---------------------------------------------------------------------------------------------
# level 1 oracle
# ---------------------------------------------------------------------------------------------

def coloring_validity(col, nz, nr, nc, mode, res, sig='L1'):
    """Validity predicates of the property statement. Returns (n_solves, bidirectional, n_subtractions)."""
    modes = tuple(col.modes())
    if mode == 'fwd' and 'rev' in modes:
        res.fail(f'{sig}:fwd-coloring-has-rev-colors', repr(modes))
    if mode == 'rev' and 'fwd' in modes:
        res.fail(f'{sig}:rev-coloring-has-fwd-colors', repr(modes))
    cover = {}
    for d in modes:
        n = nc if d == 'fwd' else nr
        groups = [list(g) for g in col.color_iter(d)]
        rcmap = col.get_row_col_map(d)
        seen = {}
        for gi, g in enumerate(groups):
            if len(g) == 0:
                res.fail(f'{sig}:empty-color-group', f"{d} group {gi}")
            for i in g:
                i = int(i)
                if not (0 <= i < n):
                    res.fail(f'{sig}:color-index-out-of-range', f"{d} index {i} not in [0,{n})")
                    continue
                if i in seen:
                    res.fail(f'{sig}:index-in-two-colors', f"{d} index {i} in colors {seen[i]} and {gi}")
                seen[i] = gi
        if len(rcmap) != n:
            res.fail(f'{sig}:row-col-map-length', f"{d}: len {len(rcmap)} != {n}")
            continue
        for i in seen:
            m = rcmap[i]
            if m is None:
                continue
            for j in np.asarray(m).ravel():
                key = (int(j), i) if d == 'fwd' else (i, int(j))
                cover.setdefault(key, []).append(d)
    nzset = set(nz)
    missing = [p for p in nz if p not in cover]
    if missing:
        res.fail(f'{sig}:nonzero-not-covered-by-any-color', f"positions {missing[:6]} modes={modes}")
    extra = [p for p in cover if p not in nzset]
    if extra:
        res.fail(f'{sig}:color-map-contains-structural-zero', f"positions {sorted(extra)[:6]}")
    nsolves = int(col.total_solves())
    nfw = len(list(col.color_iter('fwd'))) if 'fwd' in modes else 0
    nrv = len(list(col.color_iter('rev'))) if 'rev' in modes else 0
    if nsolves != nfw + nrv:
        res.fail(f'{sig}:total_solves-inconsistent', f"{nsolves} != {nfw}+{nrv}")
    bound = {'fwd': nc, 'rev': nr, 'auto': min(nr, nc)}[mode]
    if nsolves > bound:
        res.fail(f'{sig}:more-solves-than-uncolored', f"mode={mode} solves={nsolves} uncolored={bound}")
    nsub = len(col._subtractions) if col._subtractions else 0
    return nsolves, len(modes) == 2, nsub, bound


def check_pattern(case):
    from scipy.sparse import coo_matrix
    from openmdao.utils.coloring import _compute_coloring
    nr, nc = int(case['nr']), int(case['nc'])
    nz = case_nz(case)
    mode, direct, inp = case['mode'], bool(case['direct']), case['inp']
    vals = values_for(nz, int(case.get('vk', 0)), 1.0, 1.0)
    A = dense_from(nz, vals, nr, nc)
    res = Result(classes=['L1', f'L1:{mode}', 'L1:direct' if direct else 'L1:subst', f'L1:in:{inp}'])
    if max(nr, nc) <= 4:
        res.classes.append('L1:small')
    elif max(nr, nc) <= 12:
        res.classes.append('L1:medium')
    else:
        res.classes.append('L1:large')
    if not nz:
        res.classes.append('L1:empty-pattern')

    if inp == 'dense':
        P = np.zeros((nr, nc), dtype=bool)
        for r, c in nz:
            P[r, c] = True
        Jin = P
    else:
        order = nz if inp == 'coo_rm' else sorted(nz, key=lambda p: (p[1], p[0]))
        rows = np.array([p[0] for p in order], dtype=int)
        cols = np.array([p[1] for p in order], dtype=int)
        Jin = coo_matrix((np.ones(rows.size, dtype=bool), (rows, cols)), shape=(nr, nc))

    try:
        col = _compute_coloring(Jin, mode, direct=direct)
    except Exception as e:
        sig = core.repo_frame_signature(e, 'L1:compute_coloring-raises') or f'L1:compute_coloring-raises:{type(e).__name__}'
        return res.fail(sig, f"{type(e).__name__}: {e}")

    nsolves, bidir, nsub, bound = coloring_validity(col, nz, nr, nc, mode, res)
    if bidir:
        res.classes.append('L1:bidir')
    if nsub:
        res.classes.append('L1:subtractions')
    if col._meta.get('fallback'):
        res.classes.append('L1:auto-fell-back-to-unidirectional')
    if nsolves < bound:
        res.classes.append('L1:saves-solves')
    res.nontrivial = bool(nsolves < bound or (bidir and nsub))

    # reconstruction exactly as the framework scatters
    try:
        J, cmax = framework_reconstruct(col, A)
    except Exception as e:
        return res.fail('L1:framework-scatter-raises', f"{type(e).__name__}: {e}")
    if nsub:
        tol = 1e-12 * max(1.0, cmax)
        err = core.maxerr(J, A)
        if not err <= tol:
            res.fail('L1:substitution-reconstruction-differs', _diffmsg(J, A, tol))
    else:
        if not np.array_equal(J, A):
            res.fail('L1:direct-reconstruction-differs', _diffmsg(J, A, 0.0))

    # the other consumers of a unidirectional coloring (func/jax components): tangent_matrix, _expand_jac,
    # colored_jac_iter
    modes = col.modes()
    if len(modes) == 1:
        d = modes[0]
        try:
            T = col.tangent_matrix(d)
            ncolors = nsolves
            if T.shape != (ncolors, nc if d == 'fwd' else nr):
                res.fail('L1:tangent_matrix-shape', f"{T.shape}")
            else:
                comp = A.dot(T.T) if d == 'fwd' else T.dot(A)
                E = col._expand_jac(comp, d).toarray()
                if not np.array_equal(E, A):
                    res.fail('L1:expand_jac-differs', _diffmsg(E, A, 0.0))
                J2 = np.zeros((nr, nc))
                for v, nzpart, idx in col.colored_jac_iter(comp, d):
                    if d == 'fwd':
                        J2[nzpart, idx] = v
                    else:
                        J2[idx, nzpart] = v
                if not np.array_equal(J2, A):
                    res.fail('L1:colored_jac_iter-differs', _diffmsg(J2, A, 0.0))
        except Exception as e:
            sig = core.repo_frame_signature(e, 'L1:unidirectional-consumer-raises') or 'L1:unidirectional-consumer-raises'
            res.fail(sig, f"{type(e).__name__}: {e}")
    return res


def _diffmsg(J, A, tol):
    J = np.asarray(J, dtype=float)
    A = np.asarray(A, dtype=float)
    if J.shape != A.shape:
        return f"shape {J.shape} vs {A.shape}"
    d = np.abs(J - A)
    k = np.unravel_index(int(np.argmax(d)), d.shape) if d.size else ()
    bad = int(np.count_nonzero(d > tol))
    return (f"{bad} entries differ by more than {tol:.3g}; worst at {tuple(int(i) for i in k)}: got "
            f"{J[k] if d.size else None!r} expected {A[k] if d.size else None!r}")


# ---------------------------------------------------------------------------------------------
# level 2: model pieces
# ---------------------------------------------------------------------------------------------

LEN_UNITS = {None: 1.0, 'm': 1.0, 'cm': 100.0, 'mm': 1000.0, 'km': 1e-3, 'ft': 1.0 / 0.3048, 'inch': 1.0 / 0.0254}
TIME_UNITS = {None: 1.0, 's': 1.0, 'ms': 1000.0, 'min': 1.0 / 60.0, 'h': 1.0 / 3600.0}

_CL = {}
_NSLOTS = 24
_SLOTS = [None] * _NSLOTS


def _classes():
    if _CL:
        return _CL
    import openmdao.api as om

    class SparseComp(om.ExplicitComponent):
        """y = A x + C sin(x) over the concatenated inputs; blocks declared sparse or dense, or approximated."""

        def initialize(self):
            self.options.declare('spec', types=dict, recordable=False)

        def setup(self):
            s = self.options['spec']
            self.A, self.C = s['A'], s['C']
            self.insz, self.outsz = s['insz'], s['outsz']
            self.io = np.concatenate([[0], np.cumsum(self.insz)]).astype(int)
            self.oo = np.concatenate([[0], np.cumsum(self.outsz)]).astype(int)
            for k, n in enumerate(self.insz):
                self.add_input(f"{s['inpre']}{k}", np.zeros(n), units=s.get('in_units'))
            for m, n in enumerate(self.outsz):
                self.add_output(f"{s['outpre']}{m}", np.zeros(n), units=s.get('out_units'))
            self.blocks = {}
            approx = s.get('approx')
            if approx:
                kw = {k: v for k, v in approx.items() if v is not None}
                self.declare_partials('*', '*', **kw)
                return
            P = (self.A != 0) | (self.C != 0)
            for m in range(len(self.outsz)):
                for k in range(len(self.insz)):
                    blk = P[self.oo[m]:self.oo[m + 1], self.io[k]:self.io[k + 1]]
                    r, c = np.nonzero(blk)
                    if r.size == 0:
                        continue
                    style = s['decl']
                    if style == 'mixed':
                        style = 'sparse' if (m + k) % 2 == 0 else 'dense'
                    of, wrt = f"{s['outpre']}{m}", f"{s['inpre']}{k}"
                    if style == 'sparse':
                        self.declare_partials(of, wrt, rows=r, cols=c)
                        self.blocks[of, wrt] = (r + self.oo[m], c + self.io[k], None)
                    else:
                        self.declare_partials(of, wrt)
                        self.blocks[of, wrt] = (slice(self.oo[m], self.oo[m + 1]), slice(self.io[k], self.io[k + 1]),
                                                blk.shape)

        def _x(self, inputs):
            s = self.options['spec']
            return np.concatenate([np.asarray(inputs[f"{s['inpre']}{k}"]).ravel() for k in range(len(self.insz))])

        def compute(self, inputs, outputs):
            s = self.options['spec']
            x = self._x(inputs)
            y = self.A.dot(x) + self.C.dot(np.sin(x))
            for m in range(len(self.outsz)):
                outputs[f"{s['outpre']}{m}"] = y[self.oo[m]:self.oo[m + 1]]

        def compute_partials(self, inputs, partials):
            if not self.blocks:
                return
            x = self._x(inputs)
            J = self.A + self.C * np.cos(x)[None, :]
            for (of, wrt), (r, c, shp) in self.blocks.items():
                partials[of, wrt] = J[r, c]

    _CL['SparseComp'] = SparseComp
    _CL['om'] = om
    return _CL


def _register_exec_funcs():
    import openmdao.api as om
    from openmdao.components.exec_comp import _expr_dict
    for i in range(_NSLOTS):
        name = f"c03m{i}"
        if name not in _expr_dict:
            om.ExecComp.register(name, (lambda x, i=i: _SLOTS[i].dot(x)), complex_safe=True)


def _seed_openmdao_rngs(seed):
    import openmdao.utils.array_utils as au
    np.random.seed(seed % (2 ** 32))
    au._randgen = np.random.default_rng(seed)


def comp_matrices(case, nzkey, nr, nc, salt):
    nz = case_nz(case, nzkey)
    vk = int(case.get('vk', 0))
    A = dense_from(nz, values_for(nz, vk, 1.5, 1.0, salt=salt), nr, nc)
    C = dense_from(nz, values_for(nz, vk, 0.2, 0.8, salt=salt + 1), nr, nc)
    return nz, A, C


def xvalues(n, vk, salt=0):
    return np.array([2.0 * _frac((k + 1) * PLA + vk * PHI + salt * SQ2) - 1.0 for k in range(n)])


def _scale_factor(q, units_table, n, driver_scaling):
    """Per-element factor d(driver value)/d(model value) of a desvar/response spec q of indexed size n."""
    f = np.full(n, units_table[q.get('units')])
    if driver_scaling:
        sc = q.get('scale') or {}
        if sc.get('kind') == 'sa':
            f = f * np.broadcast_to(np.asarray(sc['scaler'], dtype=float), (n,))
        elif sc.get('kind') == 'ref':
            ref = np.broadcast_to(np.asarray(sc['ref'], dtype=float), (n,))
            ref0 = np.broadcast_to(np.asarray(sc['ref0'], dtype=float), (n,))
            f = f / (ref - ref0)
    return f


def _scale_kwargs(q):
    kw = {}
    sc = q.get('scale') or {}
    if sc.get('kind') == 'sa':
        s = sc['scaler']
        kw['scaler'] = np.array(s, dtype=float) if isinstance(s, list) else float(s)
        if sc.get('adder') is not None:
            kw['adder'] = float(sc['adder'])
    elif sc.get('kind') == 'ref':
        for k in ('ref', 'ref0'):
            v = sc[k]
            kw[k] = np.array(v, dtype=float) if isinstance(v, list) else float(v)
    if q.get('units'):
        kw['units'] = q['units']
    if q.get('indices') is not None:
        kw['indices'] = [int(i) for i in q['indices']]
    return kw


def build_total_problem(case, colored):
    cl = _classes()
    om = cl['om']
    SparseComp = cl['SparseComp']
    insz, outsz = list(case['insz']), list(case['outsz'])
    n, m = sum(insz), sum(outsz)
    chain = case.get('chain')
    p = om.Problem(reports=False)
    model = p.model
    if case.get('ivc'):
        ivc = model.add_subsystem('ivc', om.IndepVarComp(), promotes=['*'])
        for k, s in enumerate(insz):
            ivc.add_output(f"x{k}", val=np.zeros(s), units='m')
    mats = {}
    if chain:
        midsz = list(chain['midsz'])
        nmid = sum(midsz)
        _, A1, C1 = comp_matrices({'nr': nmid, 'nc': n, 'nz': chain['nz1'], 'vk': case['vk']}, 'nz', nmid, n, 0)
        _, A2, C2 = comp_matrices({'nr': m, 'nc': nmid, 'nz': case['nz'], 'vk': case['vk']}, 'nz', m, nmid, 2)
        model.add_subsystem('a', SparseComp(spec=dict(A=A1, C=C1, insz=insz, outsz=midsz, inpre='x', outpre='z',
                                                      in_units='m', out_units=None, decl=case['decl'])),
                            promotes=['*'])
        model.add_subsystem('b', SparseComp(spec=dict(A=A2, C=C2, insz=midsz, outsz=outsz, inpre='z', outpre='y',
                                                      in_units=None, out_units='s', decl=case['decl'])),
                            promotes=['*'])
        mats['chain'] = (A1, C1, A2, C2)
    else:
        _, A, C = comp_matrices(case, 'nz', m, n, 0)
        model.add_subsystem('a', SparseComp(spec=dict(A=A, C=C, insz=insz, outsz=outsz, inpre='x', outpre='y',
                                                      in_units='m', out_units='s', decl=case['decl'])),
                            promotes=['*'])
        mats['single'] = (A, C)
    for dv in case['dvs']:
        model.add_design_var(f"x{dv['var']}", **_scale_kwargs(dv))
    for r in case['resps']:
        if r.get('obj'):
            kw = _scale_kwargs(r)
            idx = kw.pop('indices')
            model.add_objective(f"y{r['var']}", index=int(idx[0]), **kw)
        else:
            model.add_constraint(f"y{r['var']}", upper=1.0, **_scale_kwargs(r))
    if colored:
        p.driver.declare_coloring(direct=bool(case['direct']), show_summary=False,
                                  min_improve_pct=float(case.get('min_improve_pct', 5.0)))
    p.setup(mode=case['mode'])
    x = xvalues(n, int(case['vk']))
    io = np.concatenate([[0], np.cumsum(insz)]).astype(int)
    for k in range(len(insz)):
        p.set_val(f"x{k}", x[io[k]:io[k + 1]], units='m')
    return p, mats, x


def total_reference(case, mats, x):
    """Closed-form total Jacobian in model units, selected rows/cols, and the driver scale vectors."""
    insz, outsz = list(case['insz']), list(case['outsz'])
    if 'chain' in mats:
        A1, C1, A2, C2 = mats['chain']
        z = A1.dot(x) + C1.dot(np.sin(x))
        Jm = (A2 + C2 * np.cos(z)[None, :]).dot(A1 + C1 * np.cos(x)[None, :])
        Pm = ((A2 != 0).astype(int).dot((A1 != 0).astype(int))) > 0
    else:
        A, C = mats['single']
        Jm = A + C * np.cos(x)[None, :]
        Pm = A != 0
    io = np.concatenate([[0], np.cumsum(insz)]).astype(int)
    oo = np.concatenate([[0], np.cumsum(outsz)]).astype(int)
    ds = bool(case['driver_scaling'])
    cols, cscale = [], []
    for dv in case['dvs']:
        k = dv['var']
        idx = np.arange(insz[k]) if dv.get('indices') is None else np.array(dv['indices'], dtype=int)
        cols.append(io[k] + idx)
        cscale.append(_scale_factor(dv, LEN_UNITS, idx.size, ds))
    resps = [r for r in case['resps'] if r.get('obj')] + [r for r in case['resps'] if not r.get('obj')]
    rows, rscale = [], []
    for r in resps:
        k = r['var']
        idx = np.arange(outsz[k]) if r.get('indices') is None else np.array(r['indices'], dtype=int)
        rows.append(oo[k] + idx)
        rscale.append(_scale_factor(r, TIME_UNITS, idx.size, ds))
    rows, cols = np.concatenate(rows), np.concatenate(cols)
    rscale, cscale = np.concatenate(rscale), np.concatenate(cscale)
    Jsel = Jm[np.ix_(rows, cols)]
    return Jsel, Pm[np.ix_(rows, cols)], rscale, cscale


def known_subst_after_scaling(col, rscale, cscale):
    """Predicate of the confirmed defect: a substitution-method bidirectional coloring whose subtraction list
    combines Jacobian entries that carry different unit/driver scale factors (compute_totals applies the
    subtractions after the scaling)."""
    if col is None or not col._subtractions:
        return False
    for pos, subs in col._subtractions:
        s0 = rscale[int(pos[0])] / cscale[int(pos[1])]
        for k in subs:
            sk = rscale[int(k[0])] / cscale[int(k[1])]
            if abs(sk - s0) > 1e-14 * max(abs(sk), abs(s0)):
                return True
    return False


def check_total(case):
    res = Result(classes=['L2', 'L2:total', f"L2:total:{case['mode']}",
                          'L2:total:direct' if case['direct'] else 'L2:total:subst'])
    _seed_openmdao_rngs(int(case.get('rseed', 0)))
    ds = bool(case['driver_scaling'])
    if case.get('chain'):
        res.classes.append('L2:total:chain')
    if ds:
        res.classes.append('L2:total:driver_scaling')

    def run(colored):
        p, mats, x = build_total_problem(case, colored)
        p.run_model()
        J = np.array(p.compute_totals(return_format='array', driver_scaling=ds))
        return p, mats, x, J

    try:
        pu, mats, x, Ju = run(False)
    except Exception as e:
        sig = core.repo_frame_signature(e, 'L2:total:uncolored-raises') or 'L2:total:uncolored-raises'
        return res.fail(sig, f"{type(e).__name__}: {e}")
    Jsel, Psel, rscale, cscale = total_reference(case, mats, x)
    # All comparisons are made in model units: every returned matrix is divided by the scale factor of its entry
    # (row factor / column factor), so an error in an entry that the units/scalers make tiny is not hidden behind a
    # tolerance derived from the largest entry.  Jsel is the closed form in model units.
    N = rscale[:, None] / cscale[None, :]
    Jref = Jsel
    scale = max(float(np.max(np.abs(Jref))) if Jref.size else 1.0, 1e-300)
    tol = 1e-9 * scale
    if np.ptp(rscale) > 0 or np.ptp(cscale) > 0:
        res.classes.append('L2:total:nonuniform-scale')
    if Ju.shape != Jref.shape:
        return res.fail('L2:total:uncolored-shape', f"{Ju.shape} vs {Jref.shape}")
    Ju = Ju / N
    if core.maxerr(Ju, Jref) > tol:
        res.fail('L2:total:uncolored-differs-from-closed-form', _diffmsg(Ju, Jref, tol))

    try:
        pc, _, _, Jc = run(True)
        col = pc.driver._coloring_info.coloring
        Jd1 = np.array(pc.driver._compute_totals(return_format='array', driver_scaling=ds))
        Jd2 = np.array(pc.driver._compute_totals(return_format='array', driver_scaling=ds))
    except Exception as e:
        sig = core.repo_frame_signature(e, 'L2:total:colored-raises') or 'L2:total:colored-raises'
        return res.fail(sig, f"{type(e).__name__}: {e}")

    nr, nc = Jref.shape
    if col is None:
        res.classes.append('L2:total:coloring-not-used')
    else:
        res.classes.append('L2:total:active')
        nz = [(int(r), int(c)) for r, c in zip(*np.nonzero(Psel))]
        # the sparsity OpenMDAO detected must contain the structural pattern of the closed form
        det = set(zip((int(i) for i in col._nzrows), (int(j) for j in col._nzcols)))
        if tuple(col._shape) != (nr, nc):
            res.fail('L2:total:coloring-shape', f"{col._shape} vs {(nr, nc)}")
        elif not set(nz) <= det:
            res.fail('L2:total:detected-sparsity-misses-nonzero', f"{sorted(set(nz) - det)[:6]}")
        else:
            nsolves, bidir, nsub, bound = coloring_validity(col, sorted(det), nr, nc, case['mode'], res, 'L2:total')
            if bidir:
                res.classes.append('L2:total:bidir')
            if nsub:
                res.classes.append('L2:total:subtractions')
            if nsolves < bound:
                res.classes.append('L2:total:saves-solves')
            res.nontrivial = bool(nsolves < bound or (bidir and nsub))

    known = known_subst_after_scaling(col, rscale, cscale)
    if known:
        # what compute_totals returns if its only fault is the order "scale, then subtract"
        res.classes.append('L2:total:known-defect-predicate')
        Jbug, _ = framework_reconstruct(col, Jsel, scale=(rscale, cscale))
        Jbug = Jbug / N
    for name, Jx in (('compute_totals', Jc), ('driver._compute_totals', Jd1), ('driver._compute_totals-2nd-call', Jd2)):
        if Jx.shape != Jref.shape:
            res.fail(f'L2:total:colored-shape:{name}', f"{Jx.shape} vs {Jref.shape}")
            continue
        Jx = Jx / N
        bad_u = core.maxerr(Jx, Ju) > tol
        bad_r = core.maxerr(Jx, Jref) > tol
        if not (bad_u or bad_r):
            continue
        if known and bool(np.all(np.abs(Jx - Jbug) <= 1e-9 * np.maximum(scale, np.abs(Jbug)))):
            res.fail('L2:total:subst-subtractions-applied-after-scaling',
                     f"{name} (entries divided by their unit/driver scale factor): " + _diffmsg(Jx, Ju, tol)
                     + f"; subtractions={_subs_repr(col)}")
        elif bad_u:
            res.fail(f'L2:total:colored-differs-from-uncolored:{"subst" if (col is not None and col._subtractions) else "direct"}',
                     f"{name} (entries divided by their unit/driver scale factor): " + _diffmsg(Jx, Ju, tol))
        else:
            res.fail('L2:total:colored-differs-from-closed-form',
                     f"{name} (entries divided by their unit/driver scale factor): " + _diffmsg(Jx, Jref, tol))
    return res


def _subs_repr(col):
    out = []
    for pos, subs in (col._subtractions or [])[:4]:
        out.append([[int(pos[0]), int(pos[1])], [[int(a), int(b)] for a, b in subs[:6]]])
    return out


# -- component-level coloring of approximated partials --------------------------------------------

def check_partial(case):
    cl = _classes()
    om = cl['om']
    SparseComp = cl['SparseComp']
    method = case['method']
    res = Result(classes=['L2', 'L2:partial', f'L2:partial:{method}'])
    insz, outsz = list(case['insz']), list(case['outsz'])
    n, m = sum(insz), sum(outsz)
    nz, A, C = comp_matrices(case, 'nz', m, n, 0)
    x = xvalues(n, int(case['vk']))
    approx = {'method': method, 'form': case.get('form'), 'step': case.get('step')}
    wrt = case.get('wrt')
    wrt_pat = '*' if wrt is None else [f"x{k}" for k in wrt]
    if wrt is not None:
        res.classes.append('L2:partial:wrt-subset')

    def run(colored):
        _seed_openmdao_rngs(int(case.get('rseed', 0)))
        p = om.Problem(reports=False)
        comp = p.model.add_subsystem('c', SparseComp(spec=dict(A=A, C=C, insz=insz, outsz=outsz, inpre='x',
                                                               outpre='y', in_units=None, out_units=None,
                                                               decl='sparse', approx=approx)), promotes=['*'])
        if colored:
            kw = {k: v for k, v in approx.items() if v is not None}
            comp.declare_coloring(wrt=wrt_pat, show_summary=False,
                                  min_improve_pct=float(case.get('min_improve_pct', 5.0)), **kw)
        p.setup(force_alloc_complex=(method == 'cs'), mode=case.get('mode', 'auto'))
        io = np.concatenate([[0], np.cumsum(insz)]).astype(int)
        for k in range(len(insz)):
            p.set_val(f"x{k}", x[io[k]:io[k + 1]])
        p.run_model()
        J = np.array(p.compute_totals(of=[f"y{i}" for i in range(len(outsz))],
                                      wrt=[f"x{k}" for k in range(len(insz))], return_format='array'))
        J2 = np.array(p.compute_totals(of=[f"y{i}" for i in range(len(outsz))],
                                       wrt=[f"x{k}" for k in range(len(insz))], return_format='array'))
        return comp, J, J2

    Jref = A + C * np.cos(x)[None, :]
    ymax = float(np.max(np.abs(A.dot(x) + C.dot(np.sin(x))))) if m else 0.0
    if method == 'cs':
        tol_ref = 1e-11 * max(1.0, float(np.max(np.abs(Jref))))
        tol_cu = tol_ref
    else:
        h = float(case.get('step') or 1e-6)
        cm = float(np.max(np.abs(C))) if C.size else 0.0
        trunc = (h * h * cm) if case.get('form') == 'central' else (2.0 * h * cm)
        tol_cu = 1e-13 * max(1.0, ymax) / h
        tol_ref = trunc + tol_cu
    try:
        _, Ju, _ = run(False)
    except Exception as e:
        sig = core.repo_frame_signature(e, 'L2:partial:uncolored-raises') or 'L2:partial:uncolored-raises'
        return res.fail(sig, f"{type(e).__name__}: {e}")
    if Ju.shape != Jref.shape:
        return res.fail('L2:partial:uncolored-shape', f"{Ju.shape} vs {Jref.shape}")
    if core.maxerr(Ju, Jref) > tol_ref:
        res.fail('L2:partial:uncolored-differs-from-closed-form', _diffmsg(Ju, Jref, tol_ref))
    try:
        comp, Jc, Jc2 = run(True)
    except Exception as e:
        sig = core.repo_frame_signature(e, 'L2:partial:colored-raises') or 'L2:partial:colored-raises'
        return res.fail(sig, f"{type(e).__name__}: {e}")
    col = comp._coloring_info.coloring
    if col is None:
        res.classes.append('L2:partial:coloring-not-used')
    else:
        res.classes.append('L2:partial:active')
        ncolored = col._shape[1]
        if col.total_solves() < ncolored:
            res.classes.append('L2:partial:saves-solves')
            res.nontrivial = True
    for name, Jx in (('first', Jc), ('second-linearize', Jc2)):
        if Jx.shape != Jref.shape:
            res.fail('L2:partial:colored-shape', f"{Jx.shape} vs {Jref.shape}")
        elif core.maxerr(Jx, Ju) > tol_cu:
            res.fail(f'L2:partial:colored-differs-from-uncolored:{method}', f"{name}: " + _diffmsg(Jx, Ju, tol_cu))
        elif core.maxerr(Jx, Jref) > tol_ref:
            res.fail(f'L2:partial:colored-differs-from-closed-form:{method}', f"{name}: " + _diffmsg(Jx, Jref, tol_ref))
    return res


# -- ExecComp built-in coloring -------------------------------------------------------------------

def check_exec(case):
    cl = _classes()
    om = cl['om']
    _register_exec_funcs()
    res = Result(classes=['L2', 'L2:exec'])
    insz, outsz = list(case['insz']), list(case['outsz'])
    n, m = sum(insz), sum(outsz)
    nz, A, C = comp_matrices(case, 'nz', m, n, 0)
    x = xvalues(n, int(case['vk']))
    io = np.concatenate([[0], np.cumsum(insz)]).astype(int)
    oo = np.concatenate([[0], np.cumsum(outsz)]).astype(int)
    exprs = []
    slot = 0
    for mi in range(len(outsz)):
        terms = []
        for k in range(len(insz)):
            Ab = A[oo[mi]:oo[mi + 1], io[k]:io[k + 1]]
            Cb = C[oo[mi]:oo[mi + 1], io[k]:io[k + 1]]
            if not np.any(Ab):
                continue
            if slot + 2 > _NSLOTS:
                raise RuntimeError('exec case needs more matrix slots than registered')
            _SLOTS[slot] = Ab.copy()
            _SLOTS[slot + 1] = Cb.copy()
            terms.append(f"c03m{slot}(x{k}) + c03m{slot + 1}(sin(x{k}))")
            slot += 2
        exprs.append((mi, terms))
    live = [(mi, t) for mi, t in exprs if t]
    if not live:
        res.discard = 'exec: no output depends on any input'
        return res
    kwargs = {f"x{k}": {'val': np.zeros(insz[k])} for k in range(len(insz))}
    for mi, _ in live:
        kwargs[f"y{mi}"] = {'val': np.zeros(outsz[mi])}
    text = [f"y{mi} = " + ' + '.join(t) for mi, t in live]
    used_in = sorted({k for mi in range(len(outsz)) for k in range(len(insz))
                      if np.any(A[oo[mi]:oo[mi + 1], io[k]:io[k + 1]])})
    kwargs = {k: v for k, v in kwargs.items() if not k.startswith('x') or int(k[1:]) in used_in}
    rows = np.concatenate([np.arange(oo[mi], oo[mi + 1]) for mi, _ in live])
    cols = np.concatenate([np.arange(io[k], io[k + 1]) for k in used_in])
    Jref = (A + C * np.cos(x)[None, :])[np.ix_(rows, cols)]

    def run(colored):
        _seed_openmdao_rngs(int(case.get('rseed', 0)))
        p = om.Problem(reports=False)
        comp = p.model.add_subsystem('c', om.ExecComp(text, do_coloring=colored, **kwargs), promotes=['*'])
        p.setup(mode=case.get('mode', 'auto'))
        for k in used_in:
            p.set_val(f"x{k}", x[io[k]:io[k + 1]])
        p.run_model()
        of = [f"y{mi}" for mi, _ in live]
        wrt = [f"x{k}" for k in used_in]
        J = np.array(p.compute_totals(of=of, wrt=wrt, return_format='array'))
        J2 = np.array(p.compute_totals(of=of, wrt=wrt, return_format='array'))
        return comp, J, J2

    tol = 1e-11 * max(1.0, float(np.max(np.abs(Jref))))
    try:
        _, Ju, _ = run(False)
    except Exception as e:
        sig = core.repo_frame_signature(e, 'L2:exec:uncolored-raises') or 'L2:exec:uncolored-raises'
        return res.fail(sig, f"{type(e).__name__}: {e}")
    if Ju.shape != Jref.shape:
        return res.fail('L2:exec:uncolored-shape', f"{Ju.shape} vs {Jref.shape}")
    if core.maxerr(Ju, Jref) > tol:
        res.fail('L2:exec:uncolored-differs-from-closed-form', _diffmsg(Ju, Jref, tol))
    try:
        comp, Jc, Jc2 = run(True)
    except Exception as e:
        sig = core.repo_frame_signature(e, 'L2:exec:colored-raises') or 'L2:exec:colored-raises'
        return res.fail(sig, f"{type(e).__name__}: {e}")
    col = comp._coloring_info.coloring
    if col is None:
        res.classes.append('L2:exec:coloring-not-used')
    else:
        res.classes.append('L2:exec:active')
        if col.total_solves() < col._shape[1]:
            res.classes.append('L2:exec:saves-solves')
            res.nontrivial = True
    for name, Jx in (('first', Jc), ('second-linearize', Jc2)):
        if Jx.shape != Jref.shape:
            res.fail('L2:exec:colored-shape', f"{Jx.shape} vs {Jref.shape}")
        elif core.maxerr(Jx, Ju) > tol:
            res.fail('L2:exec:colored-differs-from-uncolored', f"{name}: " + _diffmsg(Jx, Ju, tol))
        elif core.maxerr(Jx, Jref) > tol:
            res.fail('L2:exec:colored-differs-from-closed-form', f"{name}: " + _diffmsg(Jx, Jref, tol))
    return res


def check(case):
    kind = case.get('kind', 'pat')
    if kind == 'pat':
        return check_pattern(case)
    if kind == 'total':
        return check_total(case)
    if kind == 'partial':
        return check_partial(case)
    if kind == 'exec':
        return check_exec(case)
    raise ValueError(f"unknown case kind {kind!r}")


# ---------------------------------------------------------------------------------------------
# pattern generator (pure function of a random.Random seeded from a Hypothesis draw)
# ---------------------------------------------------------------------------------------------

FAMILIES = ['random', 'random', 'banded', 'block', 'arrow', 'arrow', 'arrow', 'diagrows', 'diagcols', 'sparse_plus_dense']


def gen_pattern(rng, nr, nc, fam, empties=True, cover=False):
    P = [[False] * nc for _ in range(nr)]

    def diag():
        for i in range(max(nr, nc)):
            P[i % nr][i % nc] = True

    if fam == 'random':
        p = rng.choice([0.02, 0.05, 0.1, 0.2, 0.3, 0.5, 0.7, 0.9])
        for i in range(nr):
            for j in range(nc):
                P[i][j] = rng.random() < p
    elif fam == 'banded':
        lo, hi = rng.randint(0, 3), rng.randint(0, 3)
        for i in range(nr):
            c0 = (i * nc) // nr
            for j in range(max(0, c0 - lo), min(nc, c0 + hi + 1)):
                P[i][j] = True
    elif fam == 'block':
        i = j = 0
        while i < nr and j < nc:
            bi, bj = rng.randint(1, 5), rng.randint(1, 5)
            dens = rng.choice([1.0, 1.0, 0.6])
            for a in range(i, min(nr, i + bi)):
                for b in range(j, min(nc, j + bj)):
                    P[a][b] = rng.random() < dens
            i += bi
            j += bj
    elif fam in ('arrow', 'diagrows', 'diagcols', 'sparse_plus_dense'):
        if fam == 'sparse_plus_dense':
            for i in range(nr):
                for j in range(nc):
                    P[i][j] = rng.random() < 0.08
        else:
            diag()
        nrow = rng.randint(1, 3) if fam in ('arrow', 'diagrows', 'sparse_plus_dense') else 0
        ncol = rng.randint(1, 3) if fam in ('arrow', 'diagcols', 'sparse_plus_dense') else 0
        dens = rng.choice([1.0, 1.0, 0.8])
        for _ in range(nrow):
            i = rng.randrange(nr)
            for j in range(nc):
                if rng.random() < dens:
                    P[i][j] = True
        for _ in range(ncol):
            j = rng.randrange(nc)
            for i in range(nr):
                if rng.random() < dens:
                    P[i][j] = True
    else:
        raise ValueError(fam)
    if empties and rng.random() < 0.3:
        for _ in range(rng.randint(1, 2)):
            if rng.random() < 0.5:
                i = rng.randrange(nr)
                P[i] = [False] * nc
            else:
                j = rng.randrange(nc)
                for i in range(nr):
                    P[i][j] = False
    if rng.random() < 0.25:
        for _ in range(rng.randint(1, 3)):
            P[rng.randrange(nr)][rng.randrange(nc)] = True
    return [[i, j] for i in range(nr) for j in range(nc) if P[i][j]]


def _split(rng, n, maxparts):
    """Split n into 1..maxparts positive sizes."""
    k = rng.randint(1, min(maxparts, n))
    cuts = sorted(rng.sample(range(1, n), k - 1)) if k > 1 else []
    b = [0] + cuts + [n]
    return [b[i + 1] - b[i] for i in range(k)]


def _ensure_blocks_nonempty(nz, rsz, csz, rng):
    """Every row variable and every column variable gets at least one nonzero (used for most models; the rest keep
    responses that depend on no design variable and design variables nothing depends on)."""
    S = {(r, c) for r, c in nz}
    ro = np.concatenate([[0], np.cumsum(rsz)]).astype(int)
    co = np.concatenate([[0], np.cumsum(csz)]).astype(int)
    nr, nc = int(ro[-1]), int(co[-1])
    for m in range(len(rsz)):
        if not any(ro[m] <= r < ro[m + 1] for r, _ in S):
            S.add((rng.randrange(ro[m], ro[m + 1]), rng.randrange(nc)))
    for k in range(len(csz)):
        if not any(co[k] <= c < co[k + 1] for _, c in S):
            S.add((rng.randrange(nr), rng.randrange(co[k], co[k + 1])))
    return [[r, c] for r, c in sorted(S)]


NICE_SCALERS = [2.0, 0.5, 10.0, 0.1, 3.0, 0.25, -2.0, 100.0, 7.0]


def _draw_quantity(rng, var, size, units):
    q = {'var': var}
    if size > 1 and rng.random() < 0.35:
        k = rng.randint(1, size)
        idx = rng.sample(range(size), k)
        if rng.random() < 0.6:
            idx = sorted(idx)
        q['indices'] = idx
        size = k
    else:
        q['indices'] = None
    u = rng.random()
    if u < 0.35:
        q['scale'] = {'kind': 'none'}
    elif u < 0.7:
        if size > 1 and rng.random() < 0.3:
            sc = [rng.choice(NICE_SCALERS) for _ in range(size)]
        else:
            sc = rng.choice(NICE_SCALERS)
        q['scale'] = {'kind': 'sa', 'scaler': sc, 'adder': rng.choice([None, 1.0, -0.5])}
    else:
        ref0 = rng.choice([0.0, 1.0, -1.0])
        ref = ref0 + rng.choice([2.0, 0.5, 4.0, -1.5])
        q['scale'] = {'kind': 'ref', 'ref': ref, 'ref0': ref0}
    q['units'] = rng.choice(units)
    return q


def gen_total_case(rng):
    focus = rng.random() < 0.45      # shapes on which a bidirectional coloring beats both unidirectional ones
    if focus:
        n = rng.randint(6, 14)
        m = rng.randint(6, 14)
        fam = 'arrow'
    else:
        big = rng.random() < 0.3
        n = rng.randint(2, 14 if big else 8)
        m = rng.randint(2, 14 if big else 8)
        fam = rng.choice(['arrow', 'diagrows', 'diagcols', 'banded', 'block', 'random', 'sparse_plus_dense'])
    insz = _split(rng, n, 4)
    outsz = _split(rng, m, 4)
    case = {'kind': 'total', 'nr': m, 'nc': n, 'insz': insz, 'outsz': outsz, 'fam': fam,
            'vk': rng.randint(0, 999), 'rseed': rng.randint(0, 2 ** 31 - 1)}
    if not focus and rng.random() < 0.3:
        nmid = rng.randint(2, 8)
        midsz = _split(rng, nmid, 3)
        nz1 = gen_pattern(rng, nmid, n, rng.choice(['banded', 'block', 'arrow', 'diagrows', 'random']), empties=False)
        nz1 = _ensure_blocks_nonempty(nz1, midsz, insz, rng)
        nz2 = gen_pattern(rng, m, nmid, rng.choice(['banded', 'block', 'arrow', 'diagcols', 'random']), empties=False)
        nz2 = _ensure_blocks_nonempty(nz2, outsz, midsz, rng)
        case['chain'] = {'midsz': midsz, 'nz1': nz1}
        case['nz'] = nz2
        case['nc'] = nmid
    else:
        case['chain'] = None
        case['nz'] = gen_pattern(rng, m, n, fam)
        if rng.random() < 0.75:
            case['nz'] = _ensure_blocks_nonempty(case['nz'], outsz, insz, rng)
    len_units = [None, None, 'm', 'cm', 'mm', 'km', 'ft', 'inch']
    time_units = [None, None, 's', 'ms', 'min', 'h']
    case['dvs'] = [_draw_quantity(rng, k, insz[k], len_units) for k in range(len(insz))]
    case['resps'] = [_draw_quantity(rng, k, outsz[k], time_units) for k in range(len(outsz))]
    for r in case['resps']:
        sz = len(r['indices']) if r['indices'] is not None else outsz[r['var']]
        if sz == 1 and rng.random() < 0.5 and not any(q.get('obj') for q in case['resps']):
            r['obj'] = True
            if r['indices'] is None:
                r['indices'] = [0]
            if isinstance((r.get('scale') or {}).get('scaler'), list):
                r['scale']['scaler'] = r['scale']['scaler'][0]
    case['mode'] = 'auto' if (focus and rng.random() < 0.85) else rng.choice(['auto', 'auto', 'fwd', 'rev'])
    case['direct'] = rng.random() < 0.45
    case['driver_scaling'] = rng.random() < 0.6
    case['ivc'] = rng.random() < 0.5
    case['decl'] = rng.choice(['sparse', 'sparse', 'mixed', 'dense'])
    case['min_improve_pct'] = rng.choice([5.0, 0.0])
    return case


def gen_partial_case(rng):
    n = rng.randint(2, 12)
    m = rng.randint(1, 12)
    insz = _split(rng, n, 3)
    outsz = _split(rng, m, 3)
    fam = rng.choice(['banded', 'block', 'arrow', 'diagrows', 'diagcols', 'random', 'sparse_plus_dense'])
    method = rng.choice(['fd', 'fd', 'cs'])
    case = {'kind': 'partial', 'nr': m, 'nc': n, 'insz': insz, 'outsz': outsz, 'fam': fam,
            'nz': gen_pattern(rng, m, n, fam), 'vk': rng.randint(0, 999), 'rseed': rng.randint(0, 2 ** 31 - 1),
            'method': method, 'form': None, 'step': None, 'mode': rng.choice(['auto', 'fwd', 'rev']),
            'min_improve_pct': rng.choice([5.0, 0.0])}
    if method == 'fd':
        case['form'] = rng.choice([None, 'forward', 'backward', 'central'])
        case['step'] = rng.choice([None, 1e-5, 1e-7])
    if len(insz) > 1 and rng.random() < 0.4:
        k = rng.randint(1, len(insz) - 1)
        case['wrt'] = sorted(rng.sample(range(len(insz)), k))
    else:
        case['wrt'] = None
    return case


def gen_exec_case(rng):
    insz = [rng.randint(1, 6) for _ in range(rng.randint(1, 3))]
    outsz = [rng.randint(1, 6) for _ in range(rng.randint(1, 3))]
    n, m = sum(insz), sum(outsz)
    fam = rng.choice(['banded', 'block', 'arrow', 'diagrows', 'random', 'sparse_plus_dense'])
    return {'kind': 'exec', 'nr': m, 'nc': n, 'insz': insz, 'outsz': outsz, 'fam': fam,
            'nz': gen_pattern(rng, m, n, fam), 'vk': rng.randint(0, 999), 'rseed': rng.randint(0, 2 ** 31 - 1),
            'mode': rng.choice(['auto', 'fwd', 'rev'])}


# ---------------------------------------------------------------------------------------------
# strategies
# ---------------------------------------------------------------------------------------------

def strategy(kind):
    from hypothesis import strategies as st

    @st.composite
    def pat(draw):
        sz = draw(st.sampled_from(['s', 'm', 'm', 'l']))
        lo, hi = {'s': (1, 8), 'm': (4, 20), 'l': (12, 40)}[sz]
        nr = draw(st.integers(lo, hi))
        nc = draw(st.integers(lo, hi))
        fam = draw(st.sampled_from(FAMILIES))
        rng = random.Random(draw(st.integers(0, 2 ** 31 - 1)))
        return {'kind': 'pat', 'nr': nr, 'nc': nc, 'fam': fam, 'nz': gen_pattern(rng, nr, nc, fam),
                'vk': draw(st.integers(0, 999)),
                'mode': draw(st.sampled_from(['fwd', 'rev', 'auto', 'auto', 'auto'])),
                'direct': draw(st.booleans()),
                'inp': draw(st.sampled_from(['dense', 'coo_rm', 'coo_cm']))}

    @st.composite
    def model(draw, gen):
        rng = random.Random(draw(st.integers(0, 2 ** 31 - 1)))
        return gen(rng)

    if kind == 'pat':
        return pat()
    return model({'total': gen_total_case, 'partial': gen_partial_case, 'exec': gen_exec_case}[kind])


# ---------------------------------------------------------------------------------------------
# enumeration
# ---------------------------------------------------------------------------------------------

CONFIGS = [('fwd', True), ('rev', True), ('auto', True), ('auto', False), ('fwd', False), ('rev', False)]
INPUTS = ['dense', 'coo_rm', 'coo_cm']


def enum_shape(nr, nc, bits_iter):
    for b in bits_iter:
        for ci, (mode, direct) in enumerate(CONFIGS):
            yield {'kind': 'pat', 'nr': nr, 'nc': nc, 'bits': b, 'vk': b % 7, 'mode': mode, 'direct': direct,
                   'inp': INPUTS[(b + ci) % 3]}


def small_shapes():
    return [(r, c) for r in range(1, 4) for c in range(1, 4)]


def edge_shapes():
    return [(4, k) for k in range(1, 4)] + [(k, 4) for k in range(1, 4)]


def sample44(seed, count):
    """`count` distinct 4x4 patterns: an arithmetic progression with odd stride modulo 2**16."""
    start = core.shard_seed(seed, ID, 1000) % 65536
    stride = (core.shard_seed(seed, ID, 1001) % 65536) | 1
    return [(start + i * stride) % 65536 for i in range(count)]


# ---------------------------------------------------------------------------------------------
# work units
# ---------------------------------------------------------------------------------------------

def units(tier, seed):
    us = [{'kind': 'enum_small'}]
    quick = tier == 'quick'
    if quick:       # a seed-dependent half of the 4xk / kx4 patterns
        for i in range(4):
            us.append({'kind': 'enum_edge', 'part': (seed + 2 * i) % 8, 'nparts': 8})
    else:
        for p in range(8):
            us.append({'kind': 'enum_edge', 'part': p, 'nparts': 8})
    n44 = 8 if quick else 32
    for p in range(n44):
        us.append({'kind': 'enum44', 'part': p, 'nparts': n44, 'sample': 12000 if quick else None, 'seed': seed})
    nr_, per = (8, 600) if quick else (32, 6250)
    for i in range(nr_):
        us.append({'kind': 'rand_pat', 'n': per, 'seed': core.shard_seed(seed, ID, i)})
    nt, pert = (10, 60) if quick else (32, 250)
    for i in range(nt):
        us.append({'kind': 'rand_total', 'n': pert, 'seed': core.shard_seed(seed, ID, 100 + i)})
    npu, perp = (4, 50) if quick else (16, 180)
    for i in range(npu):
        us.append({'kind': 'rand_partial', 'n': perp, 'seed': core.shard_seed(seed, ID, 200 + i)})
    ne, pere = (2, 50) if quick else (8, 150)
    for i in range(ne):
        us.append({'kind': 'rand_exec', 'n': pere, 'seed': core.shard_seed(seed, ID, 300 + i)})
    return us


def run_unit(unit, ctx):
    k = unit['kind']
    shrink = unit.get('tier') == 'thorough'
    if k == 'enum_small':
        for nr, nc in small_shapes():
            core.run_cases(ctx, enum_shape(nr, nc, range(2 ** (nr * nc))), check)
    elif k == 'enum_edge':
        for nr, nc in edge_shapes():
            bits = (b for b in range(2 ** (nr * nc)) if b % unit['nparts'] == unit['part'])
            core.run_cases(ctx, enum_shape(nr, nc, bits), check)
    elif k == 'enum44':
        if unit.get('sample'):
            allb = sample44(unit['seed'], unit['sample'])
        else:
            allb = range(65536)
        bits = (b for i, b in enumerate(allb) if i % unit['nparts'] == unit['part'])
        core.run_cases(ctx, enum_shape(4, 4, bits), check)
    elif k == 'rand_pat':
        core.run_hypothesis(ctx, strategy('pat'), check, unit['n'], unit['seed'], shrink=shrink)
    elif k == 'rand_total':
        core.run_hypothesis(ctx, strategy('total'), check, unit['n'], unit['seed'], shrink=shrink)
    elif k == 'rand_partial':
        core.run_hypothesis(ctx, strategy('partial'), check, unit['n'], unit['seed'], shrink=shrink)
    elif k == 'rand_exec':
        core.run_hypothesis(ctx, strategy('exec'), check, unit['n'], unit['seed'], shrink=shrink)
    else:
        raise ValueError(k)
