"""C24  Relevance pruning is unobservable in results.

Oracle : differential across two interpreter processes (OPENMDAO_NO_RELEVANCE is read at import time): the same spec is
         evaluated with relevance enabled and disabled; responses and total derivatives must agree, and both must agree with
         the independent reference of C01.
"""
import atexit
import json
import os
import subprocess
import sys

import numpy as np

from vfw import core
from vfw.core import Result

ID = 'C24'
LEVEL = 'exploration'
TECHNIQUE = 'Hypothesis-generated models with irrelevant branches; differential relevance-on vs relevance-off in two processes + independent reference'
RULE = ("case = model spec (see C01: implicit components with dangling states, feedback loops, nested groups, linear solvers "
        "that use relevance (LinearRunOnce, LinearBlockGS/Jac, ScipyKrylov) and ones that do not (DirectSolver)) with drawn "
        "design variables (IndepVarComp outputs, optional indices) and responses (objective + constraints, optional indices) "
        "that depend only partially on each other. Evaluated in fwd and rev mode in a relevance-ON and a relevance-OFF worker. "
        "Non-trivial = the data-flow graph of the spec contains a component that is irrelevant to at least one "
        "(design variable, response) pair, or a dangling implicit state. Distinct = distinct canonical JSON.")
ASSUMPTIONS = [
    "relevance is switched off with the documented OPENMDAO_NO_RELEVANCE environment variable in a separate interpreter",
    "ON and OFF must agree to 1e-9*max(1,cond) relative (solver tolerance); both are compared with the reference totals",
    "optimizer iterates are not compared in this tier (only responses and totals)",
]
MIN_CLASS_FRACTION = {'judged': 0.4}

_children = {}


def _child(which):
    ch = _children.get(which)
    if ch is not None and ch.poll() is None:
        return ch
    env = dict(os.environ)
    env['OPENMDAO_REPORTS'] = '0'
    if which == 'off':
        env['OPENMDAO_NO_RELEVANCE'] = '1'
    else:
        env.pop('OPENMDAO_NO_RELEVANCE', None)
    pp = [core.VERIF_DIR]
    if env.get('PYTHONPATH'):
        pp.append(env['PYTHONPATH'])
    env['PYTHONPATH'] = os.pathsep.join(pp)
    ch = subprocess.Popen([sys.executable, '-m', 'vfw.c24_child'], stdin=subprocess.PIPE, stdout=subprocess.PIPE,
                          stderr=subprocess.DEVNULL, env=env, text=True, bufsize=1)
    _children[which] = ch
    return ch


def _ask(which, req):
    ch = _child(which)
    ch.stdin.write(json.dumps(req) + '\n')
    ch.stdin.flush()
    line = ch.stdout.readline()
    if not line:
        _children.pop(which, None)
        raise RuntimeError(f"C24 child {which} died")
    return json.loads(line)


@atexit.register
def _cleanup():
    for ch in _children.values():
        try:
            ch.stdin.close()
            ch.terminate()
        except Exception:
            pass


def graph_info(spec, ref):
    """Reachability on the component graph of the spec (independent of OpenMDAO)."""
    import networkx as nx
    G = nx.DiGraph()
    for c in spec['comps']:
        G.add_node('.'.join(c['path'] + [c['name']]))
    for cn in spec['conns']:
        G.add_edge(cn['src'].rpartition('.')[0], cn['tgt'].rpartition('.')[0])
    return G


def check(case):
    from vfw.refmodel import RefModel
    from vfw.props.c01 import spec_flags
    import networkx as nx
    spec = case['spec']
    res = Result()
    flags = spec_flags(spec)
    cls = sorted(flags)
    ref = RefModel(spec)
    req = {'spec': spec, 'modes': ['fwd', 'rev']}
    on = _ask('on', req)
    off = _ask('off', req)
    for label, rep in (('on', on), ('off', off)):
        if not rep['ok']:
            if rep.get('analysis_error'):
                res.discard = 'nonconverged-' + label
                res.classes = cls + ['nonconverged']
                return res
            if not rep.get('sig'):
                raise RuntimeError(f"C24 child harness error ({label}): {rep.get('error')}")
            if label == 'on' and off['ok']:
                res.fail('relevance-on-raises:' + rep['sig'], rep['error'])
            elif label == 'off' and not on['ok']:
                res.fail('both-raise:' + rep['sig'], rep['error'])
            elif label == 'off':
                res.fail('relevance-off-raises:' + rep['sig'], rep['error'])
            res.classes = cls
            return res
    # reference
    any_mode = on['modes']['fwd']
    u_om = np.zeros(ref.nu)
    for n, m in ref.uvars.items():
        u_om[m['off']:m['off'] + m['size']] = np.asarray(any_mode['vals'][n])
    if not np.all(np.isfinite(u_om)):
        res.discard = 'nonfinite'
        return res
    u_ref, rn = ref.solve(u_om, ref.x0)
    if not rn < 1e-10:
        res.discard = 'reference-newton-failed'
        return res
    dudx, cond = ref.totals(u_ref, ref.x0)
    if not np.isfinite(cond) or cond > 1e8:
        res.discard = 'ill-conditioned'
        return res
    rt = 1e-9 * max(1.0, cond)
    # round-off floor of the linear solves (see C01): relative to the size of the terms that cancel in du/dx
    floor = 1e-11 + 8 * np.finfo(float).eps * max(1.0, cond) * (1.0 + ref.totals_scale(u_ref, ref.x0))
    dvs = {d['name']: ref.var_positions(d['name'], d.get('indices'), d.get('flat_indices')) for d in spec['desvars']}
    rss = {r.get('alias') or r['name']: ref.var_positions(r['name'], r.get('indices'), r.get('flat_indices'))
           for r in spec['responses']}
    scale = 1.0 + float(np.max(np.abs(u_ref))) if u_ref.size else 1.0
    for mode in ('fwd', 'rev'):
        a, b = on['modes'][mode], off['modes'][mode]
        for n in a['vals']:
            va, vb = np.asarray(a['vals'][n]), np.asarray(b['vals'][n])
            if va.shape != vb.shape or np.any(np.abs(va - vb) > rt * scale):
                res.fail('outputs:on-differs-from-off', f"{mode} {n}: on {va.tolist()} off {vb.tolist()}")
                break
        for k in a['cons']:
            va, vb = np.asarray(a['cons'][k]), np.asarray(b['cons'][k])
            if va.shape != vb.shape or np.any(np.abs(va - vb) > rt * scale):
                res.fail('responses:on-differs-from-off', f"{mode} {k}: on {va.tolist()} off {vb.tolist()}")
        if set(a['J']) != set(b['J']):
            res.fail('totals:key-sets-differ', f"{mode}: on {sorted(a['J'])} off {sorted(b['J'])}")
        for key in sorted(set(a['J']) & set(b['J'])):
            of, wrt = key.split('|')
            (ok, op, _), (wk, wp, _) = rss[of], dvs[wrt]
            Jr = ref.total_block(dudx, (ok, op), (wk, wp))
            tol = rt * (float(np.max(np.abs(Jr))) if Jr.size else 0.0) + floor
            Ja, Jb = np.asarray(a['J'][key]), np.asarray(b['J'][key])
            if Ja.shape != Jr.shape or (Ja.size and float(np.max(np.abs(Ja - Jr))) > tol):
                res.fail(f"totals:relevance-on-differs-from-reference", f"{mode} {key}: on {Ja.tolist()} ref {Jr.tolist()}")
            if Jb.shape != Jr.shape or (Jb.size and float(np.max(np.abs(Jb - Jr))) > tol):
                res.fail(f"totals:relevance-off-differs-from-reference", f"{mode} {key}: off {Jb.tolist()} ref {Jr.tolist()}")
    # non-triviality from the spec's own graph
    G = graph_info(spec, ref)
    partial = False
    for d in spec['desvars']:
        dc = d['name'].rpartition('.')[0]
        desc = nx.descendants(G, dc) | {dc}
        for r in spec['responses']:
            rc = r['name'].rpartition('.')[0]
            anc = nx.ancestors(G, rc) | {rc}
            rel = desc & anc
            if len(rel) < G.number_of_nodes():
                partial = True
    from vfw.props.c01 import has_dangling_implicit_state
    dangling = has_dangling_implicit_state(spec, [r['name'] for r in spec['responses']])
    res.nontrivial = partial or dangling
    res.classes = cls + ['judged'] + (['partial_dependence'] if partial else []) + (['dangling_state'] if dangling else [])
    return res


def strategy(tier):
    from hypothesis import strategies as st
    from vfw.gen_spec import model_spec, profile

    @st.composite
    def case(draw):
        # relevance is decided on the dataflow graph: implicit components and sparse (partly undeclared) partials are
        # where it can go wrong, so they are drawn more often than in the other model-based checks
        spec = draw(model_spec(profile(p_imp=0.5, styles=['dense', 'sparse', 'sparse', 'sparse', 'matfree'],
                                       cyc_ln=['direct', 'krylov', 'krylov', 'lnbgs', 'lnbgs', 'lnbj'],
                                       max_comps=5, min_comps=3)))
        outs = [('.'.join(c['path'] + [c['name'], v['name']]), v['shape']) for c in spec['comps'] if c['kind'] != 'ivc'
                for v in c['outputs']]
        ins = [('.'.join(c['path'] + [c['name'], v['name']]), v['shape']) for c in spec['comps'] if c['kind'] == 'ivc'
               for v in c['outputs']]
        dvs = draw(st.lists(st.sampled_from(ins), min_size=1, max_size=3, unique_by=lambda t: t[0]))
        rs = draw(st.lists(st.sampled_from(outs), min_size=1, max_size=4, unique_by=lambda t: t[0]))
        spec['desvars'] = []
        for n, sh in dvs:
            d = {'name': n}
            size = int(np.prod(sh))
            if size > 1 and draw(st.booleans()):
                k = draw(st.integers(1, size))
                d['indices'] = {'a': sorted(draw(st.lists(st.integers(0, size - 1), min_size=k, max_size=k, unique=True))), 'list': True}
                d['flat_indices'] = True
            spec['desvars'].append(d)
        spec['responses'] = []
        for i, (n, sh) in enumerate(rs):
            r = {'name': n, 'type': 'con', 'lower': -1e3}
            size = int(np.prod(sh))
            if i == 0:
                r = {'name': n, 'type': 'obj', 'indices': {'a': [draw(st.integers(0, size - 1))], 'list': True}, 'flat_indices': True}
            elif size > 1 and draw(st.booleans()):
                k = draw(st.integers(1, size))
                r['indices'] = {'a': sorted(draw(st.lists(st.integers(0, size - 1), min_size=k, max_size=k, unique=True))), 'list': True}
                r['flat_indices'] = True
            spec['responses'].append(r)
        return {'spec': spec}
    return case()


def units(tier, seed):
    n = 16 if tier == 'quick' else 32
    per = 20 if tier == 'quick' else 55
    return [{'kind': 'random', 'n': per, 'seed': core.shard_seed(seed, ID, i)} for i in range(n)]


def run_unit(unit, ctx):
    core.run_hypothesis(ctx, strategy(unit.get('tier')), check, unit['n'], unit['seed'], shrink=unit.get('tier') == 'thorough')
    _cleanup()
