"""C01  Total derivatives equal the exact derivative of the converged model.

Domain : generated model specs (vfw/gen_spec.py) x derivative modes x jacobian formats x return formats x driver scaling.
Oracle : independent NumPy reference (vfw/refmodel.py): Newton on the reference residual started from OpenMDAO's
         outputs, exact totals by the implicit function theorem.
"""
import numpy as np

from vfw import core
from vfw.core import Result

ID = 'C01'
LEVEL = 'exploration'
TECHNIQUE = 'Hypothesis-generated model programs; independent NumPy reference (implicit-function-theorem totals) as oracle; fwd/rev/auto differential'
RULE = ("case = model spec (2-5 tanh-affine explicit / diagonally dominant implicit components + 1-2 IndepVarComps in a drawn "
        "group hierarchy, explicit connections with drawn src_indices forms and unit conversions, optional feedback loops, "
        "solver stack and assembled-jacobian format drawn per group, partial declaration style per component) + query "
        "(of/wrt names or driver variables with indices and scaling, return_format, driver_scaling). Each case is evaluated in "
        "fwd, rev and auto mode. Non-trivial = converged, >=3 components and at least one of {feedback loop, src_indices on a "
        "rank>=2 source, unit factor != 1, assembled jacobian, indices on a desvar/response, matrix-free component}. "
        "Distinct = distinct canonical JSON of the case.")
ASSUMPTIONS = [
    "serial DefaultVector/DefaultTransfer only (no MPI in the sandbox)",
    "every solver, linear ones included, runs with err_on_non_converge=True; an AnalysisError discards the case (premise "
    "'every solver reports convergence' not met)",
    "tolerance: |J_om - J_ref| <= (1e-9*max(1,cond(dR/du)))*max|J_ref| + 1e-11 ; cases with cond > 1e8 are discarded",
    "the reference selects the same root by starting its Newton iteration from OpenMDAO's converged outputs",
]
MIN_CLASS_FRACTION = {'judged': 0.5}
UNIT_TIMEOUT = {'quick': 900, 'thorough': 4 * 3600}


def spec_flags(spec):
    from vfw.gen_model import idx_has_negative, idx_is_nontuple_int_or_array
    from vfw.refmodel import conv
    fl = set()
    shapes = {}
    units = {}
    for c in spec['comps']:
        for v in c['outputs']:
            shapes['.'.join(c['path'] + [c['name'], v['name']])] = v['shape']
            units['.'.join(c['path'] + [c['name'], v['name']])] = v.get('units')
    inunits = {}
    for c in spec['comps']:
        for v in c['inputs']:
            inunits['.'.join(c['path'] + [c['name'], v['name']])] = v.get('units')
        if c.get('style') == 'matfree':
            fl.add('matfree')
        if c.get('style') == 'sparse':
            fl.add('sparse_partials')
        if c['kind'] == 'imp':
            fl.add('implicit')
    for cn in spec['conns']:
        sh = shapes[cn['src']]
        if cn.get('idx') is not None:
            fl.add('src_indices')
            if len(sh) >= 2:
                fl.add('src_indices_nd')
            if idx_has_negative(cn['idx']):
                fl.add('neg_index')
            nonflat = not (cn.get('flat') is True or (cn.get('flat') is None and len(sh) <= 1))
            if nonflat and len(sh) >= 2 and idx_is_nontuple_int_or_array(cn['idx']):
                fl.add('f4_form')
        f, o = conv(units[cn['src']], inunits[cn['tgt']])
        if f != 1.0:
            fl.add('unit_factor')
        if o != 0.0:
            fl.add('unit_offset')
    if spec.get('feedback'):
        fl.add('feedback')
    for k, g in spec['groups'].items():
        if (g.get('ln_opts') or {}).get('assemble_jac'):
            fl.add('assembled')
            fl.add('jac_' + g.get('jac_type', 'csc'))
        if g.get('nl') and g['nl'] != 'runonce':
            fl.add('nl_' + g['nl'])
        if g.get('ln') and g['ln'] != 'runonce':
            fl.add('ln_' + g['ln'])
        if k:
            fl.add('nested')
    return fl


def run_om(spec, mode, query, trace=None):
    """Build, run and differentiate. Returns dict or raises."""
    import openmdao.api as om
    from vfw.gen_model import build_problem
    p, groups = build_problem(spec, mode=mode, trace=trace)
    p.final_setup()
    p.run_model()
    return p


def check(case):
    import openmdao.api as om
    from vfw.refmodel import RefModel
    spec = case['spec']
    q = case['query']
    res = Result()
    flags = spec_flags(spec)
    ref = RefModel(spec)
    cls = sorted(flags)
    known = known_sigs_for(spec, flags, q)
    Jom = {}
    cond = None
    Jref = None
    for mode in ('fwd', 'rev', 'auto'):
        try:
            p = run_om(spec, mode, q)
        except om.AnalysisError as e:
            res.discard = 'nonconverged'
            res.classes = cls + ['nonconverged']
            return res
        except Exception as e:
            sig = core.repo_frame_signature(e, 'setup-or-run')
            if sig is None:
                raise
            res.fail(tag(known, sig), f"mode={mode}: {type(e).__name__}: {e}")
            res.classes = cls
            return res
        if Jref is None:
            u_om = np.zeros(ref.nu)
            for n, m in ref.uvars.items():
                u_om[m['off']:m['off'] + m['size']] = np.asarray(p.get_val(n)).ravel()
            x = ref.x0
            if not np.all(np.isfinite(u_om)) or (u_om.size and float(np.max(np.abs(u_om))) > 1e12):
                # a solver that stops on its relative tolerance at an astronomically large iterate (overflow regime of
                # the generated maps) reports convergence without being near a root: outside the premise
                res.discard = 'nonfinite'
                res.classes = cls + ['nonfinite']
                return res
            u_ref, rn = ref.solve(u_om, x)
            if not (rn < 1e-10):
                res.discard = 'reference-newton-failed'
                res.classes = cls + ['ref_failed']
                return res
            dudx, cond = ref.totals(u_ref, x)
            ref_scale = ref.totals_scale(u_ref, x)
            if not np.isfinite(cond) or cond > 1e8:
                res.discard = 'ill-conditioned'
                res.classes = cls + ['illcond']
                return res
            scale = 1.0 + float(np.max(np.abs(u_ref))) if u_ref.size else 1.0
            serr = float(np.max(np.abs(u_ref - u_om))) if u_ref.size else 0.0
            if serr > 1e-9 * max(1.0, cond) * scale:
                res.fail(tag(known, 'state:converged-outputs-not-a-root'),
                         f"max|u_om-u_ref|={serr:.3e} cond={cond:.2e} scale={scale:.2e}")
            ofs = [ref.var_positions(n) for n in q['of']]
            wrts = [ref.var_positions(n) for n in q['wrt']]
            Jref = np.block([[ref.total_block(dudx, (ok, op), (wk, wp)) for (wk, wp, _) in wrts] for (ok, op, _) in ofs])
        if spec.get('desvars'):
            # explicit of/wrt names that are also driver variables inherit the driver's indices: only the driver
            # query is judged for such cases
            try:
                bad = driver_totals(p, spec, ref, dudx, cond, bool(q.get('driver_scaling')), mode, ref_scale)
            except om.AnalysisError:
                res.discard = 'linear-nonconverged'
                res.classes = cls + ['nonconverged']
                return res
            for sig, det in bad:
                res.fail(tag(known, sig), det)
            continue
        try:
            J = p.compute_totals(of=q['of'], wrt=q['wrt'], return_format='array')
        except om.AnalysisError:
            res.discard = 'linear-nonconverged'
            res.classes = cls + ['nonconverged']
            return res
        except Exception as e:
            sig = core.repo_frame_signature(e, 'totals')
            if sig is None:
                raise
            res.fail(tag(known, sig), f"mode={mode}: {type(e).__name__}: {e}")
            continue
        J = np.asarray(J)
        # relative to the largest entry of the block, plus the round-off floor of the linear solve itself, which is
        # relative to the largest total derivative of the whole model (a block that is exactly zero in exact arithmetic is
        # obtained by cancelling terms of that size)
        floor = 1e-11 + 8 * np.finfo(float).eps * max(1.0, cond) * (1.0 + ref_scale)
        tol = 1e-9 * max(1.0, cond) * (float(np.max(np.abs(Jref))) if Jref.size else 0.0) + floor
        if J.shape != Jref.shape:
            res.fail(tag(known, 'totals:shape'), f"mode={mode} shape {J.shape} expected {Jref.shape}")
            continue
        err = float(np.max(np.abs(J - Jref))) if J.size else 0.0
        if not (err <= tol):
            res.fail(tag(known, f"totals:{mode}-differs-from-reference"),
                     f"mode={mode} maxerr={err:.3e} tol={tol:.3e} cond={cond:.2e}\nJ_om={J.tolist()}\nJ_ref={Jref.tolist()}")
        Jom[mode] = J
        if q.get('formats'):
            # every return format must describe the same matrix
            fd = p.compute_totals(of=q['of'], wrt=q['wrt'], return_format='flat_dict')
            dd = p.compute_totals(of=q['of'], wrt=q['wrt'], return_format='dict')
            r0 = 0
            for (ok, op, om_), on in zip(ofs, q['of']):
                c0 = 0
                for (wk, wp, wm), wn in zip(wrts, q['wrt']):
                    blk = J[r0:r0 + len(op), c0:c0 + len(wp)]
                    for nm, got in (('flat_dict', fd[on, wn]), ('dict', dd[on][wn])):
                        if np.asarray(got).shape != blk.shape or not np.array_equal(np.asarray(got), blk):
                            if core.maxerr(np.asarray(got).reshape(blk.shape) if np.asarray(got).size == blk.size else got, blk) > tol:
                                res.fail(tag(known, f"totals:return-format-{nm}"), f"{on},{wn}: {np.asarray(got).tolist()} vs {blk.tolist()}")
                    c0 += len(wp)
                r0 += len(op)
    ncomp = len([c for c in spec['comps'] if c['kind'] != 'ivc'])
    interesting = (flags & {'feedback', 'src_indices_nd', 'unit_factor', 'assembled', 'matfree', 'unit_offset'}) or spec.get('desvars')
    res.nontrivial = ncomp >= 3 and bool(interesting)
    res.classes = cls + ['judged'] + (['driver_vars', 'driver_scaling' if q.get('driver_scaling') else 'driver_unscaled']
                                      if spec.get('desvars') else ['explicit_of_wrt'])
    return res


def _scale_of(meta, n):
    """(scaler, adder) arrays of a desvar/response spec entry, from the documented definitions."""
    if meta.get('ref') is not None or meta.get('ref0') is not None:
        ref = np.asarray(meta.get('ref') if meta.get('ref') is not None else 1.0, dtype=float) * np.ones(n)
        ref0 = np.asarray(meta.get('ref0') if meta.get('ref0') is not None else 0.0, dtype=float) * np.ones(n)
        return 1.0 / (ref - ref0), -ref0
    sc = np.asarray(meta.get('scaler') if meta.get('scaler') is not None else 1.0, dtype=float) * np.ones(n)
    ad = np.asarray(meta.get('adder') if meta.get('adder') is not None else 0.0, dtype=float) * np.ones(n)
    return sc, ad


def driver_totals(p, spec, ref, dudx, cond, driver_scaling, mode, ref_scale=0.0):
    """compute_totals() of the driver's own variables (indices, units, scaling) against the reference."""
    from vfw.refmodel import conv
    out = []
    import openmdao.api as om
    try:
        Jd = p.compute_totals(return_format='flat_dict', driver_scaling=driver_scaling)
    except om.AnalysisError:
        raise
    except Exception as e:
        sig = core.repo_frame_signature(e, 'driver-totals')
        if sig is None:
            raise
        return [(sig, f"mode={mode}: {type(e).__name__}: {e}")]
    rt = 1e-9 * max(1.0, cond)
    floor = 1e-11 + 8 * np.finfo(float).eps * max(1.0, cond) * (1.0 + ref_scale)
    for r in spec['responses']:
        ok, op, om_ = ref.var_positions(r['name'], r.get('indices'), r.get('flat_indices'))
        fr = conv(om_['units'], r.get('units'))[0] if r.get('units') else 1.0
        sr = _scale_of(r, len(op))[0] if driver_scaling else np.ones(len(op))
        for d in spec['desvars']:
            wk, wp, wm = ref.var_positions(d['name'], d.get('indices'), d.get('flat_indices'))
            fd = conv(wm['units'], d.get('units'))[0] if d.get('units') else 1.0
            sd = _scale_of(d, len(wp))[0] if driver_scaling else np.ones(len(wp))
            Jr = ref.total_block(dudx, (ok, op), (wk, wp))
            key = (r.get('alias') or r['name'], d['name'])
            if key not in Jd:
                out.append(('driver-totals:missing-key', f"mode={mode}: {key} not in {sorted(Jd)}"))
                continue
            got = np.asarray(Jd[key], dtype=float)
            if driver_scaling and got.shape == Jr.shape:
                # compare in model units: every entry is divided by its own scale factor, so that a large or small
                # factor can neither hide an error nor turn round-off into one
                got = got / ((sr * fr)[:, None] / (sd * fd)[None, :])
            tol = rt * (float(np.max(np.abs(Jr))) if Jr.size else 0.0) + floor
            if got.shape != Jr.shape or (got.size and float(np.max(np.abs(got - Jr))) > tol):
                out.append((f"driver-totals:{'scaled' if driver_scaling else 'unscaled'}-block-differs-from-reference",
                            f"mode={mode} {key}: got {got.tolist()} expected {Jr.tolist()}"))
    return out


# ----------------------------------------------------------------------------------------------------
# known root causes as predicates over the spec
# ----------------------------------------------------------------------------------------------------

def has_dangling_implicit_state(spec, of):
    """F16: an implicit component with >=2 outputs one of which feeds nothing and is not a requested response."""
    used = {cn['src'] for cn in spec['conns']} | set(of)
    for c in spec['comps']:
        if c['kind'] == 'imp' and len(c['outputs']) >= 2:
            names = ['.'.join(c['path'] + [c['name'], v['name']]) for v in c['outputs']]
            if any(n not in used for n in names):
                return True
    return False


def known_sigs_for(spec, flags, q=None):
    """Root causes that are listed as *findings* (not the fixed ones), as predicates over the spec."""
    return []


def tag(known, sig):
    if known:
        return '+'.join(known) + '|' + sig.split(':')[0]
    return sig


# ----------------------------------------------------------------------------------------------------

def strategy(tier):
    from hypothesis import strategies as st
    from vfw.gen_spec import model_spec, profile

    @st.composite
    def case(draw):
        spec = draw(model_spec(profile(p_f4=0.05, auto_ivc=0.1, promotions=0.25, chains=0.2)))
        outs = ['.'.join(c['path'] + [c['name'], v['name']]) for c in spec['comps'] if c['kind'] != 'ivc' for v in c['outputs']]
        ins = ['.'.join(c['path'] + [c['name'], v['name']]) for c in spec['comps'] if c['kind'] == 'ivc' for v in c['outputs']]
        of = draw(st.lists(st.sampled_from(outs), min_size=1, max_size=3, unique=True))
        wrt = draw(st.lists(st.sampled_from(ins), min_size=1, max_size=3, unique=True))
        q = {'of': of, 'wrt': wrt, 'formats': draw(st.integers(0, 4)) == 0}
        if draw(st.booleans()):
            from vfw.gen_model import UNIT_FAMILIES, UNIT2FAMILY
            meta = {'.'.join(c['path'] + [c['name'], v['name']]): v for c in spec['comps'] for v in c['outputs']}
            q['driver_scaling'] = draw(st.booleans())
            scal = st.sampled_from([-4.0, -0.5, 0.25, 2.0, 10.0, 300.0])

            def entry(name, idx_ok=True):
                v = meta[name]
                size = int(np.prod(v['shape']))
                e = {'name': name}
                n = size
                if idx_ok and size > 1 and draw(st.booleans()):
                    k = draw(st.integers(1, size))
                    ids = draw(st.lists(st.integers(-size, size - 1), min_size=k, max_size=k, unique_by=lambda i: i % size))
                    e['indices'] = {'a': ids, 'list': draw(st.booleans())}
                    e['flat_indices'] = True
                    n = k
                kind = draw(st.sampled_from(['none', 'scaler', 'scaler_arr', 'ref', 'ref_arr']))
                if kind == 'scaler':
                    e['scaler'] = draw(scal)
                    if draw(st.booleans()):
                        e['adder'] = draw(st.sampled_from([-3.0, 0.5, 7.0]))
                elif kind == 'scaler_arr':
                    e['scaler'] = [draw(scal) for _ in range(n)]
                elif kind == 'ref':
                    e['ref'] = draw(st.sampled_from([0.5, 3.0, 40.0, -2.0]))
                    if draw(st.booleans()):
                        e['ref0'] = draw(st.sampled_from([-1.0, 0.25, 5.0]))
                        if abs(e['ref'] - e['ref0']) < 1e-9:
                            e['ref0'] = 0.0
                elif kind == 'ref_arr':
                    e['ref'] = [draw(st.sampled_from([0.5, 3.0, 40.0])) for _ in range(n)]
                    e['ref0'] = [draw(st.sampled_from([-1.0, 0.0, 0.25])) for _ in range(n)]
                if q['driver_scaling'] and v.get('units') and draw(st.booleans()):
                    fam = UNIT_FAMILIES[UNIT2FAMILY[v['units']]]
                    e['units'] = draw(st.sampled_from(fam))
                return e
            spec['desvars'] = [entry(n) for n in wrt]
            resp = []
            for i, n in enumerate(of):
                r = entry(n)
                r['type'] = 'con'
                r['lower'] = -1e30
                resp.append(r)
            spec['responses'] = resp
        return {'spec': spec, 'query': q}
    return case()


def units(tier, seed):
    n = 16 if tier == 'quick' else 32
    per = 40 if tier == 'quick' else 600
    return [{'kind': 'random', 'n': per, 'seed': core.shard_seed(seed, ID, i)} for i in range(n)]


def run_unit(unit, ctx):
    core.run_hypothesis(ctx, strategy(unit.get('tier')), check, unit['n'], unit['seed'], shrink=unit.get('tier') == 'thorough')
